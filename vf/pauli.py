"""Verifier-side Pauli algebra, independent of the library's tables: the single-qubit products
are derived from the numeric 2x2 matrices at import time. Operators are handled as coefficient
maps {frozenset((qubit, letter)): coefficient}; since Pauli strings are linearly independent,
two operators denote the same matrix iff their coefficient maps agree."""
import itertools

import numpy as np

MATS = {
    "I": np.array([[1, 0], [0, 1]], dtype=complex),
    "X": np.array([[0, 1], [1, 0]], dtype=complex),
    "Y": np.array([[0, -1j], [1j, 0]], dtype=complex),
    "Z": np.array([[1, 0], [0, -1]], dtype=complex),
}


def _derive():
    table = {}
    for a, b in itertools.product("IXYZ", repeat=2):
        M = MATS[a] @ MATS[b]
        for c in "IXYZ":
            for ph in (1, -1, 1j, -1j):
                if np.allclose(M, ph * MATS[c]):
                    table[a + b] = (c, ph)
    assert len(table) == 16
    return table


SINGLE = _derive()


def string_mul(s1, s2):
    """s1, s2: dict qubit->letter (no I).  returns (dict, phase)."""
    out, ph = {}, 1
    for q in set(s1) | set(s2):
        c, p = SINGLE[s1.get(q, "I") + s2.get(q, "I")]
        ph = ph * p
        if c != "I":
            out[q] = c
    return out, ph


def key(ops):
    return frozenset((int(q), l) for q, l in ops.items() if l != "I")


def cmap_of(op):
    """Coefficient map of a library PauliTerm / PauliSum (reads the public `operations` and `coefficient` only)."""
    cm = {}
    for t in op.terms:
        k = key(dict(t.operations))
        cm[k] = cm[k] + t.coefficient if k in cm else t.coefficient
    return cm


def cm_add(a, b, sign=1):
    out = dict(a)
    for k, v in b.items():
        out[k] = out[k] + sign * v if k in out else sign * v
    return out


def cm_scale(a, s):
    return {k: v * s for k, v in a.items()}


def cm_mul(a, b):
    out = {}
    for k1, v1 in a.items():
        for k2, v2 in b.items():
            s, ph = string_mul(dict(k1), dict(k2))
            k = key(s)
            val = v1 * v2 * ph
            out[k] = out[k] + val if k in out else val
    return out


def cm_pow(a, n):
    r = {frozenset(): 1}
    for _ in range(n):
        r = cm_mul(r, a)
    return r


def cm_conj(a):
    return {k: (v.conjugate() if hasattr(v, "conjugate") else v) for k, v in a.items()}


def dense(cm, n):
    """Numeric dense matrix of a concrete coefficient map, qubit 0 leftmost."""
    N = 2**n
    M = np.zeros((N, N), dtype=complex)
    for k, v in cm.items():
        ops = dict(k)
        P = np.eye(1, dtype=complex)
        for q in range(n):
            P = np.kron(P, MATS[ops.get(q, "I")])
        M = M + complex(v) * P
    return M


def all_strings(nq):
    out = []
    for letters in itertools.product("IXYZ", repeat=nq):
        out.append({q: l for q, l in enumerate(letters) if l != "I"})
    return out
