"""Exact Laurent polynomials in unit-circle variables z_k = e^{i*unit*a_k} and free real
variables v_k, with complex rational coefficients.

This is the canonical (Fourier) form used for Stage C certificates and for the
cross-check of solver verdicts: a trigonometric polynomial vanishes for all angles
iff every coefficient of its Laurent form vanishes; sup|p| <= sum|coeff| (l1) and,
by Parseval, sup|p| >= max|coeff| (linf) when no free variable occurs.

monomial = tuple(sorted(((kind, index), exponent))) with kind 'z' (exponent in Z\\{0})
or 'v' (exponent > 0).
"""
from fractions import Fraction
import math


class L:
    __slots__ = ("d",)

    def __init__(self, d=None):
        self.d = d if d is not None else {}

    # -- constructors -------------------------------------------------------
    @staticmethod
    def const(re, im=0):
        re = Fraction(re)
        im = Fraction(im)
        return L({(): (re, im)}) if (re or im) else L()

    @staticmethod
    def z(k, e=1):
        if e == 0:
            return ONE
        return L({((("z", k), e),): (Fraction(1), Fraction(0))})

    @staticmethod
    def v(k):
        return L({((("v", k), 1),): (Fraction(1), Fraction(0))})

    # -- ring operations ----------------------------------------------------
    def __add__(a, b):
        if not b.d:
            return a
        if not a.d:
            return b
        d = dict(a.d)
        for m, (r, i) in b.d.items():
            if m in d:
                r0, i0 = d[m]
                r1, i1 = r0 + r, i0 + i
                if r1 or i1:
                    d[m] = (r1, i1)
                else:
                    del d[m]
            else:
                d[m] = (r, i)
        return L(d)

    def __neg__(a):
        return L({m: (-r, -i) for m, (r, i) in a.d.items()})

    def __sub__(a, b):
        return a + (-b)

    def __mul__(a, b):
        if not a.d or not b.d:
            return ZERO
        out = {}
        for m1, (r1, i1) in a.d.items():
            for m2, (r2, i2) in b.d.items():
                if not m1:
                    m = m2
                elif not m2:
                    m = m1
                else:
                    e = dict(m1)
                    for n, x in m2:
                        e[n] = e.get(n, 0) + x
                    m = tuple(sorted((n, x) for n, x in e.items() if x))
                r = r1 * r2 - i1 * i2
                i = r1 * i2 + i1 * r2
                if m in out:
                    r0, i0 = out[m]
                    r += r0
                    i += i0
                if r or i:
                    out[m] = (r, i)
                else:
                    out.pop(m, None)
        return L(out)

    def __pow__(a, k):
        assert isinstance(k, int) and k >= 0
        r = ONE
        for _ in range(k):
            r = r * a
        return r

    def conj(a):
        return L(
            {
                tuple(sorted((n, (-x if n[0] == "z" else x)) for n, x in m)): (r, -i)
                for m, (r, i) in a.d.items()
            }
        )

    def scale(a, re, im=0):
        return a * L.const(re, im)

    # -- norms --------------------------------------------------------------
    def l1(a):
        return sum(math.hypot(float(r), float(i)) for r, i in a.d.values())

    def linf(a):
        return max((math.hypot(float(r), float(i)) for r, i in a.d.values()), default=0.0)

    def is_zero(a):
        return not a.d

    def has_free(a):
        return any(n[0] == "v" for m in a.d for n, _ in m)

    def degree(a, k):
        return max((abs(e) for m in a.d for n, e in m if n == ("z", k)), default=0)

    def atoms(a):
        return sorted({n for m in a.d for n, _ in m})

    def ddt(a, rates):
        """d/dt where z_k = e^{i*unit*a_k}, d(unit*a_k)/dt = rates[k]."""
        out = {}
        for m, (r, i) in a.d.items():
            w = sum(Fraction(e) * rates[n[1]] for n, e in m if n[0] == "z")
            if w:
                out[m] = (-i * w, r * w)
        return L(out)

    def evalf(a, zvals, vvals=None):
        """Numeric value; zvals[k] = angle (unit*a_k) in radians, vvals[k] real."""
        tot = 0j
        for m, (r, i) in a.d.items():
            t = complex(float(r), float(i))
            for n, e in m:
                if n[0] == "z":
                    t *= complex(math.cos(e * zvals[n[1]]), math.sin(e * zvals[n[1]]))
                else:
                    t *= vvals[n[1]] ** e
            tot += t
        return tot

    def __repr__(a):
        return "L(%d terms, l1=%.3g)" % (len(a.d), a.l1())


ONE = L.const(1)
ZERO = L()
I_ = L.const(0, 1)
