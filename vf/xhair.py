"""E3 - CrossHair (symbolic execution of Python with z3) on harness functions over the real
control logic, with AST cuts re-applied to the module's current source on every run."""
import ast
import importlib.util
import os
import re
import subprocess
import sys
import tempfile
import time
import types

from .core import VERIF, REPO


# ---------------------------------------------------------------------------
# cuts (used from inside generated harness files)


class StripRaiseFStrings(ast.NodeTransformer):
    """CUT-FMT: f-strings inside `raise ...(...)` become a constant (formatting a symbolic int
    realises it once per path and the analysis never becomes exhaustive)."""

    def __init__(self):
        self.n = 0

    def visit_Raise(self, node):
        outer = self

        class J(ast.NodeTransformer):
            def visit_JoinedStr(self, n2):
                outer.n += 1
                return ast.copy_location(ast.Constant(value="<msg>"), n2)

        return J().visit(node)


def load_cut(modname, alias, use=None):
    """Re-compile `modname` from its CURRENT source through the cuts and load it under `alias`.
    `use` maps real module names to already cut modules that this module's imports should see."""
    import importlib

    importlib.import_module(modname)  # make sure the package and its siblings are initialised
    spec = importlib.util.find_spec(modname)
    src = open(spec.origin).read()
    tree = ast.parse(src)
    tr = StripRaiseFStrings()
    tree = tr.visit(tree)
    ast.fix_missing_locations(tree)
    mod = types.ModuleType(alias)
    mod.__file__ = spec.origin
    mod.__package__ = modname.rpartition(".")[0]
    mod.__name__ = alias
    sys.modules[alias] = mod
    saved = {}
    for real, cut in (use or {}).items():
        saved[real] = sys.modules.get(real)
        sys.modules[real] = cut
    try:
        exec(compile(tree, spec.origin, "exec"), mod.__dict__)
    finally:
        for real, old in saved.items():
            if old is None:
                sys.modules.pop(real, None)
            else:
                sys.modules[real] = old
    mod.__vf_cuts__ = {"CUT-FMT": tr.n}
    return mod


HEADER = '''\
import sys, os
sys.path.insert(0, {verif!r})
sys.path.insert(0, os.path.join({repo!r}, "src"))
from typing import List, Tuple, Dict, Optional
from vf.xhair import load_cut
'''


def functions_in(source):
    tree = ast.parse(source)
    out = []
    for node in tree.body:
        if isinstance(node, ast.FunctionDef) and node.name.startswith("h_"):
            out.append((node.name, node.lineno, node.end_lineno))
    return out


def run_crosshair(body, per_condition_timeout=30, only=None, procs=16):
    """body: harness source (without header). Each function h_* with a PEP316 docstring is one condition.
    Functions are analysed in separate crosshair processes (parallel). Returns {name: (verdict, detail, secs)}
    verdict in confirmed / refuted / notconfirmed / unable / error."""
    source = HEADER.format(verif=VERIF, repo=REPO) + body
    d = tempfile.mkdtemp(prefix="vf-xh-", dir="/var/tmp")
    path = os.path.join(d, "vf_harness_mod.py")
    with open(path, "w") as f:
        f.write(source)
    funcs = functions_in(source)
    if only:
        funcs = [f for f in funcs if only in f[0]]
    py = sys.executable
    env = dict(os.environ)
    env["PYTHONPATH"] = VERIF + os.pathsep + os.path.join(REPO, "src")
    results = {}
    running = []
    pending = list(funcs)

    def launch(fn):
        name, l0, l1 = fn
        cmd = [py, "-m", "crosshair", "check", "--report_all", "--per_condition_timeout", str(per_condition_timeout), "--per_path_timeout", str(max(2, per_condition_timeout // 3)), f"{path}:{l0 + 1}"]
        t = time.time()
        p = subprocess.Popen(cmd, stdout=subprocess.PIPE, stderr=subprocess.STDOUT, text=True, env=env, cwd=d)
        return (fn, p, t)

    try:
        while pending or running:
            while pending and len(running) < procs:
                running.append(launch(pending.pop(0)))
            still = []
            for fn, p, t in running:
                if p.poll() is None:
                    if time.time() - t > per_condition_timeout * 4 + 60:
                        p.kill()
                        results[fn[0]] = ("notconfirmed", "crosshair process exceeded its wall budget", time.time() - t)
                    else:
                        still.append((fn, p, t))
                    continue
                out = p.stdout.read()
                results[fn[0]] = _classify(out, fn) + (time.time() - t,)
            running = still
            if running:
                time.sleep(0.2)
    finally:
        import shutil

        shutil.rmtree(d, ignore_errors=True)
    return results


def _classify(out, fn):
    name, l0, l1 = fn
    lines = [l for l in out.splitlines() if "vf_harness_mod.py" in l]
    text = " | ".join(l.split("vf_harness_mod.py:", 1)[-1] for l in lines)[:600]
    if any("error:" in l for l in lines):
        return ("refuted", text)
    if any("Confirmed over all paths" in l for l in lines):
        return ("confirmed", text)
    if any("Unable to meet precondition" in l for l in lines):
        return ("unable", text)
    if any("Not confirmed" in l for l in lines):
        return ("notconfirmed", text)
    return ("error", (out.strip() or "no output")[-600:])
