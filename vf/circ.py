"""Shared helpers for the circuit-level (E1) harnesses: a small spec language for gates and
circuits (so workers and replays rebuild the same objects from plain data), generic symbolic
gates, numpy-side oracles for replays."""
import itertools
import math

import numpy as np
import sympy

I = sympy.I


def S(name):
    return sympy.Symbol(name)


# ---------------------------------------------------------------------------
# generic / constant custom gates


def generic_def(k, tag=""):
    """CustomGateDefinition whose matrix is a full matrix of parameter symbols."""
    from orquestra.quantum.circuits import CustomGateDefinition

    n = 2**k
    ps = [[S(f"p{tag}{k}_{i}_{j}") for j in range(n)] for i in range(n)]
    flat = tuple(x for row in ps for x in row)
    return CustomGateDefinition(f"G{tag}{k}", sympy.Matrix(ps), flat)


def generic_gate(k, tag=""):
    """Generic k-qubit gate with entries r_ij + I*s_ij (r, s real unknowns)."""
    d = generic_def(k, tag)
    n = 2**k
    params = tuple(S(f"r{tag}{k}_{i}_{j}") + I * S(f"s{tag}{k}_{i}_{j}") for i in range(n) for j in range(n))
    return d(*params)


def sparse_generic_gate(k, tag="sp"):
    """Generic gate with ~2 symbolic entries per row (keeps arity-4 instances small)."""
    from orquestra.quantum.circuits import CustomGateDefinition

    n = 2**k
    rows = []
    syms = []
    for i in range(n):
        row = [0] * n
        for j in (i, (5 * i + 3) % n):
            s = S(f"q{tag}{k}_{i}_{j}")
            syms.append(s)
            row[j] = s
        rows.append(row)
    syms = tuple(dict.fromkeys(syms))
    d = CustomGateDefinition(f"SG{tag}{k}", sympy.Matrix(rows), syms)
    params = tuple(S(str(s).replace("q", "r", 1)) + I * S(str(s).replace("q", "s", 1)) for s in syms)
    return d(*params)


def const_asym_gate(k):
    """Constant, asymmetric, non-unitary-looking k-qubit custom gate (small dyadic entries),
    used to observe index conventions on the numpy lifting path."""
    from orquestra.quantum.circuits import CustomGateDefinition

    n = 2**k
    rows = [[sympy.Rational((3 * i + 5 * j + i * j) % 7 - 3, 4) + I * sympy.Rational((i + 2 * j) % 5 - 2, 8) for j in range(n)] for i in range(n)]
    return CustomGateDefinition(f"K{k}", sympy.Matrix(rows), ())()


def const_diag_gate(k):
    """Constant DIAGONAL k-qubit custom gate whose diagonal entries are pairwise different (so any re-ordering of the
    gate's own qubits is visible): the structure a diagonal fast path would look for."""
    from orquestra.quantum.circuits import CustomGateDefinition

    n = 2**k
    rows = [[(sympy.Rational(2 * i + 1, 4) + I * sympy.Rational(i * i % 5 - 2, 8)) if i == j else 0 for j in range(n)] for i in range(n)]
    return CustomGateDefinition(f"D{k}", sympy.Matrix(rows), ())()


def const_monomial_gate(k):
    """Constant monomial (permutation times distinct phases/weights) k-qubit custom gate, asymmetric."""
    from orquestra.quantum.circuits import CustomGateDefinition

    n = 2**k
    perm = [(3 * i + 1) % n if n > 2 else 1 - i for i in range(n)]
    if sorted(perm) != list(range(n)):
        perm = list(range(1, n)) + [0]
    rows = [[(sympy.Rational(i + 1, 2) - I * sympy.Rational(i % 3, 4)) if j == perm[i] else 0 for j in range(n)] for i in range(n)]
    return CustomGateDefinition(f"P{k}", sympy.Matrix(rows), ())()


def gate_by_id(gid):
    """gate ids: builtin constant name (H, CNOT...), 'RX(expr)' builtin parametric with sympy
    expression text, 'G1'/'G2'/'G3' generic, 'K1'/'K2'/'K3' constant asymmetric custom,
    modifiers as suffixes: '.dagger', '.c1' (controlled(1)), '.pow(2)', '.exp'."""
    from orquestra.quantum.circuits import _builtin_gates as B

    base, *mods = gid.split("|")
    if base[0] == "G" and base[1:].isdigit():
        g = generic_gate(int(base[1:]))
    elif base.startswith("SG"):
        g = sparse_generic_gate(int(base[2:]))
    elif base[0] == "K" and base[1:].isdigit():
        g = const_asym_gate(int(base[1:]))
    elif base[0] == "D" and base[1:].isdigit():
        g = const_diag_gate(int(base[1:]))
    elif base[0] == "P" and base[1:].isdigit():
        g = const_monomial_gate(int(base[1:]))
    elif base in ("UA", "UB", "UC"):
        # three DIFFERENT constant custom gates that share the gate name "U" (a name re-used from one circuit to the next)
        from orquestra.quantum.circuits import CustomGateDefinition

        M = {"UA": [[1, 0], [0, I]], "UB": [[1, 0], [0, -1]], "UC": [[0, 1], [I, 0]]}[base]
        g = CustomGateDefinition("U", sympy.Matrix(M), ())()
    elif base[:3] in ("VA(", "VB(") and base.endswith(")"):
        # two DIFFERENT one-parameter custom gates that share the gate name "V" (same name AND same parameter values)
        from orquestra.quantum.circuits import CustomGateDefinition

        t = S("t_v")
        M = [[sympy.cos(t), -sympy.sin(t)], [sympy.sin(t), sympy.cos(t)]] if base[1] == "A" else [[sympy.exp(I * t), 0], [0, 1]]
        g = CustomGateDefinition("V", sympy.Matrix(M), (t,))(parse_param(base[3:-1]))
    elif base in ("CDI", "CSY(th0)", "CSY(0.7)"):
        from .props import c07

        g = c07.diag_custom_gate() if base == "CDI" else c07.sym_custom_gate()(parse_param(base[4:-1]))
    elif "(" in base:
        name, args = base[:-1].split("(", 1)
        ps = [parse_param(a) for a in split_args(args)]
        g = getattr(B, name)(*ps)
    else:
        g = getattr(B, base)
    for m in mods:
        if m == "dagger":
            g = g.dagger
        elif m.startswith("c") and m[1:].isdigit():
            g = g.controlled(int(m[1:]))
        elif m.startswith("pow(") and m.endswith(")"):
            g = g.power(parse_number(m[4:-1]))
        elif m == "exp":
            g = g.exp
        else:
            raise ValueError(f"bad modifier {m}")
    return g


def split_args(s):
    out, depth, cur = [], 0, ""
    for ch in s:
        if ch == "," and depth == 0:
            out.append(cur)
            cur = ""
        else:
            depth += ch in "([{"
            depth -= ch in ")]}"
            cur += ch
    if cur.strip():
        out.append(cur)
    return out


def parse_number(t):
    t = t.strip()
    if "/" in t:
        a, b = t.split("/")
        return int(a) / int(b)
    try:
        return int(t)
    except ValueError:
        return float(t)


def parse_param(t):
    """Python int/float literal stays a Python number; anything else is a sympy expression over
    plain Symbols (every identifier becomes a Symbol, nothing is taken from sympy's namespace)."""
    t = t.strip()
    try:
        return int(t)
    except ValueError:
        pass
    try:
        return float(t)
    except ValueError:
        pass
    import re

    names = set(re.findall(r"[A-Za-z_][A-Za-z_0-9]*", t)) - {"I", "pi"}
    loc = {n: S(n) for n in names}
    loc["I"] = I
    loc["pi"] = sympy.pi
    return sympy.sympify(t, locals=loc)


def op_from_spec(spec):
    from orquestra.quantum.circuits import MultiPhaseOperation

    gid, qubits = spec
    if gid.startswith("MPO"):
        phases = tuple(float(x) for x in gid[4:-1].split(","))
        return MultiPhaseOperation(phases)
    return gate_by_id(gid)(*qubits)


def circuit_from_spec(specs, n_qubits=None):
    from orquestra.quantum.circuits import Circuit

    return Circuit([op_from_spec(s) for s in specs], n_qubits=n_qubits)


def spec_str(specs):
    return " ; ".join(f"{g}({','.join(map(str, q))})" if not g.startswith("MPO") else g for g, q in specs)


# ---------------------------------------------------------------------------
# numpy-side oracles (used by replays)


def np_embed(M, idx, n):
    M = np.asarray(M, dtype=complex)
    N = 1 << n
    others = [q for q in range(n) if q not in idx]
    out = np.zeros((N, N), dtype=complex)

    def sub(r):
        v = 0
        for q in idx:
            v = (v << 1) | ((r >> (n - 1 - q)) & 1)
        return v

    def rest(r):
        return tuple((r >> (n - 1 - q)) & 1 for q in others)

    for r in range(N):
        for c in range(N):
            if rest(r) == rest(c):
                out[r, c] = M[sub(r), sub(c)]
    return out


def np_matrix(sym_matrix, values):
    """Evaluate a sympy/numpy matrix at {symbol name: float}."""
    if isinstance(sym_matrix, sympy.MatrixBase):
        sub = {s: values.get(str(s), 0.37) for s in sym_matrix.free_symbols}
        return np.array(sym_matrix.subs(sub).evalf(), dtype=complex)
    arr = np.array(sym_matrix, dtype=object)
    f = np.vectorize(lambda e: complex(sympy.sympify(e).subs({s: values.get(str(s), 0.37) for s in sympy.sympify(e).free_symbols}).evalf()), otypes=[complex])
    return f(arr)


def np_oracle_unitary(ops, n, values):
    """Ordered product of embedded gate matrices; MultiPhaseOperation as a diagonal."""
    from orquestra.quantum.circuits import MultiPhaseOperation

    U = np.eye(1 << n, dtype=complex)
    for op in ops:
        if isinstance(op, MultiPhaseOperation):
            E = np.diag(np.exp(1j * np.array([float(p) for p in op.params])))
        else:
            E = np_embed(np_matrix(op.gate.matrix, values), list(op.qubit_indices), n)
        U = E @ U
    return U


def all_index_tuples(n, k):
    return list(itertools.permutations(range(n), k))
