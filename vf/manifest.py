"""Generates /verif/MANIFEST.json from the table below:  python -m vf.manifest"""
import json
import os

VERIF = os.path.dirname(os.path.dirname(os.path.abspath(__file__)))

ENGINES = [
    {
        "name": "E1-SymCircuit",
        "path": "vf/front.py, vf/solve.py, vf/laurent.py",
        "serves_properties": ["C01", "C02", "C05", "C06", "C07", "C08", "C16", "C18", "C19"],
        "kind_free_text": "the library's own symbolic mode executed on sympy symbols, outputs translated to z3 QF_NRA over circle points (cvc5 and an exact Fourier/Laurent certificate as fall-back and cross-check)",
    },
    {
        "name": "E2-SymTrace",
        "path": "vf/symtrace.py",
        "serves_properties": ["C03", "C04", "C09", "C10", "C11", "C12", "C13", "C15", "C17", "C20"],
        "kind_free_text": "shadow symbolic scalars (z3 terms) pushed through the real numeric code with a DFS path explorer that decides branch feasibility by z3; obligations per path",
    },
    {
        "name": "E3-CrossHair",
        "path": "vf/xhair.py",
        "serves_properties": ["C13", "C14", "C15"],
        "kind_free_text": "crosshair-tool symbolic execution (z3) of harnesses over the real control logic, with AST cuts regenerated from the current source",
    },
    {
        "name": "E4-DuckTypedKernels",
        "path": "vf/props/c12.py (BVInt), vf/props/c19.py (DigitStr, SymInt)",
        "serves_properties": ["C12", "C19"],
        "kind_free_text": "leaf kernels executed on duck-typed symbolic objects: z3 bit-vectors through the real next-Hamming-weight bit trick (C12), digit strings with symbolic digits through the real natural-key functions (C19); obligations decided by z3 (QF_BV / LIA)",
    },
]

# pid -> dict(level, text, note, technique, design_ref)
CLAIMED = {}
NOT_APPLICABLE = {}


def claim(pid, level, text, note, technique, design_ref):
    CLAIMED[pid] = dict(level=level, text=text, note=note, technique=technique, design_ref=design_ref)


def na(pid, reason):
    NOT_APPLICABLE[pid] = reason


from .manifest_table import register  # noqa: E402

register(claim, na)


def build():
    checks = []
    for pid in sorted(CLAIMED):
        c = CLAIMED[pid]
        checks.append(
            {
                "property_id": pid,
                "quick_cmd": f"bin/check {pid} --tier quick",
                "thorough_cmd": f"bin/check {pid} --tier thorough",
                "evidence_file": f"evidence/{pid}.json",
                "replay_cmd_template": f"bin/check {pid} --replay {{path}}",
                "engine": c.get("engine", "vf"),
                "level_claimed": {"category": c["level"], "text": c["text"], "design_ref": c["design_ref"]},
                "level_note": c["note"],
                "technique": c["technique"],
            }
        )
    all_ids = [f"C{i:02d}" for i in range(1, 21)]
    not_app = [
        {"property_id": pid, "reason": NOT_APPLICABLE.get(pid, "check not built yet in this session (planned, see DESIGN.md)")}
        for pid in all_ids
        if pid not in CLAIMED
    ]
    return {
        "version": 1,
        "setup_cmd": "bin/setup",
        "hooks": {
            "guard": "ORQUESTRA_QUANTUM_VERIF",
            "enable": "no source hooks: stubs are injected from outside (module attributes / AST re-compilation of the current source); bin/check exports ORQUESTRA_QUANTUM_VERIF=1 for uniformity",
            "baseline_off_cmd": "bin/baseline",
            "source_commits": [],
            "add_only": True,
        },
        "engines": ENGINES,
        "checks": checks,
        "notes": "Solver-based checking of the real code (z3 / cvc5 / CrossHair). Exit 0 = held on everything explored; 1 = VIOLATION line(s) with replay files; 3 = harness error (never a verdict). KNOWN-FINDING lines refer to known_findings.json.",
        "not_applicable": not_app,
    }


if __name__ == "__main__":
    m = build()
    with open(os.path.join(VERIF, "MANIFEST.json"), "w") as f:
        json.dump(m, f, indent=1)
    print("claimed:", [c["property_id"] for c in m["checks"]], "not claimed:", [n["property_id"] for n in m["not_applicable"]])
