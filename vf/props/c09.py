"""C09 - operator-to-matrix conversions agree with the operator's definition.
E2 for hermitian_conjugated / is_hermitian / reverse_qubit_order (symbolic coefficients);
get_sparse_operator, get_pauliop_from_matrix and expectation run through scipy.sparse / text
formatting and are ground instances (numeric oracle), not decided by the solver."""
import itertools
import random

import numpy as np
import z3

from ..core import Result, pmap, stable_pick
from .. import symtrace as ST
from .. import pauli as PL
from .c03 import Vars, build_operand, _parts, _patched

LEVEL = "model_checking"
TOL = 4e-8


def _within(delta, tol):
    re, im = _parts(delta)
    t = z3.RealVal(str(tol))
    return z3.And(re <= t, re >= -t, im <= t, im >= -t)


def work(item):
    kind, p = item
    res = Result(f"{kind}|{p['label']}")
    from orquestra.quantum.operators import _utils as OU
    from orquestra.quantum.operators._openfermion_utils import operator_utils as OP, sparse_tools as SP

    try:  # evidence only: a renamed private helper must not break the check
        res.fn(OP.hermitian_conjugated, OP.is_hermitian, OU.reverse_qubit_order, SP.get_sparse_operator, SP.expectation, OU.get_expectation_value, OU.get_pauliop_from_matrix, OU.get_pauliop_from_coeffs_and_labels)
    except AttributeError:
        pass
    try:
        if kind in ("conj", "herm", "rev"):
            with _patched():
                {"conj": _w_conj, "herm": _w_herm, "rev": _w_rev}[kind](res, p)
        else:
            _w_ground(res, kind, p)
    except ST.Inconclusive as e:
        res.ob(1)
        res.inconc(str(e))
    return res.as_dict()


def _run(res, p, V, fn, names_from=None):
    ex = ST.Explorer(base=[], timeout_ms=8000, logic="auto", max_paths=400)
    from .c03 import _LazyBase

    ex.base = _LazyBase(V)
    records = []
    outs = ex.run(lambda e: fn(e, records))
    res.d["paths"] += ex.npaths
    res.d["solver_queries"] += ex.queries
    res.d["solver_s"] += ex.solver_s
    res.nontrivial()
    for o in outs:
        if o[0] == "exc" and not isinstance(o[1], p.get("expect_exc", ())):
            res.ob(1)
            res.candidate("raises", f"{p['label']} raised {type(o[1]).__name__}: {str(o[1])[:120]}", dict(p, clause="raises", values={}), sub="raises")
    for clause, v, m in records:
        res.ob(1)
        if v == "holds":
            res.ob(0, 1, "A:z3")
        elif v == "violated":
            vals = {n: ST.model_value(m, z3.Real(n)) for n in V.names} if m is not None else {}
            res.candidate(clause, f"{p['label']}: {clause} fails", dict(p, clause=clause, values=vals), sub=clause)
        else:
            res.inconc("z3 unknown", clause)
    res.sample({kind_of(p): p["label"], "paths": ex.npaths})


def kind_of(p):
    return p.get("kind", "instance")


def _cm_close(ex, got, want, tol):
    claims = [_within(got.get(k, 0) - want.get(k, 0), tol) for k in sorted(set(got) | set(want), key=lambda kk: sorted(kk))]
    verdict, model = "holds", None
    for c in claims:
        v, m = ex.prove(c)
        if v == "violated":
            return v, m
        if v == "unknown":
            verdict = "unknown"
    return verdict, model


def _w_conj(res, p):
    from orquestra.quantum.operators._openfermion_utils.operator_utils import hermitian_conjugated

    V = Vars()

    def fn(ex, records):
        A = build_operand(p["A"], V)
        before = PL.cmap_of(A)
        snap = [(dict(t._ops), t.coefficient) for t in A.terms]
        R = hermitian_conjugated(A)
        records.append(("conjugate-denotes-adjoint",) + _cm_close(ex, PL.cmap_of(R), PL.cm_conj(before), TOL))
        now = [(dict(t._ops), t.coefficient) for t in A.terms]
        same = len(now) == len(snap) and all(a[0] == b[0] and a[1] is b[1] for a, b in zip(now, snap))
        records.append(("argument-unchanged",) + ex.prove(z3.BoolVal(bool(same))))
        return R

    _run(res, dict(p, kind="hermitian_conjugated"), V, fn)


def _w_herm(res, p):
    from orquestra.quantum.operators._openfermion_utils.operator_utils import is_hermitian

    V = Vars(pin=True)
    seen = set()

    def fn(ex, records):
        V.npin = 0
        V.cons = [c for c in V.cons if "pin" not in str(c)]
        A = build_operand(p["A"], V)
        A = A.simplify() if p["A"][0] == "sum" else A
        cm = PL.cmap_of(A)
        r = is_hermitian(A)
        r = bool(r)
        seen.add(r)
        ims = [_parts(v)[1] for v in cm.values()]
        if r:
            gap = z3.RealVal("1/1000")
            records.append(("hermitian-true-only-if-real",) + ex.prove(z3.And(*[z3.And(i < gap, i > -gap) for i in ims]) if ims else True))
        else:
            records.append(("hermitian-false-only-if-complex",) + ex.prove(z3.Or(*[i != 0 for i in ims]) if ims else False))
        return r

    _run(res, dict(p, kind="is_hermitian"), V, fn)
    res.d["vacuity_twins"] += 1
    if seen == {True, False} or p.get("one_sided"):
        res.d["vacuity_ok"] += 1
    else:
        res.herr(f"is_hermitian harness explored only {seen}")


def _w_rev(res, p):
    from orquestra.quantum.operators._utils import reverse_qubit_order

    V = Vars()
    n = p.get("n")

    def fn(ex, records):
        A = build_operand(p["A"], V)
        before = PL.cmap_of(A)
        width = max([q + 1 for k in before for q, _ in k] or [0])
        if n is not None and n < width:
            try:
                reverse_qubit_order(A, n)
                records.append(("reverse-rejects-too-few-qubits", "violated", None))
            except ValueError:
                records.append(("reverse-rejects-too-few-qubits", "holds", None))
            return None
        nn = width if n is None else n
        R = reverse_qubit_order(A, n) if n is not None else reverse_qubit_order(A)
        want = {}
        for k, v in before.items():
            kk = frozenset((nn - 1 - q, l) for q, l in k)
            want[kk] = want[kk] + v if kk in want else v
        records.append(("reverse-once-is-bit-reversal",) + _cm_close(ex, PL.cmap_of(R), want, TOL))
        R2 = reverse_qubit_order(R, nn)
        merged = {}
        for k, v in before.items():
            merged[k] = merged[k] + v if k in merged else v
        records.append(("reverse-twice-is-identity",) + _cm_close(ex, PL.cmap_of(R2), merged, 2 * TOL))
        after = PL.cmap_of(A)
        records.append(("argument-unchanged",) + ex.prove(z3.BoolVal(set(after) == set(before))))
        return R

    _run(res, dict(p, kind="reverse_qubit_order"), V, fn)


# ---------------------------------------------------------------------------
# ground instances


def op_from(terms):
    from orquestra.quantum.operators import PauliTerm, PauliSum

    ts = [PauliTerm({int(q): l for q, l in ops.items()}, complex(*c) if isinstance(c, list) else c) for ops, c in terms]
    return ts[0] if len(ts) == 1 else PauliSum(ts)


def sparse_bad(terms, n):
    from orquestra.quantum.operators._openfermion_utils.sparse_tools import get_sparse_operator

    op = op_from(terms)
    from orquestra.quantum.operators import PauliSum

    if not terms:
        op = PauliSum()
    M = get_sparse_operator(op, n) if n is not None else get_sparse_operator(op)
    width = op.n_qubits
    nn = width if n is None else n
    want = PL.dense(PL.cmap_of(op), nn) if terms else np.zeros((2**nn, 2**nn))
    got = np.asarray(M.todense())
    if got.shape != want.shape:
        return f"shape {got.shape} vs {want.shape}"
    d = np.abs(got - want).max() if got.size else 0.0
    return None if d < 1e-12 else f"sparse matrix differs from the tensor-product definition by {d:.3g}"


def expectation_bad(terms, n, seed, reverse):
    from orquestra.quantum.operators import get_expectation_value
    from orquestra.quantum.operators._openfermion_utils.sparse_tools import expectation, get_sparse_operator
    from orquestra.quantum.wavefunction import Wavefunction

    rng = np.random.default_rng(seed)
    v = rng.normal(size=2**n) + 1j * rng.normal(size=2**n)
    v = v / np.linalg.norm(v)
    op = op_from(terms)
    cm = PL.cmap_of(op)
    if reverse:
        cm = {frozenset((n - 1 - q, l) for q, l in k): c for k, c in cm.items()}
    Mop = PL.dense(cm, n)
    want = v.conj() @ Mop @ v
    got = get_expectation_value(op, Wavefunction(v), reverse_operator=reverse)
    if abs(got - want) > 1e-10:
        return f"get_expectation_value {got} vs quadratic form {want}"
    if not reverse:
        sp = get_sparse_operator(op, n)
        g1 = expectation(sp, v)
        g2 = expectation(sp, v.reshape(-1, 1))
        if abs(g1 - want) > 1e-10 or abs(g2 - want) > 1e-10:
            return f"expectation {g1}, {g2} vs quadratic form {want}"
    return None


def matrix_roundtrip_bad(n, seed, kind):
    from orquestra.quantum.operators._utils import get_pauliop_from_matrix

    rng = np.random.default_rng(seed)
    N = 2**n
    if kind == "real":
        M = np.round(rng.normal(size=(N, N)), 3)
    elif kind == "complex":
        M = np.round(rng.normal(size=(N, N)), 3) + 1j * np.round(rng.normal(size=(N, N)), 3)
    elif kind == "hermitian":
        A = rng.normal(size=(N, N)) + 1j * rng.normal(size=(N, N))
        M = np.round(A + A.conj().T, 3)
    elif kind == "sparse":
        M = np.zeros((N, N), dtype=complex)
        M[0, N - 1] = 1.5
        M[N - 1, 0] = -2j
        M[1 % N, 1 % N] = 0.25
    else:
        M = np.eye(N) * 2.0
    op = get_pauliop_from_matrix(M.tolist())
    back = PL.dense(PL.cmap_of(op), n)
    d = np.abs(back - M).max()
    return None if d < 1e-7 else f"Pauli expansion of a {N}x{N} {kind} matrix converts back with error {d:.3g}"


def _w_ground(res, kind, p):
    res.d["ground_instances"] += 1
    res.d["instances"] -= 1
    res.ob(1)
    try:
        if kind == "sparse":
            bad = sparse_bad(p["terms"], p["n"])
        elif kind == "expect":
            bad = expectation_bad(p["terms"], p["n"], p["seed"], p["reverse"])
        else:
            bad = matrix_roundtrip_bad(p["n"], p["seed"], p["mkind"])
    except Exception as e:
        import traceback

        bad = f"raised {type(e).__name__}: {e} | {traceback.format_exc()[-200:]}"
    if bad:
        res.candidate(kind, f"{p['label']}: {bad}", dict(p, clause=kind, values={}), sub=kind)
    else:
        res.ob(0, 1, "ground-numeric")


def _ops(d):
    return {str(q): l for q, l in d.items()}


def instances(tier, seed):
    rng = random.Random(seed * 3 + 8)
    items = []
    S = {
        "term-c": ["term", _ops({0: "X", 2: "Y"}), "c0"],
        "term-const": ["term", {}, "c0"],
        "sum2": ["sum", [[_ops({0: "X"}), "c0"], [_ops({0: "Y", 1: "Z"}), "c1"]]],
        "sum3-gap": ["sum", [[_ops({0: "Z", 3: "Z"}), "c0"], [_ops({1: "Y"}), "c1"], [{}, "c2"]]],
        "dup": ["sum", [[_ops({1: "X"}), "c0"], [_ops({1: "X"}), "c1"]]],
        "widths": ["sum", [[_ops({0: "Z"}), "c0"], [_ops({1: "Z"}), 2.0], [_ops({0: "Z", 1: "Z"}), "c1"]]],
        "widths2": ["sum", [[_ops({3: "Y"}), "c0"], [_ops({0: "X", 1: "Z"}), "c1"]]],
        "empty": ["sum", []],
        "mixed-real": ["sum", [[_ops({0: "X"}), "r0"], [_ops({1: "Y"}), [0.0, 0.5]]]],
    }
    for name, A in S.items():
        items.append(("conj", {"A": A, "label": f"hermitian_conjugated({name})"}))
        items.append(("herm", {"A": A, "one_sided": name in ("empty", "mixed-real"), "label": f"is_hermitian({name})"}))
        width = max([int(q) + 1 for t in (A[1] if A[0] == "sum" else [[A[1]]]) for q in (t[0] if A[0] == "sum" else A[1])] or [0])
        for n in [None, width, width + 1, width + 2] + ([width - 1] if width > 1 else []):
            items.append(("rev", {"A": A, "n": n, "label": f"reverse_qubit_order({name}, n={n})"}))
    # ground: sparse operator vs dense tensor-product oracle
    strings = PL.all_strings(3)
    for s in strings:
        width = max(list(s) + [-1]) + 1
        for n in (None, width, width + 1, width + 2):
            if n == 0 or (n is None and not s):
                continue
            if tier == "quick" and not stable_pick((str(s), n), 3, seed) and len(s) < 3:
                continue
            items.append(("sparse", {"terms": [[_ops(s), [0.5, -1.25]]], "n": n, "label": f"sparse {s} n={n}"}))
    for terms, ns in [
        ([[_ops({0: "X", 4: "Y"}), 2.0], [_ops({2: "Z"}), [0, 1.0]], [{}, -0.5]], (None, 5, 6)),
        ([[{}, 1.5]], (1, 2, 3)),
        ([], (1, 2)),
        ([[_ops({1: "Y"}), 1.0], [_ops({1: "Y"}), -1.0]], (2, 3)),
        ([[_ops({0: "Z"}), 1.0], [_ops({1: "Z"}), 2.0], [_ops({0: "Z", 1: "Z"}), 0.5]], (None, 2, 4)),
    ]:
        for n in ns:
            items.append(("sparse", {"terms": terms, "n": n, "label": f"sparse sum {terms} n={n}"}))
    for terms, n in [
        ([[_ops({0: "X", 1: "Z"}), [0.0, 1.0]]], 2),
        ([[_ops({0: "X"}), 1.0], [_ops({0: "Y"}), [0.0, 1.0]]], 1),
        ([[_ops({0: "Z", 2: "Y"}), 0.7], [_ops({1: "X"}), [0.3, -0.4]], [{}, 1.0]], 3),
        ([[_ops({1: "Z"}), 2.0]], 3),
    ]:
        for reverse in (False, True):
            for k in range(2 if tier == "quick" else 6):
                items.append(("expect", {"terms": terms, "n": n, "seed": rng.randrange(10**6), "reverse": reverse, "label": f"expectation {terms} n={n} reverse={reverse} #{k}"}))
    for n in (1, 2, 3):
        for mk in ("real", "complex", "hermitian", "sparse", "identity"):
            for k in range(1 if tier == "quick" or n == 3 else 4):
                items.append(("matrix", {"n": n, "seed": rng.randrange(10**6), "mkind": mk, "label": f"matrix round trip n={n} {mk} #{k}"}))
    return items


def run(ctx):
    items = instances(ctx.tier, ctx.seed)
    if getattr(ctx, "only", None):
        items = [it for it in items if ctx.only in it[1]["label"] or ctx.only == it[0]]
    ctx.bounds = {
        "symbolic": "9 operators (terms with gaps, constants, duplicates, terms of different widths, the empty sum) with symbolic complex coefficients (|parts| <= 4); reverse_qubit_order with n in {default, width, width+1, width+2, width-1}",
        "ground": "get_sparse_operator for all Pauli strings on <= 3 qubits with identity padding n in {default, w, w+1, w+2} and 5 sums incl. the zero operator; expectation for 4 operators (non-Hermitian too) on random states; Pauli expansion round trips of 2x2..8x8 matrices",
    }
    ctx.assume(
        "exact-real floats for the symbolic part",
        "NOT decided by the solver (ground instances only): get_sparse_operator (scipy.sparse needs numeric dtypes), get_pauliop_from_matrix (coefficients travel through f-strings and complex(str)), get_expectation_value/expectation (sparse matvec)",
    )
    for it, out in pmap(work, items):
        ctx.merge(out)
    ctx.extra["explanation"] = (
        "hermitian_conjugated / is_hermitian / reverse_qubit_order run on operators with z3-symbolic coefficients; coefficient maps (equivalently the denoted matrices) are compared per Pauli string "
        "by z3 on every path. The conversions that go through scipy.sparse or text are compared numerically with the verifier's dense tensor-product oracle as ground instances."
    )


def replay(data):
    inp = data["inputs"]
    clause = inp["clause"]
    vals = inp.get("values") or {}
    p = {k: v for k, v in inp.items() if k not in ("clause", "values")}
    try:
        if clause in ("sparse", "expect", "matrix"):
            r = Result("replay")
            _w_ground(r, clause, dict(p, label="replay"))
            return bool(r.d["candidates"]), (r.d["candidates"][0]["what"] if r.d["candidates"] else "ok")
            if clause == "sparse":
                bad = sparse_bad(p["terms"], p["n"])
            elif clause == "expect":
                bad = expectation_bad(p["terms"], p["n"], p["seed"], p["reverse"])
            else:
                bad = matrix_roundtrip_bad(p["n"], p["seed"], p["mkind"])
            return bool(bad), bad or "ok"
        from orquestra.quantum.operators._openfermion_utils.operator_utils import hermitian_conjugated, is_hermitian
        from orquestra.quantum.operators._utils import reverse_qubit_order

        V = Vars()
        A = build_operand(p["A"], V, concrete=vals)
        cm = {k: complex(v) for k, v in PL.cmap_of(A).items()}

        def dist(a, b):
            return max([abs(complex(a.get(k, 0)) - complex(b.get(k, 0))) for k in set(a) | set(b)] or [0.0])

        if clause == "conjugate-denotes-adjoint":
            R = hermitian_conjugated(A)
            d = dist(PL.cmap_of(R), {k: v.conjugate() for k, v in _merge(A).items()})
            return d > 2e-8, f"distance {d:.3g}"
        if clause.startswith("hermitian-"):
            A2 = A.simplify() if p["A"][0] == "sum" else A
            r = bool(is_hermitian(A2))
            ims = [abs(complex(v).imag) for v in PL.cmap_of(A2).values()]
            if clause == "hermitian-true-only-if-real":
                return r and max(ims or [0]) >= 9e-4, f"is_hermitian={r}, max|Im|={max(ims or [0]):.3g}"
            return (not r) and max(ims or [0]) == 0.0, f"is_hermitian={r}, max|Im|={max(ims or [0]):.3g}"
        if clause.startswith("reverse"):
            n = p.get("n")
            width = max([q + 1 for k in cm for q, _ in k] or [0])
            if clause == "reverse-rejects-too-few-qubits":
                try:
                    reverse_qubit_order(A, n)
                    return True, "accepted"
                except ValueError:
                    return False, "rejected"
            nn = width if n is None else n
            R = reverse_qubit_order(A, n) if n is not None else reverse_qubit_order(A)
            want = {}
            for k, v in _merge(A).items():
                kk = frozenset((nn - 1 - q, l) for q, l in k)
                want[kk] = want.get(kk, 0) + v
            if clause == "reverse-once-is-bit-reversal":
                d = dist(PL.cmap_of(R), want)
                return d > 2e-8, f"distance {d:.3g}"
            R2 = reverse_qubit_order(R, nn)
            d = dist(PL.cmap_of(R2), _merge(A))
            return d > 4e-8, f"distance {d:.3g}"
        return False, "not reproduced"
    except Exception:
        import traceback

        return False, "replay raised: " + traceback.format_exc()[-600:]


def _merge(A):
    out = {}
    for t in A.terms:
        k = PL.key(t._ops)
        out[k] = out.get(k, 0) + complex(t.coefficient)
    return out
