"""C09 - operator-to-matrix conversions agree with the operator's definition.
E2 for hermitian_conjugated / is_hermitian / reverse_qubit_order (symbolic coefficients);
get_sparse_operator, get_pauliop_from_matrix and expectation run through scipy.sparse / text
formatting and are ground instances (numeric oracle), not decided by the solver."""
import itertools
import random

import numpy as np
import z3

from ..core import Result, pmap, stable_pick
from .. import symtrace as ST
from .. import pauli as PL
from .c03 import Vars, build_operand, _parts, _patched

LEVEL = "model_checking"
TOL = 4e-8


def _within(delta, tol):
    re, im = _parts(delta)
    t = z3.RealVal(str(tol))
    return z3.And(re <= t, re >= -t, im <= t, im >= -t)


def work(item):
    kind, p = item
    res = Result(f"{kind}|{p['label']}")
    from orquestra.quantum.operators import _utils as OU
    from orquestra.quantum.operators._openfermion_utils import operator_utils as OP, sparse_tools as SP

    try:  # evidence only: a renamed private helper must not break the check
        res.fn(OP.hermitian_conjugated, OP.is_hermitian, OU.reverse_qubit_order, SP.get_sparse_operator, SP.expectation, OU.get_expectation_value, OU.get_pauliop_from_matrix, OU.get_pauliop_from_coeffs_and_labels)
    except AttributeError:
        pass
    try:
        if kind in ("conj", "herm", "rev"):
            with _patched():
                {"conj": _w_conj, "herm": _w_herm, "rev": _w_rev}[kind](res, p)
        elif kind == "pexp":
            _w_pexp(res, p)
        elif kind == "sexp":
            _w_sexp(res, p)
        elif kind == "ssp":
            _w_ssp(res, p)
        else:
            _w_ground(res, kind, p)
    except ST.Inconclusive as e:
        res.ob(1)
        res.inconc(str(e))
    return res.as_dict()


def _run(res, p, V, fn, names_from=None):
    ex = ST.Explorer(base=[], timeout_ms=8000, logic="auto", max_paths=400)
    from .c03 import _LazyBase

    ex.base = _LazyBase(V)
    records = []
    outs = ex.run(lambda e: fn(e, records))
    res.d["paths"] += ex.npaths
    res.d["solver_queries"] += ex.queries
    res.d["solver_s"] += ex.solver_s
    res.nontrivial()
    for o in outs:
        if o[0] == "exc" and not isinstance(o[1], p.get("expect_exc", ())):
            res.ob(1)
            res.candidate("raises", f"{p['label']} raised {type(o[1]).__name__}: {str(o[1])[:120]}", dict(p, clause="raises", values={}), sub="raises")
    for clause, v, m in records:
        res.ob(1)
        if v == "holds":
            res.ob(0, 1, "A:z3")
        elif v == "violated":
            vals = {n: ST.model_value(m, z3.Real(n)) for n in V.names} if m is not None else {}
            res.candidate(clause, f"{p['label']}: {clause} fails", dict(p, clause=clause, values=vals), sub=clause)
        else:
            res.inconc("z3 unknown", clause)
    res.sample({kind_of(p): p["label"], "paths": ex.npaths})


def kind_of(p):
    return p.get("kind", "instance")


def _cm_close(ex, got, want, tol):
    claims = [_within(got.get(k, 0) - want.get(k, 0), tol) for k in sorted(set(got) | set(want), key=lambda kk: sorted(kk))]
    verdict, model = "holds", None
    for c in claims:
        v, m = ex.prove(c)
        if v == "violated":
            return v, m
        if v == "unknown":
            verdict = "unknown"
    return verdict, model


def _w_conj(res, p):
    from orquestra.quantum.operators._openfermion_utils.operator_utils import hermitian_conjugated

    V = Vars()

    def fn(ex, records):
        A = build_operand(p["A"], V)
        before = PL.cmap_of(A)
        snap = [(dict(t.operations), t.coefficient) for t in A.terms]
        R = hermitian_conjugated(A)
        records.append(("conjugate-denotes-adjoint",) + _cm_close(ex, PL.cmap_of(R), PL.cm_conj(before), TOL))
        now = [(dict(t.operations), t.coefficient) for t in A.terms]
        same = len(now) == len(snap) and all(a[0] == b[0] and a[1] is b[1] for a, b in zip(now, snap))
        records.append(("argument-unchanged",) + ex.prove(z3.BoolVal(bool(same))))
        return R

    _run(res, dict(p, kind="hermitian_conjugated"), V, fn)


def _w_herm(res, p):
    from orquestra.quantum.operators._openfermion_utils.operator_utils import is_hermitian

    V = Vars(pin=True)
    seen = set()

    def fn(ex, records):
        V.npin = 0
        V.cons = [c for c in V.cons if "pin" not in str(c)]
        A = build_operand(p["A"], V)
        A = A.simplify() if p["A"][0] == "sum" else A
        cm = PL.cmap_of(A)
        r = is_hermitian(A)
        r = bool(r)
        seen.add(r)
        ims = [_parts(v)[1] for v in cm.values()]
        if r:
            gap = z3.RealVal("1/1000")
            records.append(("hermitian-true-only-if-real",) + ex.prove(z3.And(*[z3.And(i < gap, i > -gap) for i in ims]) if ims else True))
        else:
            records.append(("hermitian-false-only-if-complex",) + ex.prove(z3.Or(*[i != 0 for i in ims]) if ims else False))
        return r

    _run(res, dict(p, kind="is_hermitian"), V, fn)
    res.d["vacuity_twins"] += 1
    if seen == {True, False} or p.get("one_sided"):
        res.d["vacuity_ok"] += 1
    else:
        res.herr(f"is_hermitian harness explored only {seen}")


def _w_rev(res, p):
    from orquestra.quantum.operators._utils import reverse_qubit_order

    V = Vars()
    n = p.get("n")

    def fn(ex, records):
        A = build_operand(p["A"], V)
        before = PL.cmap_of(A)
        width = max([q + 1 for k in before for q, _ in k] or [0])
        if n is not None and n < width:
            try:
                reverse_qubit_order(A, n)
                records.append(("reverse-rejects-too-few-qubits", "violated", None))
            except ValueError:
                records.append(("reverse-rejects-too-few-qubits", "holds", None))
            return None
        nn = width if n is None else n
        R = reverse_qubit_order(A, n) if n is not None else reverse_qubit_order(A)
        want = {}
        for k, v in before.items():
            kk = frozenset((nn - 1 - q, l) for q, l in k)
            want[kk] = want[kk] + v if kk in want else v
        records.append(("reverse-once-is-bit-reversal",) + _cm_close(ex, PL.cmap_of(R), want, TOL))
        R2 = reverse_qubit_order(R, nn)
        merged = {}
        for k, v in before.items():
            merged[k] = merged[k] + v if k in merged else v
        records.append(("reverse-twice-is-identity",) + _cm_close(ex, PL.cmap_of(R2), merged, 2 * TOL))
        after = PL.cmap_of(A)
        records.append(("argument-unchanged",) + ex.prove(z3.BoolVal(set(after) == set(before))))
        return R

    _run(res, dict(p, kind="reverse_qubit_order"), V, fn)



# ---------------------------------------------------------------------------
# symbolic Pauli expansion of a generic matrix, symbolic-state expectation


def _label_matrix(label, n):
    """verifier-side matrix of the Pauli string given as a label vector (0=I 1=X 2=Y 3=Z per qubit, qubit 0 leftmost)"""
    ops = {q: "IXYZ"[int(l)] for q, l in enumerate(label) if int(l) != 0}
    return PL.dense({PL.key(ops): 1.0}, n)


def _matrix_entries(p, V=None, concrete=None):
    """generic 2^n x 2^n matrix: every entry a symbolic complex number (or the replayed concrete values); 'hermitian'
    ties entry (j,i) to the conjugate of (i,j), 'real' has no imaginary parts"""
    N = 2 ** p["n"]
    M = [[None] * N for _ in range(N)]
    names = []
    for i in range(N):
        for j in range(N):
            if p["mkind"] == "hermitian" and j < i:
                continue
            nm = f"m{i}_{j}"
            if concrete is not None:
                re, im = concrete.get(nm + "_re", 0.0), concrete.get(nm + "_im", 0.0)
                v = complex(re, 0.0 if (p["mkind"] == "real" or (p["mkind"] == "hermitian" and i == j)) else im)
            else:
                if p["mkind"] == "real" or (p["mkind"] == "hermitian" and i == j):
                    v = ST.CV(ST.real_var(nm + "_re"), 0)
                    names.append(nm + "_re")
                else:
                    v = ST.complex_var(nm)
                    names += [nm + "_re", nm + "_im"]
            M[i][j] = v
            if p["mkind"] == "hermitian" and j > i:
                M[j][i] = v.conjugate()
    return M, names


def _w_pexp(res, p):
    """get_pauliop_from_matrix on a matrix of symbolic entries: the real expansion loop (decode / trace_product / dec2bin /
    bin2dec) runs on shadow values up to the hand-over to get_pauliop_from_coeffs_and_labels, which is intercepted (it
    formats coefficients into text); obligation: sum_i coeff_i * P(label_i) == M entry by entry, for ALL entries."""
    from orquestra.quantum.operators import _utils as OU

    n = p["n"]
    N = 2**n
    M, names = _matrix_entries(p)
    cap = {}

    def fake(coeffs, labels):
        cap["c"], cap["l"] = list(coeffs), [list(l) for l in labels]
        return None

    ex = ST.Explorer(base=[], timeout_ms=8000, logic="auto", max_paths=50)

    records = []

    def fn(e):
        cap.clear()
        import numpy

        with ST.patched((OU, "get_pauliop_from_coeffs_and_labels", fake), (OU, "np", ST.NpProxy(numpy)), (OU, "float", ST.float_shadow), (OU, "complex", ST.complex_shadow)):
            out = OU.get_pauliop_from_matrix(M)
        if "c" not in cap:
            records.append(("nocall", None, None))
            return out
        coeffs, labels = cap["c"], cap["l"]
        labs = [tuple(int(x) for x in l) for l in labels]
        if len(coeffs) != len(labels) or any(len(l) != n or any(x not in (0, 1, 2, 3) for x in l) for l in labs):
            records.append(("labels", None, None))
            return out
        mats = [_label_matrix(l, n) for l in labs]
        for r in range(N):
            for c in range(N):
                acc = 0
                for ci, Pm in zip(coeffs, mats):
                    x = Pm[r, c]
                    if x != 0:
                        acc = acc + ci * (x.real if x.imag == 0 else complex(x))
                d = ST.CV.lift(acc - M[r][c])
                dre, dim = ST.zr_real(d.re), ST.zr_real(d.im)
                big = z3.RealVal("1/1000")
                v, m = e.prove(z3.And(dre == 0, dim == 0), weak=z3.And(dre < big, -dre < big, dim < big, -dim < big))
                records.append((v, m, (r, c)))
        return out

    outs = ex.run(fn)
    res.d["paths"] += ex.npaths
    res.d["solver_queries"] += ex.queries
    res.d["solver_s"] += ex.solver_s
    res.nontrivial()
    res.d["cuts"].append("get_pauliop_from_matrix: the final call get_pauliop_from_coeffs_and_labels(coeffs, labels) is intercepted (text formatting of coefficients); that function is exercised on concrete coefficients by the ground instances")
    bad = None
    for o in outs:
        if o[0] == "exc":
            res.ob(1)
            res.inconc(f"expansion raised on symbolic entries: {type(o[1]).__name__}: {str(o[1])[:120]} (symbolic instance: not executable, no verdict)")
    for v, m, rc in records:
        res.ob(1)
        if v == "holds":
            res.ob(0, 1, "A:z3")
        elif v == "violated":
            if bad is None:
                bad = (rc[0], rc[1], {nm: ST.model_value(m, z3.Real(nm)) for nm in names})
        elif v == "labels":
            res.candidate("expansion-labels", f"{p['label']}: labels handed over are not {n}-qubit Pauli label vectors", dict(p, clause="expansion-labels", values={}), sub="expansion-labels")
        elif v == "nocall":
            res.inconc("expansion did not reach the hand-over to get_pauliop_from_coeffs_and_labels")
        else:
            res.inconc("z3 unknown", f"entry{rc}")
    if bad:
        res.candidate("expansion-reproduces-matrix", f"{p['label']}: sum of coeff*Pauli string differs from the matrix at entry [{bad[0]},{bad[1]}]", dict(p, clause="expansion-reproduces-matrix", values=bad[2]), sub="expansion-reproduces-matrix")
    res.sample({"pauli expansion": p["label"], "unknowns": len(names)})


class _DenseOp:
    """Stands in for the scipy.sparse matrix returned by the REAL get_sparse_operator on the concrete operator: only
    `operator * state` is offered, as the dense product (row and column vectors)."""

    def __init__(self, sp):
        self.M = np.asarray(sp.toarray())
        self.shape = self.M.shape

    def __mul__(self, state):
        col = getattr(state, "ndim", 1) == 2
        out = np.empty(self.M.shape[0], dtype=object)
        for i in range(self.M.shape[0]):
            acc = 0
            for j in range(self.M.shape[1]):
                m = self.M[i, j]
                if m != 0:
                    acc = acc + (m.real if m.imag == 0 else complex(m)) * (state[j, 0] if col else state[j])
            out[i] = acc
        return out.reshape(-1, 1) if col else out


def _w_sexp(res, p):
    """expectation / get_expectation_value on a state whose amplitudes are ALL symbolic complex numbers; the sparse matrix
    is the one the real get_sparse_operator builds for the concrete operator, only its mat-vec is the dense one."""
    from orquestra.quantum.operators import _utils as OU
    from orquestra.quantum.operators._openfermion_utils import sparse_tools as SP
    from orquestra.quantum import wavefunction as WF
    import numpy

    n = p["n"]
    N = 2**n
    amps = [ST.complex_var(f"a{i}") for i in range(N)]
    names = [f"a{i}_{s}" for i in range(N) for s in ("re", "im")]
    op = op_from(p["terms"])
    flags = p.get("flags") or [p["reverse"]]  # a history: the SAME operator object queried with these flags in turn

    def quad(reverse):
        cm = {k: complex(v) for k, v in _merge(op).items()}
        if reverse:
            cm = {frozenset((n - 1 - q, l) for q, l in k): c for k, c in cm.items()}
        Mop = PL.dense(cm, n)
        w = 0
        for i in range(N):
            for j in range(N):
                e = Mop[i, j]
                if e != 0:
                    w = w + amps[i].conjugate() * (e.real if e.imag == 0 else complex(e)) * amps[j]
        return ST.CV.lift(w)

    if p["mode"] == "rho":
        return _w_sexp_rho(res, p, op, n)
    wants = [quad(f) for f in flags]
    norm2 = sum((ST.zr_real(a.re) * ST.zr_real(a.re) + ST.zr_real(a.im) * ST.zr_real(a.im)) for a in amps)
    real_gso = SP.get_sparse_operator
    mode = p["mode"]
    ex = ST.Explorer(base=[norm2 == 1] if mode == "wf" else [], timeout_ms=10000, logic="auto", max_paths=50)
    stubs = "scipy.sparse mat-vec inside expectation(): the matrix returned by the REAL get_sparse_operator (concrete operator) is wrapped so that `operator * state` is the dense product"
    res.d["cuts"].append(stubs)

    def fn(e):
        if mode == "wf":
            with ST.patched((WF, "np", ST.NpProxy(numpy)), (WF, "float", ST.float_shadow), (WF, "complex", ST.complex_shadow), (OU, "get_sparse_operator", lambda *a, **k: _DenseOp(real_gso(*a, **k)))):
                wf = WF.Wavefunction(list(amps))
                return [OU.get_expectation_value(op, wf, reverse_operator=True) if f else OU.get_expectation_value(op, wf) for f in flags]
        st = np.empty(N, dtype=object)
        for i, a in enumerate(amps):
            st[i] = a
        if mode == "col":
            st = st.reshape(-1, 1)
        return [SP.expectation(_DenseOp(real_gso(op, n)), st)]

    records = []

    def fn2(e):
        gots = fn(e)
        for got, want in zip(gots, wants):
            try:
                d = ST.CV.lift(got - want)
            except Exception as err:
                records.append(("type", f"result of type {type(got).__name__} is not a symbolic scalar: {err}", None))
                continue
            claim = z3.And(ST.zr_real(d.re) == 0, ST.zr_real(d.im) == 0)
            records.append(e.prove(claim))
        return gots

    outs = ex.run(fn2)
    res.d["paths"] += ex.npaths
    res.nontrivial()
    okpaths = 0
    for o in outs:
        if o[0] == "exc":
            res.ob(1)
            if mode == "wf" and isinstance(o[1], ValueError):
                res.candidate("expectation-raises", f"{p['label']}: raised {type(o[1]).__name__}: {str(o[1])[:100]} on a normalised state", dict(p, clause="expectation-raises", values={}), sub="raises")
            else:
                res.inconc(f"the library raised {type(o[1]).__name__}: {str(o[1])[:120]} (symbolic instance: not executable, no verdict)")
        else:
            okpaths += 1
    for rec in records:
        res.ob(1)
        v, m = rec[0], rec[1]
        if v == "holds":
            res.ob(0, 1, "A:z3")
        elif v == "violated":
            vals = {nm: ST.model_value(m, z3.Real(nm)) for nm in names}
            res.candidate("expectation-is-quadratic-form", f"{p['label']}: value differs from <psi|M|psi> with M the tensor-product matrix", dict(p, clause="expectation-is-quadratic-form", values=vals), sub="expectation-is-quadratic-form")
        elif v == "type":
            res.inconc(m if m else rec[1])
        else:
            res.inconc("z3 unknown", "expectation-is-quadratic-form")
    res.d["solver_queries"] += ex.queries
    res.d["solver_s"] += ex.solver_s
    if okpaths == 0:
        res.inconc("no accepting path")
    res.sample({"symbolic-state expectation": p["label"], "paths": ex.npaths})


def _w_sexp_rho(res, p, op, n):
    """expectation(operator, state) with the state a sparse DENSITY MATRIX all of whose entries are symbolic complex numbers
    (tr(rho*M) is linear in rho, so the identity is asserted for every matrix rho, Hermitian or not). rho is carried as
    sum_ij r_ij * E_ij with E_ij REAL scipy unit matrices; products, elementwise products, diagonals, sums and transposes
    are executed by the real scipy on the E_ij and the REAL operator matrix."""
    from orquestra.quantum.operators._openfermion_utils import sparse_tools as SP
    import scipy.sparse as sps

    N = 2**n
    r = [[ST.complex_var(f"r{i}_{j}") for j in range(N)] for i in range(N)]
    names = [f"r{i}_{j}_{s}" for i in range(N) for j in range(N) for s in ("re", "im")]
    Mop = PL.dense({k: complex(v) for k, v in _merge(op).items()}, n)
    want = 0
    for i in range(N):
        for j in range(N):
            e = Mop[j, i]
            if e != 0:
                want = want + r[i][j] * (e.real if e.imag == 0 else complex(e))  # tr(rho M) = sum_ij rho_ij M_ji
    want = ST.CV.lift(want)

    class _SymRho(_LinSp, sps.spmatrix):
        shape = (N, N)  # plain attribute: hides spmatrix's shape property (whose setter reshapes)
        format = "csc"

    parts = [(r[i][j], sps.coo_matrix(([1.0], ([i], [j])), shape=(N, N)).tocsc()) for i in range(N) for j in range(N)]
    res.d["cuts"].append("sparse density matrix: sum_ij r_ij*E_ij over real scipy unit matrices (an instance of scipy.sparse.spmatrix); the operator is the matrix the REAL get_sparse_operator returns")
    ex = ST.Explorer(base=[], timeout_ms=10000, logic="auto", max_paths=20)
    records = []

    def fn(e):
        got = SP.expectation(SP.get_sparse_operator(op, n), _SymRho(list(parts), (N, N)))
        try:
            d = ST.CV.lift(got - want)
        except Exception as err:
            records.append(("type", f"result of type {type(got).__name__} is not a symbolic scalar: {err}", None))
            return got
        records.append(e.prove(z3.And(ST.zr_real(d.re) == 0, ST.zr_real(d.im) == 0)))
        return got

    outs = ex.run(fn)
    res.d["paths"] += ex.npaths
    res.nontrivial()
    for o in outs:
        if o[0] == "exc":
            res.ob(1)
            res.inconc(f"the library raised {type(o[1]).__name__}: {str(o[1])[:120]} (symbolic instance: not executable, no verdict)")
    for rec in records:
        res.ob(1)
        if rec[0] == "holds":
            res.ob(0, 1, "A:z3")
        elif rec[0] == "violated":
            vals = {nm: ST.model_value(rec[1], z3.Real(nm)) for nm in names}
            res.candidate("expectation-is-trace-with-density-matrix", f"{p['label']}: value differs from tr(rho*M) with M the tensor-product matrix", dict(p, clause="expectation-is-trace-with-density-matrix", values=vals), sub="expectation-is-trace-with-density-matrix")
        elif rec[0] == "type":
            res.inconc(rec[1])
        else:
            res.inconc("z3 unknown", "expectation-is-trace-with-density-matrix")
    res.d["solver_queries"] += ex.queries
    res.d["solver_s"] += ex.solver_s
    res.sample({"symbolic density matrix expectation": p["label"], "paths": ex.npaths})


# ---------------------------------------------------------------------------
# get_sparse_operator with symbolic coefficients: a sparse matrix whose values depend on unknown coefficients is carried
# as a LINEAR COMBINATION  sum_k v_k * S_k  of REAL scipy.sparse matrices S_k with symbolic scalars v_k.  Every structural
# operation (kron, identity, nonzero, coo assembly, format conversion) is executed by the real scipy on the S_k - the index
# conventions are scipy's own, not a model of them; only "scalar times matrix" is carried symbolically.


class _Scaled:
    """a data vector  coef * arr  (arr a real numpy array)"""

    def __init__(self, coef, arr):
        self.coef, self.arr = coef, arr

    def __len__(self):
        return len(self.arr)


class _ScaledCat:
    def __init__(self, segs):
        self.segs = segs

    def __len__(self):
        return sum(len(s) for s in self.segs)


class _LinSp:
    def __init__(self, parts, shape):
        self.parts, self.shape = parts, tuple(shape)

    def _one(self, what):
        if len(self.parts) != 1:
            raise ST.Inconclusive(f"{what} of a symbolic sparse matrix with {len(self.parts)} symbolic parts is not modelled")
        return self.parts[0]

    def _map(self, f):
        return _LinSp([(v, f(S)) for v, S in self.parts], self.shape)

    def tocoo(self, copy=False):
        return _LinSp([(v, S.tocoo(copy=copy)) for v, S in self.parts], self.shape)

    def tocsc(self, copy=False):
        return _LinSp([(v, S.tocsc(copy=copy)) for v, S in self.parts], self.shape)

    def tocsr(self, copy=False):
        return _LinSp([(v, S.tocsr(copy=copy)) for v, S in self.parts], self.shape)

    def asformat(self, fmt, copy=False):
        return _LinSp([(v, S.asformat(fmt)) for v, S in self.parts], self.shape)

    def copy(self):
        return self._map(lambda S: S.copy())

    @property
    def data(self):
        v, S = self._one("data")
        return _Scaled(v, S.data)

    @property
    def row(self):
        return self._one("row")[1].row

    @property
    def col(self):
        return self._one("col")[1].col

    @property
    def nnz(self):
        return self._one("nnz")[1].nnz

    @property
    def dtype(self):
        return np.dtype(complex)

    def nonzero(self):
        return self._one("nonzero()")[1].nonzero()

    def eliminate_zeros(self):
        for _, S in self.parts:
            if hasattr(S, "eliminate_zeros"):
                S.eliminate_zeros()

    def sum_duplicates(self):
        for _, S in self.parts:
            if hasattr(S, "sum_duplicates"):
                S.sum_duplicates()

    def transpose(self, *a, **k):
        return _LinSp([(v, S.transpose()) for v, S in self.parts], self.shape[::-1])

    T = property(transpose)

    def conj(self):
        return _LinSp([(ST.CV.lift(v).conjugate(), S.conj()) for v, S in self.parts], self.shape)

    conjugate = conj

    def getH(self):
        return self.conj().transpose()

    def __mul__(self, o):
        if ST.is_sym(o) or isinstance(o, (int, float, complex)):
            return _LinSp([(v * o, S) for v, S in self.parts], self.shape)
        if hasattr(o, "tocsc") and not isinstance(o, _LinSp):
            # symbolic combination times a REAL scipy matrix: scipy multiplies every part
            return _LinSp([(v, S * o) for v, S in self.parts], (self.shape[0], o.shape[1]))
        raise ST.Inconclusive("product of a symbolic sparse matrix with an unmodelled operand")

    def __rmul__(self, o):
        if ST.is_sym(o) or isinstance(o, (int, float, complex)):
            return _LinSp([(v * o, S) for v, S in self.parts], self.shape)
        if hasattr(o, "tocsc") and not isinstance(o, _LinSp):
            return _LinSp([(v, o * S) for v, S in self.parts], (o.shape[0], self.shape[1]))
        raise ST.Inconclusive("product of an unmodelled operand with a symbolic sparse matrix")

    __matmul__, __rmatmul__ = __mul__, __rmul__

    def dot(self, o):
        return self.__mul__(o)

    def multiply(self, o):
        if hasattr(o, "tocsc") and not isinstance(o, _LinSp):
            return _LinSp([(v, S.multiply(o)) for v, S in self.parts], self.shape)
        if ST.is_sym(o) or isinstance(o, (int, float, complex)):
            return self.__mul__(o)
        raise ST.Inconclusive("elementwise product of a symbolic sparse matrix with an unmodelled operand")

    def _lin(self, f, zero):
        tot = zero
        for v, S in self.parts:
            x = f(S)
            tot = tot + v * (np.asarray(x).astype(object) if isinstance(x, (np.ndarray, np.matrix)) else (x.real if complex(x).imag == 0 else complex(x)))
        return tot

    def diagonal(self, k=0):
        return self._lin(lambda S: np.asarray(S.diagonal(k)).reshape(-1), np.zeros(min(self.shape) - abs(k), dtype=object))

    def sum(self, axis=None):
        if axis is not None:
            raise ST.Inconclusive("axis-wise sum of a symbolic sparse matrix is not modelled")
        return self._lin(lambda S: S.sum(), 0)

    def trace(self, offset=0):
        return self._lin(lambda S: S.diagonal(offset).sum(), 0)

    def toarray(self, *a, **k):
        return self.dense_obj()

    todense = toarray

    def __neg__(self):
        return _LinSp([(-v, S) for v, S in self.parts], self.shape)

    def __add__(self, o):
        if isinstance(o, _LinSp):
            return _LinSp(self.parts + o.parts, self.shape)
        if isinstance(o, (int, float)) and o == 0:
            return self
        if hasattr(o, "tocsc"):
            return _LinSp(self.parts + [(1.0, o)], self.shape)
        raise ST.Inconclusive("sum of a symbolic sparse matrix with an unmodelled operand")

    __radd__ = __add__

    def __sub__(self, o):
        return self + (-o if isinstance(o, _LinSp) else o * -1.0)

    def dense_obj(self):
        M = np.empty(self.shape, dtype=object)
        for i in range(self.shape[0]):
            for j in range(self.shape[1]):
                M[i, j] = 0
        for v, S in self.parts:
            A = np.asarray(S.toarray())
            for i, j in zip(*np.nonzero(A)):
                e = complex(A[i, j])
                M[i, j] = M[i, j] + v * (e.real if e.imag == 0 else e)
        return M


class _SparseNS:
    def __init__(self, real):
        self._r = real

    def __getattr__(self, name):
        return getattr(self._r, name)

    def kron(self, a, b, format=None):
        sa, sb = ST.is_sym(a), ST.is_sym(b)
        if sa or sb:
            s, m, left = (a, b, True) if sa else (b, a, False)
            if isinstance(m, _LinSp):
                return m * s
            if bool(s == 0):  # forked: on this path the coefficient is exactly zero, scipy sees a plain 0
                return self._r.kron(0.0, m, format) if left else self._r.kron(m, 0.0, format)
            return _LinSp([(s, self._r.kron(1.0, m, format) if left else self._r.kron(m, 1.0, format))], self._r.kron(1.0, m, format).shape)
        if isinstance(a, _LinSp) and isinstance(b, _LinSp):
            parts = [(v * w, self._r.kron(S, T, format)) for v, S in a.parts for w, T in b.parts]
            return _LinSp(parts, parts[0][1].shape)
        if isinstance(a, _LinSp):
            parts = [(v, self._r.kron(S, b, format)) for v, S in a.parts]
            return _LinSp(parts, parts[0][1].shape)
        if isinstance(b, _LinSp):
            parts = [(w, self._r.kron(a, T, format)) for w, T in b.parts]
            return _LinSp(parts, parts[0][1].shape)
        return self._r.kron(a, b, format)

    def _assemble(self, cls, arg, shape, kw):
        vals, (rows, cols) = arg
        segs = vals.segs if isinstance(vals, _ScaledCat) else [vals]
        parts, at = [], 0
        rows, cols = np.asarray(rows), np.asarray(cols)
        for sg in segs:
            k = len(sg)
            kw2 = {x: y for x, y in kw.items() if x != "dtype"}
            parts.append((sg.coef, cls((sg.arr, (rows[at:at + k], cols[at:at + k])), shape=shape, **kw2)))
            at += k
        if at != len(rows) or at != len(cols):
            raise ValueError("row, column, and data arrays must be 1-D and of the same length")  # what scipy says
        return _LinSp(parts, parts[0][1].shape if parts else shape)

    def _ctor(self, name):
        cls = getattr(self._r, name)

        def make(arg, *a, shape=None, **kw):
            if isinstance(arg, tuple) and len(arg) == 2 and isinstance(arg[0], (_Scaled, _ScaledCat)):
                return self._assemble(cls, arg, shape if shape is not None else (a[0] if a else None), kw)
            if isinstance(arg, _LinSp):
                return arg.asformat(name[:3])
            return cls(arg, *a, **({"shape": shape} if shape is not None else {}), **kw)

        return make

    @property
    def coo_matrix(self):
        return self._ctor("coo_matrix")

    @property
    def csc_matrix(self):
        return self._ctor("csc_matrix")

    @property
    def csr_matrix(self):
        return self._ctor("csr_matrix")

    @property
    def coo_array(self):
        return self._ctor("coo_array")

    @property
    def csc_array(self):
        return self._ctor("csc_array")


class _ScipyProxy:
    def __init__(self, real):
        self._r = real
        self.sparse = _SparseNS(real.sparse)

    def __getattr__(self, name):
        return getattr(self._r, name)


class _NumpyCat:
    """numpy with `concatenate` / `hstack` that keep scaled data vectors apart (segment k belongs to coefficient k)"""

    def __init__(self, real):
        self._r = real

    def __getattr__(self, name):
        return getattr(self._r, name)

    def concatenate(self, seq, *a, **k):
        seq = list(seq)
        if any(isinstance(x, (_Scaled, _ScaledCat)) for x in seq):
            segs = []
            for x in seq:
                if isinstance(x, _ScaledCat):
                    segs += x.segs
                elif isinstance(x, _Scaled):
                    segs.append(x)
                else:
                    segs.append(_Scaled(1.0, self._r.asarray(x)))
            return _ScaledCat(segs)
        return self._r.concatenate(seq, *a, **k)

    hstack = concatenate


def _w_ssp(res, p):
    """get_sparse_operator on operators whose coefficients are ALL symbolic complex numbers."""
    import numpy
    import scipy
    from orquestra.quantum.operators._openfermion_utils import sparse_tools as SP

    V = Vars()
    n = p["n"]
    res.d["cuts"].append("scipy.sparse inside get_sparse_operator: matrices that depend on a symbolic coefficient are carried as coefficient x REAL scipy matrix; kron / identity / nonzero / coo assembly / format conversion run in the real scipy; a coefficient that is exactly 0 is a forked path on which scipy receives the number 0")

    def fn(ex, records):
        A = build_operand(p["A"], V)
        cm = PL.cmap_of(A)
        width = A.n_qubits
        nn = width if n is None else n
        with ST.patched((SP, "scipy", _ScipyProxy(scipy)), (SP, "numpy", _NumpyCat(numpy))):
            M = SP.get_sparse_operator(A, n) if n is not None else SP.get_sparse_operator(A)
        N = 2**nn
        if tuple(M.shape) != (N, N):
            records.append(("sparse-shape", "violated", None))
            return M
        got = M.dense_obj() if isinstance(M, _LinSp) else np.asarray(M.toarray()).astype(object)
        want = np.empty((N, N), dtype=object)
        for i in range(N):
            for j in range(N):
                want[i, j] = 0
        for k, c in cm.items():
            P = PL.dense({k: 1.0}, nn)
            for i, j in zip(*np.nonzero(P)):
                e = complex(P[i, j])
                want[i, j] = want[i, j] + c * (e.real if e.imag == 0 else e)
        claims = []
        for i in range(N):
            for j in range(N):
                d = got[i, j] - want[i, j]
                if ST.is_sym(d):
                    claims.append(_within(ST.CV.lift(d), 1e-9))
                elif abs(complex(d)) > 1e-9:
                    claims.append(z3.BoolVal(False))
        records.append(("sparse-matrix-is-tensor-product-definition",) + ex.prove(z3.And(*claims) if claims else z3.BoolVal(True)))
        return M

    with _patched():
        _run(res, dict(p, kind="get_sparse_operator (symbolic coefficients)", expect_exc=()), V, fn)

# ---------------------------------------------------------------------------
# ground instances


def op_from(terms):
    from orquestra.quantum.operators import PauliTerm, PauliSum

    ts = [PauliTerm({int(q): l for q, l in ops.items()}, complex(*c) if isinstance(c, list) else c) for ops, c in terms]
    return ts[0] if len(ts) == 1 else PauliSum(ts)


def sparse_bad(terms, n):
    from orquestra.quantum.operators._openfermion_utils.sparse_tools import get_sparse_operator

    op = op_from(terms)
    from orquestra.quantum.operators import PauliSum

    if not terms:
        op = PauliSum()
    M = get_sparse_operator(op, n) if n is not None else get_sparse_operator(op)
    width = op.n_qubits
    nn = width if n is None else n
    want = PL.dense(PL.cmap_of(op), nn) if terms else np.zeros((2**nn, 2**nn))
    got = np.asarray(M.todense())
    if got.shape != want.shape:
        return f"shape {got.shape} vs {want.shape}"
    d = np.abs(got - want).max() if got.size else 0.0
    return None if d < 1e-12 else f"sparse matrix differs from the tensor-product definition by {d:.3g}"


def expectation_bad(terms, n, seed, reverse):
    from orquestra.quantum.operators import get_expectation_value
    from orquestra.quantum.operators._openfermion_utils.sparse_tools import expectation, get_sparse_operator
    from orquestra.quantum.wavefunction import Wavefunction

    rng = np.random.default_rng(seed)
    v = rng.normal(size=2**n) + 1j * rng.normal(size=2**n)
    v = v / np.linalg.norm(v)
    op = op_from(terms)
    cm = PL.cmap_of(op)
    if reverse:
        cm = {frozenset((n - 1 - q, l) for q, l in k): c for k, c in cm.items()}
    Mop = PL.dense(cm, n)
    want = v.conj() @ Mop @ v
    got = get_expectation_value(op, Wavefunction(v), reverse_operator=reverse)
    if abs(got - want) > 1e-10:
        return f"get_expectation_value {got} vs quadratic form {want}"
    if not reverse:
        sp = get_sparse_operator(op, n)
        g1 = expectation(sp, v)
        g2 = expectation(sp, v.reshape(-1, 1))
        if abs(g1 - want) > 1e-10 or abs(g2 - want) > 1e-10:
            return f"expectation {g1}, {g2} vs quadratic form {want}"
    return None


def matrix_roundtrip_bad(n, seed, kind):
    from orquestra.quantum.operators._utils import get_pauliop_from_matrix

    rng = np.random.default_rng(seed)
    N = 2**n
    if kind == "real":
        M = np.round(rng.normal(size=(N, N)), 3)
    elif kind == "complex":
        M = np.round(rng.normal(size=(N, N)), 3) + 1j * np.round(rng.normal(size=(N, N)), 3)
    elif kind == "hermitian":
        A = rng.normal(size=(N, N)) + 1j * rng.normal(size=(N, N))
        M = np.round(A + A.conj().T, 3)
    elif kind in ("int", "npint"):
        M = rng.integers(-3, 4, size=(N, N))
        op = get_pauliop_from_matrix(M.tolist() if kind == "int" else M)
        back = PL.dense(PL.cmap_of(op), n)
        d = np.abs(back - M).max()
        return None if d < 1e-7 else f"Pauli expansion of a {N}x{N} matrix of {'Python ints' if kind == 'int' else 'numpy ints'} converts back with error {d:.3g}"
    elif kind == "sparse":
        M = np.zeros((N, N), dtype=complex)
        M[0, N - 1] = 1.5
        M[N - 1, 0] = -2j
        M[1 % N, 1 % N] = 0.25
    else:
        M = np.eye(N) * 2.0
    op = get_pauliop_from_matrix(M.tolist())
    back = PL.dense(PL.cmap_of(op), n)
    d = np.abs(back - M).max()
    return None if d < 1e-7 else f"Pauli expansion of a {N}x{N} {kind} matrix converts back with error {d:.3g}"


def labels_bad(coeffs, labels):
    from orquestra.quantum.operators._utils import get_pauliop_from_coeffs_and_labels

    cs = [complex(*c) if isinstance(c, list) else c for c in coeffs]
    op = get_pauliop_from_coeffs_and_labels(cs, labels)
    n = len(labels[0]) if labels else 1
    want = np.zeros((2**n, 2**n), dtype=complex)
    for c, l in zip(cs, labels):
        want = want + complex(c) * _label_matrix(l, n)
    got = PL.dense(PL.cmap_of(op), n)
    d = np.abs(got - want).max()
    return None if d < 1e-12 else f"operator built from coefficient and label vectors differs from sum coeff*string by {d:.3g}"


def _w_ground(res, kind, p):
    res.d["ground_instances"] += 1
    res.d["instances"] -= 1
    res.ob(1)
    try:
        if kind == "sparse":
            bad = sparse_bad(p["terms"], p["n"])
        elif kind == "expect":
            bad = expectation_bad(p["terms"], p["n"], p["seed"], p["reverse"])
        elif kind == "labels":
            bad = labels_bad(p["coeffs"], p["labels"])
        else:
            bad = matrix_roundtrip_bad(p["n"], p["seed"], p["mkind"])
    except Exception as e:
        import traceback

        bad = f"raised {type(e).__name__}: {e} | {traceback.format_exc()[-200:]}"
    if bad:
        res.candidate(kind, f"{p['label']}: {bad}", dict(p, clause=kind, values={}), sub=kind)
    else:
        res.ob(0, 1, "ground-numeric")


def _ops(d):
    return {str(q): l for q, l in d.items()}


def instances(tier, seed):
    rng = random.Random(seed * 3 + 8)
    items = []
    S = {
        "term-c": ["term", _ops({0: "X", 2: "Y"}), "c0"],
        "term-const": ["term", {}, "c0"],
        "sum2": ["sum", [[_ops({0: "X"}), "c0"], [_ops({0: "Y", 1: "Z"}), "c1"]]],
        "sum3-gap": ["sum", [[_ops({0: "Z", 3: "Z"}), "c0"], [_ops({1: "Y"}), "c1"], [{}, "c2"]]],
        "dup": ["sum", [[_ops({1: "X"}), "c0"], [_ops({1: "X"}), "c1"]]],
        "widths": ["sum", [[_ops({0: "Z"}), "c0"], [_ops({1: "Z"}), 2.0], [_ops({0: "Z", 1: "Z"}), "c1"]]],
        "widths2": ["sum", [[_ops({3: "Y"}), "c0"], [_ops({0: "X", 1: "Z"}), "c1"]]],
        "empty": ["sum", []],
        "mixed-real": ["sum", [[_ops({0: "X"}), "r0"], [_ops({1: "Y"}), [0.0, 0.5]]]],
    }
    for name, A in S.items():
        items.append(("conj", {"A": A, "label": f"hermitian_conjugated({name})"}))
        items.append(("herm", {"A": A, "one_sided": name in ("empty", "mixed-real"), "label": f"is_hermitian({name})"}))
        width = max([int(q) + 1 for t in (A[1] if A[0] == "sum" else [[A[1]]]) for q in (t[0] if A[0] == "sum" else A[1])] or [0])
        for n in [None, width, width + 1, width + 2] + ([width - 1] if width > 1 else []):
            items.append(("rev", {"A": A, "n": n, "label": f"reverse_qubit_order({name}, n={n})"}))
        for n in [None, width, width + 1] + ([width + 2] if tier == "thorough" or width <= 2 else []):
            if n == 0 or (width + (0 if n is None else n - width)) > 5:
                continue
            items.append(("ssp", {"A": A, "n": n, "label": f"get_sparse_operator({name}, n={n}) with symbolic coefficients"}))
    # ground: sparse operator vs dense tensor-product oracle
    strings = PL.all_strings(3)
    for s in strings:
        width = max(list(s) + [-1]) + 1
        for n in (None, width, width + 1, width + 2):
            if n == 0 or (n is None and not s):
                continue
            if tier == "quick" and not stable_pick((str(s), n), 3, seed) and len(s) < 3:
                continue
            items.append(("sparse", {"terms": [[_ops(s), [0.5, -1.25]]], "n": n, "label": f"sparse {s} n={n}"}))
    for terms, ns in [
        ([[_ops({0: "X", 4: "Y"}), 2.0], [_ops({2: "Z"}), [0, 1.0]], [{}, -0.5]], (None, 5, 6)),
        ([[{}, 1.5]], (1, 2, 3)),
        ([], (1, 2)),
        ([[_ops({1: "Y"}), 1.0], [_ops({1: "Y"}), -1.0]], (2, 3)),
        ([[_ops({0: "Z"}), 1.0], [_ops({1: "Z"}), 2.0], [_ops({0: "Z", 1: "Z"}), 0.5]], (None, 2, 4)),
    ]:
        for n in ns:
            items.append(("sparse", {"terms": terms, "n": n, "label": f"sparse sum {terms} n={n}"}))
    for terms, n in [
        ([[_ops({0: "X", 1: "Z"}), [0.0, 1.0]]], 2),
        ([[_ops({0: "X"}), 1.0], [_ops({0: "Y"}), [0.0, 1.0]]], 1),
        ([[_ops({0: "Z", 2: "Y"}), 0.7], [_ops({1: "X"}), [0.3, -0.4]], [{}, 1.0]], 3),
        ([[_ops({1: "Z"}), 2.0]], 3),
    ]:
        for reverse in (False, True):
            for k in range(2 if tier == "quick" else 6):
                items.append(("expect", {"terms": terms, "n": n, "seed": rng.randrange(10**6), "reverse": reverse, "label": f"expectation {terms} n={n} reverse={reverse} #{k}"}))
    # symbolic: Pauli expansion of a generic matrix (every entry a pair of real unknowns)
    for n, mk in [(1, "complex"), (1, "hermitian"), (1, "real"), (2, "complex"), (2, "hermitian")] + ([(2, "real"), (3, "real")] if tier == "thorough" else []):
        items.append(("pexp", {"n": n, "mkind": mk, "label": f"pauli expansion of a generic {mk} {2**n}x{2**n} matrix"}))
    # symbolic: expectation on a state whose amplitudes are all symbolic
    sx_ops = [
        ([[_ops({0: "Z"}), 1.0]], 2),
        ([[_ops({1: "Z"}), 2.0]], 2),
        ([[_ops({0: "X", 1: "Z"}), [0.0, 1.0]]], 2),
        ([[_ops({0: "Y"}), 1.0], [_ops({1: "X"}), [0.5, -0.25]], [{}, 1.0]], 2),
        ([[_ops({0: "Y"}), 1.0]], 1),
    ]
    if tier == "thorough":
        sx_ops += [([[_ops({0: "Z", 2: "Y"}), 0.75], [_ops({1: "X"}), [0.25, -0.5]], [{}, 1.0]], 3), ([[_ops({2: "Z"}), 1.0]], 3), ([[_ops({0: "X", 1: "Y", 2: "Z"}), 1.0]], 3)]
    for terms, n in sx_ops:
        for mode, reverse in (("row", False), ("col", False), ("wf", False), ("wf", True)):
            if n == 3 and mode == "col":
                continue
            items.append(("sexp", {"terms": terms, "n": n, "mode": mode, "reverse": reverse, "label": f"symbolic-state expectation {terms} n={n} mode={mode} reverse={reverse}"}))
    # ... and on a sparse density matrix all of whose entries are symbolic (operators with odd numbers of Y are not symmetric)
    for terms, n in [([[_ops({0: "Y"}), 1.0]], 1), ([[_ops({0: "Y"}), 1.0], [_ops({1: "X"}), [0.5, -0.25]], [{}, 1.0]], 2), ([[_ops({0: "X", 1: "Y"}), [0.0, 1.0]], [_ops({1: "Z"}), 2.0]], 2)] + ([([[_ops({0: "Z", 2: "Y"}), 0.75], [_ops({1: "X"}), [0.25, -0.5]]], 3)] if tier == "thorough" else []):
        items.append(("sexp", {"terms": terms, "n": n, "mode": "rho", "reverse": False, "label": f"symbolic density-matrix expectation {terms} n={n}"}))
    for terms, n in [([[_ops({0: "Z"}), 1.0]], 2), ([[_ops({0: "X", 1: "Z"}), [0.0, 1.0]], [_ops({1: "Y"}), 0.5]], 2)] + ([([[_ops({0: "Z"}), 1.0]], 3)] if tier == "thorough" else []):
        for flags in ([False, True], [True, False], [False, False, True]):
            items.append(("sexp", {"terms": terms, "n": n, "mode": "wf", "reverse": False, "flags": flags, "label": f"symbolic-state expectation, one operator object queried with reverse flags {flags}: {terms} n={n}"}))
    # ground: coefficient/label vectors -> operator
    for k, (coeffs, labels) in enumerate([
        ([0.1, -0.4], [[1, 1, 0, 0], [2, 2, 3, 3]]),
        ([1.5, [0.0, 2.0], -0.25, [1.0, -1.0]], [[0, 0], [0, 3], [2, 0], [1, 2]]),
        ([2.0, 3.0], [[0, 1, 0], [0, 1, 0]]),
        ([1e-7, -1e5], [[3], [1]]),
        ([], []),
    ]):
        items.append(("labels", {"coeffs": coeffs, "labels": labels, "label": f"coeffs+labels #{k} {coeffs} {labels}"}))
    for n in (1, 2, 3):
        for mk in ("real", "complex", "hermitian", "sparse", "identity", "int", "npint"):
            for k in range(1 if tier == "quick" or n == 3 else 4):
                items.append(("matrix", {"n": n, "seed": rng.randrange(10**6), "mkind": mk, "label": f"matrix round trip n={n} {mk} #{k}"}))
    return items


def run(ctx):
    items = instances(ctx.tier, ctx.seed)
    if getattr(ctx, "only", None):
        items = [it for it in items if ctx.only in it[1]["label"] or ctx.only == it[0]]
    ctx.bounds = {
        "symbolic": "9 operators (terms with gaps, constants, duplicates, terms of different widths, the empty sum) with symbolic complex coefficients (|parts| <= 4); reverse_qubit_order with n in {default, width, width+1, width+2, width-1}",
        "ground": "get_sparse_operator for all Pauli strings on <= 3 qubits with identity padding n in {default, w, w+1, w+2} and 5 sums incl. the zero operator; expectation for 4 operators (non-Hermitian too) on random states; Pauli expansion round trips of 2x2..8x8 matrices",
    }
    ctx.assume(
        "exact-real floats for the symbolic part",
        "NOT decided by the solver (ground instances only): get_sparse_operator (scipy.sparse needs numeric dtypes; its matrix is compared with the dense tensor-product oracle on concrete operators), the text hand-over inside get_pauliop_from_coeffs_and_labels (coefficients travel through f-strings and complex(str))",
        "symbolic-state expectation: the sparse matrix is the one the REAL get_sparse_operator returns for the concrete operator; only its mat-vec is replaced by the dense product (scipy's kernels take numeric dtypes only)",
        "symbolic Pauli expansion: get_pauliop_from_matrix runs on symbolic entries up to its final call, which is intercepted",
    )
    for it, out in pmap(work, items):
        ctx.merge(out)
    ctx.extra["explanation"] = (
        "hermitian_conjugated / is_hermitian / reverse_qubit_order run on operators with z3-symbolic coefficients; coefficient maps (equivalently the denoted matrices) are compared per Pauli string "
        "by z3 on every path. The conversions that go through scipy.sparse or text are compared numerically with the verifier's dense tensor-product oracle as ground instances."
    )


def replay(data):
    inp = data["inputs"]
    clause = inp["clause"]
    vals = inp.get("values") or {}
    p = {k: v for k, v in inp.items() if k not in ("clause", "values")}
    try:
        if clause == "expansion-reproduces-matrix":
            from orquestra.quantum.operators._utils import get_pauliop_from_matrix

            M, _ = _matrix_entries(p, concrete=vals)
            op = get_pauliop_from_matrix(M)
            back = PL.dense(PL.cmap_of(op), p["n"])
            d = float(np.abs(back - np.array(M, dtype=complex)).max())
            return d > 1e-7 * max(1.0, float(np.abs(np.array(M, dtype=complex)).max())), f"Pauli expansion converts back with error {d:.3g}"
        if clause == "expansion-labels":
            return False, "structural (labels) - not replayed numerically"
        if clause == "expectation-is-trace-with-density-matrix":
            import scipy.sparse as sps
            from orquestra.quantum.operators._openfermion_utils.sparse_tools import expectation, get_sparse_operator

            n = p["n"]
            N = 2**n
            rho = np.array([[complex(vals.get(f"r{i}_{j}_re", 0.0), vals.get(f"r{i}_{j}_im", 0.0)) for j in range(N)] for i in range(N)])
            op = op_from(p["terms"])
            want = np.trace(rho @ PL.dense({k: complex(c) for k, c in _merge(op).items()}, n))
            worst, detail = 0.0, ""
            for fmt in ("csc", "csr", "coo"):
                got = expectation(get_sparse_operator(op, n), sps.coo_matrix(rho).asformat(fmt))
                d = abs(complex(got) - want)
                if d > worst:
                    worst, detail = d, f"{fmt} density matrix: value {got} vs tr(rho*M) {want}"
            return worst > 1e-9 * max(1.0, abs(want)), detail or "ok"
        if clause in ("expectation-is-quadratic-form", "expectation-raises"):
            from orquestra.quantum.operators import get_expectation_value
            from orquestra.quantum.operators._openfermion_utils.sparse_tools import expectation, get_sparse_operator
            from orquestra.quantum.wavefunction import Wavefunction

            n = p["n"]
            v = np.array([complex(vals.get(f"a{i}_re", 0.5 if clause == "expectation-raises" else 0.0), vals.get(f"a{i}_im", 0.0)) for i in range(2**n)])
            if clause == "expectation-raises":
                v = v / np.linalg.norm(v)
            op = op_from(p["terms"])
            cm = {k: complex(c) for k, c in _merge(op).items()}
            if p["reverse"]:
                cm = {frozenset((n - 1 - q, l) for q, l in k): c for k, c in cm.items()}
            want = v.conj() @ PL.dense(cm, n) @ v
            if p.get("flags"):
                worst = 0.0
                for f in p["flags"]:
                    cmf = {k: complex(c) for k, c in _merge(op).items()}
                    if f:
                        cmf = {frozenset((n - 1 - q, l) for q, l in k): c for k, c in cmf.items()}
                    w = v.conj() @ PL.dense(cmf, n) @ v
                    g = get_expectation_value(op, Wavefunction(v), reverse_operator=True) if f else get_expectation_value(op, Wavefunction(v))
                    worst = max(worst, abs(complex(g) - w) / max(1.0, abs(w)))
                return worst > 1e-9, f"same operator object queried with reverse flags {p['flags']}: worst deviation from the quadratic form {worst:.3g}"
            try:
                if p["mode"] == "wf":
                    got = get_expectation_value(op, Wavefunction(v), reverse_operator=True) if p["reverse"] else get_expectation_value(op, Wavefunction(v))
                else:
                    got = expectation(get_sparse_operator(op, n), v.reshape(-1, 1) if p["mode"] == "col" else v)
            except ValueError as e:
                return clause == "expectation-raises", f"raised {e}"
            d = abs(complex(got) - want)
            return d > 1e-9 * max(1.0, abs(want)), f"value {got} vs quadratic form {want}"
        if clause in ("sparse", "expect", "matrix", "labels"):
            r = Result("replay")
            _w_ground(r, clause, dict(p, label="replay"))
            return bool(r.d["candidates"]), (r.d["candidates"][0]["what"] if r.d["candidates"] else "ok")
            if clause == "sparse":
                bad = sparse_bad(p["terms"], p["n"])
            elif clause == "expect":
                bad = expectation_bad(p["terms"], p["n"], p["seed"], p["reverse"])
            else:
                bad = matrix_roundtrip_bad(p["n"], p["seed"], p["mkind"])
            return bool(bad), bad or "ok"
        from orquestra.quantum.operators._openfermion_utils.operator_utils import hermitian_conjugated, is_hermitian
        from orquestra.quantum.operators._utils import reverse_qubit_order

        V = Vars()
        A = build_operand(p["A"], V, concrete=vals)
        cm = {k: complex(v) for k, v in PL.cmap_of(A).items()}

        def dist(a, b):
            return max([abs(complex(a.get(k, 0)) - complex(b.get(k, 0))) for k in set(a) | set(b)] or [0.0])

        if clause in ("sparse-matrix-is-tensor-product-definition", "sparse-shape"):
            from orquestra.quantum.operators._openfermion_utils.sparse_tools import get_sparse_operator

            n = p.get("n")
            nn = A.n_qubits if n is None else n
            M = get_sparse_operator(A, n) if n is not None else get_sparse_operator(A)
            want = PL.dense(cm, nn) if cm else np.zeros((2**nn, 2**nn))
            got = np.asarray(M.todense())
            if got.shape != want.shape:
                return True, f"shape {got.shape} instead of {want.shape}"
            d = float(np.abs(got - want).max()) if got.size else 0.0
            return d > 1e-9, f"sparse matrix differs from the tensor-product definition by {d:.3g} (coefficients {vals})"
        if clause == "conjugate-denotes-adjoint":
            R = hermitian_conjugated(A)
            d = dist(PL.cmap_of(R), {k: v.conjugate() for k, v in _merge(A).items()})
            return d > 2e-8, f"distance {d:.3g}"
        if clause.startswith("hermitian-"):
            A2 = A.simplify() if p["A"][0] == "sum" else A
            r = bool(is_hermitian(A2))
            ims = [abs(complex(v).imag) for v in PL.cmap_of(A2).values()]
            if clause == "hermitian-true-only-if-real":
                return r and max(ims or [0]) >= 9e-4, f"is_hermitian={r}, max|Im|={max(ims or [0]):.3g}"
            return (not r) and max(ims or [0]) == 0.0, f"is_hermitian={r}, max|Im|={max(ims or [0]):.3g}"
        if clause.startswith("reverse"):
            n = p.get("n")
            width = max([q + 1 for k in cm for q, _ in k] or [0])
            if clause == "reverse-rejects-too-few-qubits":
                try:
                    reverse_qubit_order(A, n)
                    return True, "accepted"
                except ValueError:
                    return False, "rejected"
            nn = width if n is None else n
            R = reverse_qubit_order(A, n) if n is not None else reverse_qubit_order(A)
            want = {}
            for k, v in _merge(A).items():
                kk = frozenset((nn - 1 - q, l) for q, l in k)
                want[kk] = want.get(kk, 0) + v
            if clause == "reverse-once-is-bit-reversal":
                d = dist(PL.cmap_of(R), want)
                return d > 2e-8, f"distance {d:.3g}"
            R2 = reverse_qubit_order(R, nn)
            d = dist(PL.cmap_of(R2), _merge(A))
            return d > 4e-8, f"distance {d:.3g}"
        return False, "not reproduced"
    except Exception:
        import traceback

        return False, "replay raised: " + traceback.format_exc()[-600:]


def _merge(A):
    out = {}
    for t in A.terms:
        k = PL.key(dict(t.operations))
        out[k] = out.get(k, 0) + complex(t.coefficient)
    return out
