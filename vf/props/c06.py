"""C06 - binding parameters commutes with evaluating the circuit (E1)."""
import itertools
import random

import numpy as np
import sympy

from ..core import Result, pmap, stable_pick
from ..front import install_numpy_sympy_shim, Refuse
from ..solve import Prover, first_violation
from .. import circ as CS
from .c01 import mat_delta
from .c02 import gate_table
from .c07 import param_custom_gate

from fractions import Fraction

LEVEL = "model_checking"
QUARTER = Fraction(1, 4)
S = sympy.Symbol
x, y, z, w = S("x"), S("y"), S("z"), S("w")
v0, v1, v2 = S("v0"), S("v1"), S("v2")

EXPRS = {
    "x": x, "2x": 2 * x, "x+y": x + y, "x*y": x * y, "x/2": x / 2, "-x": -x, "y-x": y - x, "x+y+z": x + y + z, "num": 0.75, "y": y, "z": z,
    "(x-1)*y": (x - 1) * y, "x*z": x * z, "x-y": x - y,
}
MAPS = {
    "empty": {},
    "x->v0": {x: v0},
    "x,y->v": {x: v0, y: v1},
    "total": {x: v0, y: v1, z: v2},
    "x->0.5": {x: 0.5},
    "x,y->num": {x: 0.5, y: -1.25},
    "superfluous": {x: v0, w: v2},
    "x->y+z": {x: y + z},
    "x->2v0": {x: 2 * v0},
    "only-w": {w: v1},
    # values nobody writes down: falsy numbers of every kind, values at which a factor vanishes or a difference cancels,
    # renamings that change the name order of the remaining symbols
    "x->0": {x: 0},
    "x->0.0": {x: 0.0},
    "x->Integer(0)": {x: sympy.Integer(0)},
    "x->0,y->num": {x: 0, y: 0.75},
    "x->1": {x: 1},
    "x->y": {x: y},
    "x->z": {x: z},
    "y->-1,x->-2": {y: -1, x: -2},
}
SPECIAL_MAPS = ["x->0", "x->0.0", "x->Integer(0)", "x->0,y->num", "x->1", "x->y", "x->z", "y->-1,x->-2"]


def ser_map(m):
    return {str(k): str(v) for k, v in m.items()}


def expected_free_symbols_gate(params):
    syms = set()
    for p in params:
        if isinstance(p, sympy.Expr):
            syms |= p.free_symbols
    return sorted(syms, key=str)


def expected_free_symbols_circuit(ops):
    seen, out = set(), []
    for op in ops:
        for s in expected_free_symbols_gate(op.params):
            if s not in seen:
                seen.add(s)
                out.append(s)
    return out


def boundvars_bad():
    """ground: parameters that carry BOUND variables of their own (unevaluated Sum / Product / Integral): the reported free symbols
    are the symbols the parameter still depends on - the summation / integration variable is not one of them - for gates,
    wrapped gates, operations, phase operations and circuits; after binding the remaining ones nothing is free."""
    from orquestra.quantum.circuits import RX, RZ, U3, Circuit, MultiPhaseOperation

    k, t = sympy.Symbol("k"), sympy.Symbol("t")
    e1 = sympy.Sum(x**k, (k, 1, 3))
    e2 = sympy.Integral(sympy.cos(t), (t, 0, y))
    e3 = sympy.Product(z + k, (k, 1, 2))
    names = lambda ss: [str(q) for q in ss]  # noqa: E731
    cases = [
        ("RX(Sum)", RX(e1), ["x"]), ("RZ(Integral) dagger", RZ(e2).dagger, ["y"]), ("RX(Product) controlled", RX(e3).controlled(1), ["z"]),
        ("U3(Sum, Integral, x)", U3(e1, e2, x), ["x", "y"]), ("operation", RX(e1 + y)(0), ["x", "y"]),
        ("phase operation", MultiPhaseOperation((e1, e2)), ["x", "y"]),
    ]
    for what, g, want in cases:
        got = names(g.free_symbols)
        if sorted(got) != want or len(got) != len(set(got)):
            return f"{what}: free symbols {got}, the parameters depend on {want}"
    c = Circuit([RX(e1)(0), RZ(e2)(1), RX(y)(0)])
    if names(c.free_symbols) != ["x", "y"]:
        return f"circuit: free symbols {names(c.free_symbols)}, want ['x', 'y'] in order of first appearance"
    b = c.bind({x: 0.5, y: 0.25})
    if list(b.free_symbols):
        return f"fully bound circuit still reports free symbols {names(b.free_symbols)}"
    for op in b.operations:
        if op.free_symbols if hasattr(op, "free_symbols") else op.gate.free_symbols:
            return f"fully bound operation {op} still reports free symbols"
    return None


def _w_boundvars(res, p):
    res.d["ground_instances"] += 1
    res.d["instances"] -= 1
    res.ob(1)
    bad = boundvars_bad()
    if bad:
        _cand(res, "free-symbols-with-bound-variables", bad, p)
    else:
        res.ob(0, 1, "ground-structure")


def make_gate(gname, enames):
    ps = [EXPRS[e] for e in enames]
    if gname == "CG":
        return param_custom_gate()(*ps)
    base, *mods = gname.split("|")
    g = gate_table()[base][1](*ps)
    for m in mods:
        g = g.dagger if m == "dagger" else g.controlled(int(m[1:]))
    return g


def subs_param(p, m):
    return p.subs(m, simultaneous=True) if isinstance(p, sympy.Expr) else p


def _cand(res, clause, what, payload, witness=None):
    res.candidate(clause, what, dict(payload, clause=clause, values=witness or {}), sub=clause)


class _MapProbe:
    """hands the library its own copy of a symbol map and checks afterwards that the copy still has the same keys (same
    objects, same order) and values: 'extra symbols in the map are ignored', not consumed"""

    def __init__(self, m, string_keys=False):
        self.given = {(str(k) if string_keys else k): v for k, v in m.items()}
        self.snap = list(self.given.items())

    def problems(self):
        now = list(self.given.items())
        if len(now) != len(self.snap) or any(a[0] is not b[0] or a[1] is not b[1] for a, b in zip(now, self.snap)):
            return f"the symbol map passed to bind was modified: {[(str(k), str(v)) for k, v in self.snap]} -> {[(repr(k), str(v)) for k, v in now]}"
        return None

    def check(self, res, p):
        res.ob(1)
        bad = self.problems()
        if bad:
            _cand(res, "map-unchanged", bad[:300], p)
        else:
            res.ob(0, 1, "concrete-structure")


CPLX_MAPS = {
    "x->cplx": {x: 0.5 + 0.25j},
    "x,y->cplx": {x: -0.75 + 0.5j, y: 0.25 - 1.0j},
    "x->I*num": {x: 0.5 * sympy.I},
}


def _cplx_bad(gname, enames, mname):
    """bind a complex number, evaluate; vs evaluate symbolically, substitute the same number. Ground numeric comparison."""
    g = make_gate(gname, enames)
    m = CPLX_MAPS[mname]
    rest = {x: 0.375, y: -0.625, z: 1.125, w: 0.25}  # symbols the map leaves free get the same real numbers on both sides
    A = np.array(sympy.Matrix(g.bind(dict(m)).matrix).subs(rest).evalf(), dtype=complex)
    B = np.array(sympy.Matrix(g.matrix).subs(m, simultaneous=True).subs(rest).evalf(), dtype=complex)
    if A.shape != B.shape:
        return f"shape {A.shape} vs {B.shape}"
    d = float(np.abs(A - B).max())
    return None if d <= 1e-9 * (1 + float(np.abs(B).max())) else f"max|delta|={d:.3g}"


def _w_cplx(res, p):
    res.d["ground_instances"] += 1
    res.d["instances"] -= 1
    res.ob(1)
    bad = _cplx_bad(p["gate"], p["exprs"], p["map"])
    if bad:
        _cand(res, "bind-then-evaluate-complex", f"{p['gate']}({p['exprs']}) with {p['map']}: bind(map).matrix != matrix.subs(map): {bad}", p)
    else:
        res.ob(0, 1, "ground-numeric")


def _w_reuse(res, p):
    """ONE map object is bound to several circuits in turn (the documented 'one symbols map for all circuits' use): every
    binding must equal the binding with a pristine copy of the map."""
    from orquestra.quantum.circuits import Circuit

    m = MAPS[p["map"]]
    probe = _MapProbe(m, string_keys=bool(p.get("string_keys")))
    res.nontrivial()
    for i, (ops, n) in enumerate(p["circuits"]):
        c = Circuit([make_gate(g, e)(*tuple(q)) for g, e, q in ops], n_qubits=n)
        if p.get("maps"):
            # the CALLER updates its own map object in place between two bindings (new values, new keys, keys removed): the
            # binding must follow the map's content at the time of the call, not what the object held at an earlier call
            m = MAPS[p["maps"][i]]
            probe.given.clear()
            probe.given.update(m)
            probe.snap = list(probe.given.items())
        bound = c.bind(probe.given)
        want_params = [tuple(subs_param(q, m) for q in op.params) for op in c.operations]
        got_params = [tuple(op.params) for op in bound.operations]
        P = Prover(res, unit=QUARTER)

        def b(F, got_params=got_params, want_params=want_params):
            out = []
            if len(got_params) != len(want_params) or any(len(a) != len(bb) for a, bb in zip(got_params, want_params)):
                raise Refuse("operation/parameter count changed")
            for j, (ga, wa) in enumerate(zip(got_params, want_params)):
                for k, (a, bb) in enumerate(zip(ga, wa)):
                    out.append((f"op{j}.param{k}", F.alg.sub(F.t(a), F.t(bb))))
            return out

        r = P.prove_zero("reuse", b, "shared-map-binding", sub=f"shared-map-binding#{i}")
        fv = first_violation(r)
        if fv:
            _cand(res, "shared-map-binding", f"circuit #{i} bound with a map object that was used for {i} earlier binding(s): parameter {fv[0]} is not the substituted expression", p, fv[1])
        res.ob(1)
        if list(bound.free_symbols) != expected_free_symbols_circuit(bound.operations) or [str(s) for s in bound.free_symbols] != [str(s) for s in expected_free_symbols_circuit(Circuit([op.replace_params(wp) for op, wp in zip(c.operations, want_params)], n_qubits=n).operations)]:
            _cand(res, "shared-map-binding", f"circuit #{i} bound with a re-used map object keeps free symbols {bound.free_symbols}", p)
        else:
            res.ob(0, 1, "concrete-structure")
    probe.check(res, p)
    res.sample({"shared map": ser_map(m), "circuits": len(p["circuits"])})


def _prove_mat(res, P, A_, B_, clause, what, payload):
    def b(F):
        X, Y = F.mat(A_), F.mat(B_)
        if len(X) != len(Y) or len(X[0]) != len(Y[0]):
            raise Refuse(f"shape {len(X)} vs {len(Y)}")
        return mat_delta(F.alg, X, Y)

    r = P.prove_zero(clause, b, clause, sub=clause)
    fv = first_violation(r)
    if fv:
        _cand(res, clause, f"{what} (entry {fv[0]})", payload, fv[1])


def work(item):
    install_numpy_sympy_shim()
    kind, p = item
    res = Result(f"{kind}|{p['label']}")
    from orquestra.quantum.circuits import _gates as G, _operations as O, _circuit as CM, _wavefunction_operations as WO

    try:  # evidence only: a renamed private helper must not break the check
        res.fn(O.sub_symbols, O._sub_symbols_in_expression, O._sub_symbols_in_symbol, O.get_free_symbols, G.MatrixFactoryGate.bind, G.ControlledGate.bind, G.Dagger.bind, G.CustomGateMatrixFactory.__call__, CM.Circuit.bind, CM.Circuit.free_symbols.fget, WO.MultiPhaseOperation.bind)
    except AttributeError:
        pass
    try:
        {"gate": _w_gate, "circ": _w_circ, "refuse": _w_refuse, "nongate": _w_nongate, "cplx": _w_cplx, "reuse": _w_reuse, "boundvars": _w_boundvars}[kind](res, p)
    except Refuse as e:
        res.ob(1)
        res.inconc(f"translation refused: {e}")
    return res.as_dict()


def _w_gate(res, p):
    g = make_gate(p["gate"], p["exprs"])
    m = MAPS[p["map"]]
    res.nontrivial()
    before = tuple(g.params)
    mm = _MapProbe(m)
    if p.get("read_first"):
        g.free_symbols
    bound = g.bind(mm.given)
    mm.check(res, p)
    # structure: params substituted one by one, free symbols exact, receiver untouched
    res.ob(1)
    want_params = tuple(subs_param(q, m) for q in before)
    probs = []
    if tuple(g.params) != before:
        probs.append("bind modified the gate it was called on")
    if list(bound.free_symbols) != expected_free_symbols_gate(bound.params):
        probs.append(f"free_symbols {bound.free_symbols} != symbols of params {expected_free_symbols_gate(bound.params)}")
    if list(g.free_symbols) != expected_free_symbols_gate(before):
        probs.append(f"free_symbols {g.free_symbols} of unbound gate")
    for q0, q1 in zip(before, bound.params):
        if not isinstance(q0, sympy.Expr) and q1 is not q0 and q1 != q0:
            probs.append(f"numeric parameter {q0} changed to {q1}")
    if probs:
        _cand(res, "bind-structure", "; ".join(probs)[:300], p)
    else:
        res.ob(0, 1, "concrete-structure")
    P = Prover(res, unit=QUARTER)
    M = g.matrix
    _prove_mat(res, P, bound.matrix, M.subs(m, simultaneous=True), "bind-then-evaluate", f"{p['gate']}({p['exprs']}).bind({p['map']}).matrix != matrix.subs(map)", p)
    # parameters as expressions: bound params == substituted params
    P2 = Prover(res, unit=QUARTER)

    def b(F):
        out = []
        for i, (a, bb) in enumerate(zip(bound.params, want_params)):
            out.append((f"param{i}", F.alg.sub(F.t(a), F.t(bb))))
        return out

    r = P2.prove_zero("params", b, "bound-params", sub="bound-params")
    fv = first_violation(r)
    if fv:
        _cand(res, "bound-params", f"bound parameter {fv[0]} is not the substituted expression", p, fv[1])
    # binding in two partial steps equals binding once
    if len(m) >= 2:
        keys = list(m)
        m1, m2 = {keys[0]: m[keys[0]]}, {k: m[k] for k in keys[1:]}
        two = g.bind(m1).bind(m2)
        _prove_mat(res, Prover(res, unit=QUARTER), two.matrix, bound.matrix, "two-step-bind", "binding in two partial steps differs from binding once", p)
    res.sample({"gate": p["gate"], "params": p["exprs"], "map": ser_map(m)})


def _w_circ(res, p):
    from orquestra.quantum.circuits import Circuit

    ops = [make_gate(g, e)(*q) for g, e, q in p["ops"]]
    c = Circuit(ops, n_qubits=p.get("n"))
    m = MAPS[p["map"]]
    res.nontrivial()
    mm = _MapProbe(m)
    probs = []
    if p.get("read_first"):
        # history: the circuit's reports are asked for BEFORE it is bound (and again afterwards)
        if list(c.free_symbols) != expected_free_symbols_circuit(c.operations):
            probs.append(f"circuit.free_symbols {c.free_symbols} != first-appearance order {expected_free_symbols_circuit(c.operations)}")
        for op in c.operations:
            op.free_symbols
    bound = c.bind(mm.given)
    mm.check(res, p)
    res.ob(1)
    if bound.n_qubits != c.n_qubits:
        probs.append(f"bind changed n_qubits {c.n_qubits} -> {bound.n_qubits}")
    if list(c.free_symbols) != expected_free_symbols_circuit(c.operations):
        probs.append(f"circuit.free_symbols {c.free_symbols} != first-appearance order {expected_free_symbols_circuit(c.operations)}")
    if list(bound.free_symbols) != expected_free_symbols_circuit(bound.operations):
        probs.append(f"bound.free_symbols {bound.free_symbols} != symbols its parameters depend on {expected_free_symbols_circuit(bound.operations)}")
    if (len(bound.free_symbols) == 0) != all(not expected_free_symbols_gate(op.params) for op in bound.operations):
        probs.append("free_symbols empty does not coincide with all parameters numeric")
    if [op.qubit_indices for op in bound.operations] != [op.qubit_indices for op in c.operations]:
        probs.append("bind changed qubit indices")
    if probs:
        _cand(res, "circuit-bind-structure", "; ".join(probs)[:300], p)
    else:
        res.ob(0, 1, "concrete-structure")
    if bound.n_qubits == c.n_qubits:
        U = c.to_unitary()
        Ub = bound.to_unitary()
        Us = U.subs(m, simultaneous=True) if isinstance(U, sympy.MatrixBase) else U
        _prove_mat(res, Prover(res, unit=QUARTER), Ub, Us, "circuit-bind-then-evaluate", "bind(map).to_unitary() != to_unitary().subs(map)", p)
    # a second (partial) binding keeps the bookkeeping right
    if p.get("second"):
        m2 = MAPS[p["second"]]
        if p.get("read_first"):
            bound.free_symbols
        b2 = bound.bind(m2)
        res.ob(1)
        if list(b2.free_symbols) != expected_free_symbols_circuit(b2.operations) or b2.n_qubits != c.n_qubits:
            _cand(res, "two-step-circuit-structure", f"after two binds free_symbols={b2.free_symbols}, want {expected_free_symbols_circuit(b2.operations)}; n_qubits={b2.n_qubits}", p)
        else:
            res.ob(0, 1, "concrete-structure")
    res.sample({"circuit": [(g, e, list(q)) for g, e, q in p["ops"]], "n": p.get("n"), "map": ser_map(m)})


def _w_refuse(res, p):
    g = CS.gate_by_id(p["gid"])
    res.d["ground_instances"] += 1
    res.d["instances"] -= 1
    res.ob(1)
    try:
        out = g.bind({x: 0.5})
        _cand(res, "bind-refusal", f"{p['gid']}.bind did not refuse, returned {out}", p)
    except NotImplementedError:
        res.ob(0, 1, "concrete-structure")
    except Exception as e:
        _cand(res, "bind-refusal", f"{p['gid']}.bind raised {type(e).__name__} instead of NotImplementedError", p)


def _w_nongate(res, p):
    from orquestra.quantum.circuits import MultiPhaseOperation, ResetOperation, Circuit

    m = MAPS[p["map"]]
    params = tuple(EXPRS[e] for e in p["exprs"])
    op = MultiPhaseOperation(params)
    res.nontrivial()
    bound = op.bind(m)
    want = tuple(subs_param(q, m) for q in params)
    res.ob(1)
    probs = []
    if tuple(op.params) != params:
        probs.append("bind modified the operation")
    if list(bound.free_symbols) != expected_free_symbols_gate(bound.params):
        probs.append(f"free_symbols {bound.free_symbols}")
    if type(bound) is not MultiPhaseOperation or len(bound.params) != len(params):
        probs.append("wrong result type/length")
    r = ResetOperation(1)
    rb = r.bind(m)
    if type(rb) is not ResetOperation or rb.qubit_indices != (1,) or list(rb.free_symbols) != []:
        probs.append("ResetOperation.bind changed the operation")
    c = Circuit([CS.gate_by_id("RX(x)")(0), op, r], n_qubits=max(2, int(np.log2(len(params)))))
    cb = c.bind(m)
    if cb.n_qubits != c.n_qubits or len(cb.operations) != 3 or list(cb.free_symbols) != expected_free_symbols_circuit(cb.operations):
        probs.append("Circuit.bind over mixed operation kinds: wrong width/length/free symbols")
    if probs:
        _cand(res, "nongate-bind-structure", "; ".join(probs)[:300], p)
    else:
        res.ob(0, 1, "concrete-structure")
    P = Prover(res, unit=QUARTER)

    def b(F):
        return [(f"phase{i}", F.alg.sub(F.t(a), F.t(bb))) for i, (a, bb) in enumerate(zip(bound.params, want))]

    rr = P.prove_zero("phases", b, "nongate-bound-params", sub="nongate-bound-params")
    fv = first_violation(rr)
    if fv:
        _cand(res, "nongate-bound-params", f"bound phase {fv[0]} is not the substituted expression", p, fv[1])
    res.sample({"multiphase": p["exprs"], "map": ser_map(m)})


def instances(tier, seed):
    table = gate_table()
    rng = random.Random(seed * 31 + 3)
    items = []
    one = ["x", "2x", "x+y", "x*y", "x/2", "-x", "y-x", "num"]
    gates = [(n, table[n][2]) for n in sorted(table) if table[n][2] > 0] + [("CG", 2), ("RX|c1", 1), ("RY|dagger", 1), ("U3|c1|dagger", 3), ("PHASE|dagger|c2", 1), ("XX|c1", 1)]
    for gname, npar in gates:
        for mname in MAPS:
            if mname in SPECIAL_MAPS:
                continue
            for es in (itertools.product(one, repeat=npar) if npar == 1 else [rng.sample(one + ["x+y+z", "y"], npar) for _ in range(3)]):
                es = list(es)
                if tier == "quick" and not stable_pick((gname, mname, es), 5 if gname in ("RX", "U3", "CG", "RX|c1", "U3|c1|dagger") else 14, seed):
                    continue
                if tier == "thorough" and not stable_pick((gname, mname, es), 2, seed) and gname not in ("RX", "U3", "CG"):
                    continue
                items.append(("gate", {"gate": gname, "exprs": es, "map": mname, "label": f"{gname}({','.join(es)}) map={mname}"}))
    # special values on expression-valued parameters (every falsy kind of zero, vanishing factors, cancelling differences)
    sp_gates = [("RX", ["2x"]), ("RX", ["x"]), ("RZ", ["x+y"]), ("RY", ["x*y"]), ("PHASE", ["(x-1)*y"]), ("RX", ["x-y"]), ("RY", ["x*z"]), ("CG", ["2x", "x+y"]), ("RX|c1", ["x/2"]), ("RY|dagger", ["y-x"]),
                ("U3", ["x*y", "x", "(x-1)*y"]), ("U3|c1|dagger", ["x+y", "2x", "x*z"]), ("XX|c1", ["-x"])]
    for k, (gname, es) in enumerate(sp_gates):
        for j, mname in enumerate(SPECIAL_MAPS):
            if tier == "quick" and (k + j) % 2 and gname not in ("RX", "RZ"):
                continue
            items.append(("gate", {"gate": gname, "exprs": es, "map": mname, "read_first": bool((k + j) % 3 == 0), "label": f"{gname}({','.join(es)}) map={mname}"}))
    sp_circs = [
        ([("RX", ["(x-1)*y"], (0,)), ("RY", ["x*y"], (1,)), ("RZ", ["x-y"], (0,))], None),
        ([("RY", ["x*z"], (0,)), ("RZ", ["y"], (1,)), ("RX", ["2x"], (0,))], 3),
        ([("RZ", ["x+y"], (0,)), ("CG", ["x", "x*y"], (1,))], None),
    ]
    for ops, n in sp_circs:
        for mname in SPECIAL_MAPS + ["x,y->num", "x->y+z"]:
            for rf in (True, False):
                items.append(("circ", {"ops": ops, "n": n, "map": mname, "read_first": rf, "second": "x,y->num" if rf else "x->v0", "label": f"{[(g, e, q) for g, e, q in ops]} n={n} map={mname}{' after reading free_symbols' if rf else ''}"}))
    circs = [
        ([("RX", ["x"], (0,)), ("RY", ["x+y"], (1,)), ("XX", ["2x"], (0, 1))], None),
        ([("RZ", ["y"], (1,)), ("RX", ["x"], (0,)), ("RY", ["x*y"], (1,))], 3),
        ([("U3", ["x", "y", "z"], (0,)), ("CG", ["x/2", "num"], (1,))], 4),
        ([("RX|c1", ["x"], (1, 0)), ("PHASE|dagger", ["y-x"], (0,))], None),
        ([("RX", ["num"], (0,)), ("RY", ["num"], (1,))], 3),
        ([("RY", ["z"], (0,)), ("RY", ["y"], (0,)), ("RY", ["x"], (0,)), ("RZ", ["y"], (0,))], 2),
    ]
    for ops, n in circs:
        for mname in MAPS:
            if tier == "quick" and not stable_pick((str(ops), mname), 2, seed) and mname not in ("x->2v0", "total"):
                continue
            if mname in SPECIAL_MAPS:
                continue
            rf = stable_pick((str(ops), mname, "rf"), 2, seed)
            items.append(("circ", {"ops": ops, "n": n, "map": mname, "read_first": rf, "second": rng.choice([None, "x,y->num", "only-w", "x->v0"]), "label": f"{[(g, e, q) for g, e, q in ops]} n={n} map={mname}{' after reading free_symbols' if rf else ''}"}))
    # complex values (ground): plain, daggered, controlled-daggered gates
    for gname, es in [("RX", ["x"]), ("RY|dagger", ["x"]), ("PHASE|dagger", ["x+y"]), ("U3|c1|dagger", ["x", "y", "num"]), ("PHASE|dagger|c2", ["2x"]), ("CG", ["x", "y"]), ("RZ", ["x*y"]), ("XX|c1", ["x/2"]), ("U3", ["y", "x", "x"])]:
        for mname in CPLX_MAPS:
            items.append(("cplx", {"gate": gname, "exprs": es, "map": mname, "label": f"{gname}({','.join(es)}) map={mname}"}))
    # one map object shared by several bindings
    seqs = [
        [([("RX", ["x"], (0,))], None), ([("RY", ["y"], (0,)), ("RZ", ["x+y"], (1,))], None), ([("U3", ["x", "y", "z"], (0,))], 2)],
        [([("RZ", ["z"], (1,))], 2), ([("RX", ["x"], (0,)), ("XX", ["x*y"], (0, 1))], None)],
        [([("RX", ["num"], (0,))], None), ([("PHASE|dagger", ["y-x"], (0,))], None), ([("RY", ["x"], (0,))], None)],
    ]
    for si, seq in enumerate(seqs):
        for mname in ("total", "superfluous", "x,y->num", "x,y->v"):
            items.append(("reuse", {"circuits": [[[list(o) for o in ops], n] for ops, n in seq], "map": mname, "label": f"shared map {mname} over circuit sequence #{si}"}))
    # ... and updated in place by the caller between the bindings (the same expressions are substituted again with new content)
    evolving = [
        ([([("RX", ["2x"], (0,)), ("RY", ["x+y"], (1,))], None)] * 3, ["x->v0", "x,y->v", "x,y->num"]),
        ([([("RZ", ["x*y"], (0,)), ("XX", ["x/2"], (0, 1))], None), ([("RZ", ["x*y"], (0,)), ("RX", ["x"], (1,))], None)], ["x,y->num", "x->2v0"]),
        ([([("U3", ["x", "y-x", "2x"], (0,))], 2)] * 2, ["x->y", "total"]),
        ([([("PHASE|dagger", ["y-x"], (0,)), ("RX|c1", ["2x"], (1, 0))], None)] * 2, ["x->0", "x,y->v"]),
    ]
    for si, (seq, mnames) in enumerate(evolving):
        items.append(("reuse", {"circuits": [[[list(o) for o in ops], n] for ops, n in seq], "map": mnames[0], "maps": mnames, "label": f"one map object updated in place {mnames} over circuit sequence #{si}"}))
    items.append(("boundvars", {"label": "parameters with bound variables (Sum / Product / Integral)"}))
    for gid in ["X|pow(2)", "RX(0.3)|pow(0.5)", "H|exp", "T|dagger|pow(3)", "RZ(0.2)|exp", "X|pow(2)|c1"]:
        items.append(("refuse", {"gid": gid, "label": gid}))
    for es in (["x", "y", "num", "x+y"], ["2x", "-x"], ["x*y", "z", "y", "x", "num", "x/2", "y-x", "x"]):
        for mname in (["x->v0", "total", "x->y+z", "x->0", "x->0.0", "x->y"] if tier == "quick" else list(MAPS)):
            items.append(("nongate", {"exprs": es, "map": mname, "label": f"MPO({','.join(es)}) map={mname}"}))
    return items


def run(ctx):
    items = instances(ctx.tier, ctx.seed)
    if getattr(ctx, "only", None):
        items = [it for it in items if ctx.only in it[1]["label"] or ctx.only == it[0]]
    ctx.bounds = {
        "parameter_expressions": sorted(EXPRS),
        "maps": {k: ser_map(v) for k, v in MAPS.items()},
        "gates": "every parametric built-in, a custom gate (positional substitution), controlled/dagger wrapped gates; circuits of <= 4 operations with explicit and inferred width",
        "values": "substituted values are fresh symbols (identity in v), dyadic numbers or expressions; all symbol values real",
    }
    ctx.assume(
        "A-ENV-1 shim",
        "maps do not chain (no value mentions a key of the same map): sympy's subs is sequential for expressions while bare symbols are looked up, the property's 'substituting the same values afterwards' is read as simultaneous substitution",
        "the Power/Exponential refusal clause is a ground instance",
    )
    for it, out in pmap(work, items):
        ctx.merge(out)
    ctx.extra["explanation"] = (
        "bind() on gates, wrapped gates, custom gates, non-gate operations and circuits is executed with symbol-valued maps; "
        "'bind then evaluate' is compared with 'evaluate then substitute' as an identity in the substituted symbols decided by z3; "
        "free_symbols lists, width and untouched numeric parameters are compared concretely on the same runs."
    )


def replay(data):
    install_numpy_sympy_shim()
    inp = data["inputs"]
    clause = inp["clause"]
    vals = {k: float(v) for k, v in (inp.get("values") or {}).items()}
    r = Result("replay")
    p = {k: v for k, v in inp.items() if k not in ("clause", "values")}
    p.setdefault("label", "replay")
    try:
        kind = "boundvars" if clause == "free-symbols-with-bound-variables" else "cplx" if clause == "bind-then-evaluate-complex" else "reuse" if "circuits" in p else "gate" if "gate" in p else "circ" if "ops" in p else "refuse" if "gid" in p else "nongate"
        if kind == "circ":
            p["ops"] = [(g, e, tuple(q)) for g, e, q in p["ops"]]
        {"gate": _w_gate, "circ": _w_circ, "refuse": _w_refuse, "nongate": _w_nongate, "cplx": _w_cplx, "reuse": _w_reuse, "boundvars": _w_boundvars}[kind](r, p)
        cands = [c for c in r.d["candidates"] if c["clause"] == clause]
        if not cands:
            return False, "no violation on re-execution"
        if clause in ("bind-then-evaluate", "two-step-bind", "circuit-bind-then-evaluate"):
            # numeric confirmation at the witness
            m = MAPS[p["map"]]
            if kind == "gate":
                g = make_gate(p["gate"], p["exprs"])
                A = CS.np_matrix(g.bind(m).matrix, vals)
                B = CS.np_matrix(g.matrix.subs(m, simultaneous=True), vals)
                if clause == "two-step-bind":
                    keys = list(m)
                    A = CS.np_matrix(g.bind({keys[0]: m[keys[0]]}).bind({k: m[k] for k in keys[1:]}).matrix, vals)
                    B = CS.np_matrix(g.bind(m).matrix, vals)
            else:
                from orquestra.quantum.circuits import Circuit

                c = Circuit([make_gate(g, e)(*q) for g, e, q in p["ops"]], n_qubits=p.get("n"))
                A = CS.np_matrix(c.bind(m).to_unitary(), vals)
                U = c.to_unitary()
                B = CS.np_matrix(U.subs(m, simultaneous=True) if isinstance(U, sympy.MatrixBase) else U, vals)
            if A.shape != B.shape:
                return True, f"shape {A.shape} vs {B.shape}"
            d = np.abs(A - B).max()
            return bool(d > 1e-6 * (1 + np.abs(B).max())), f"max|delta|={d:.3g} at {vals}"
        return True, cands[0]["what"]
    except Exception:
        import traceback

        return False, "replay raised: " + traceback.format_exc()[-500:]
