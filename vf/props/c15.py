"""C15 - estimation returns one correctly weighted result per task, in task order. E3 + E2."""
import itertools

import numpy as np

from ..core import Result, pmap
from .. import xhair as XH
from .c13 import parse_call_args

LEVEL = "model_checking"

HARNESS = '''
ES = load_cut("orquestra.quantum.estimation._estimation", "vf_cut_est")
from orquestra.quantum.api.estimation import EstimationTask
from orquestra.quantum.measurements import ExpectationValues
from orquestra.quantum.operators import PauliTerm, PauliSum
import numpy as _np


class M:
    def __init__(self, tag):
        self.tag = tag

    def get_expectation_values(self, op):
        return ExpectationValues(_np.array([float(self.tag)]), [_np.array([[1.0]])], [_np.array([[0.0]])])


class R:
    def __init__(self):
        self.calls = []

    def run_batch_and_measure(self, circuits, shots):
        self.calls.append((list(circuits), list(shots)))
        return [M(c) for c in circuits]


def _task(kind, i, shots=None):
    # 0 measurable, 1 constant operator, 2 zero-shot (operator with an identity part), 3 constant operator AND zero shots, 4 measurable sum with identity part
    n = 10 + i if shots is None else shots
    if kind == 0:
        return EstimationTask(PauliTerm({0: "Z"}, 2.0), 100 + i, n)
    if kind == 1:
        return EstimationTask(PauliSum([PauliTerm({}, 1000.0 + i)]), 100 + i, n)
    if kind == 2:
        return EstimationTask(PauliSum([PauliTerm({}, 4.0), PauliTerm({0: "Z"}, 2.0)]), 100 + i, 0)
    if kind == 3:
        return EstimationTask(PauliTerm({}, 2000.0 + i), 100 + i, 0)
    return EstimationTask(PauliSum([PauliTerm({1: "Z"}, 0.5), PauliTerm({}, 3.0)]), 100 + i, n)


def _expected(kind, i):
    return {0: 100.0 + i, 1: 1000.0 + i, 2: 0.0, 3: 2000.0 + i, 4: 100.0 + i}[kind]


def h_results_in_task_order_len4(kinds: List[int]) -> bool:
    """
    pre: len(kinds) == 4 and all(0 <= k <= 2 for k in kinds)
    post: _
    """
    return _check_order(kinds)


def h_results_in_task_order(kinds: List[int]) -> bool:
    """
    pre: len(kinds) <= 3 and all(0 <= k <= 4 for k in kinds)
    post: _
    """
    return _check_order(kinds)


def h_results_in_task_order_any_shots(kinds: List[int], shots: List[int]) -> bool:
    """
    pre: len(kinds) == 3 and len(shots) == 3 and all(k == 0 or k == 1 or k == 4 for k in kinds) and all(1 <= s <= 3 for s in shots)
    post: _
    """
    # shot counts in ANY relative order (equal, increasing, decreasing, cyclic): results stay at their task's position
    return _check_order(kinds, [10 * s for s in shots])


def _check_order(kinds, shots=None):
    tasks = [_task(k, i, None if shots is None else shots[i]) for i, k in enumerate(kinds)]
    snapshot = list(tasks)
    r = R()
    out = ES.estimate_expectation_values_by_averaging(r, tasks)
    if tasks != snapshot or len(out) != len(kinds):
        return False
    for i, k in enumerate(kinds):
        if out[i] is None or len(out[i].values) != 1 or float(out[i].values[0]) != _expected(k, i):
            return False
    meas = [i for i, k in enumerate(kinds) if k in (0, 4)]
    if not meas:
        return r.calls == []
    # one batch carrying exactly the measurable tasks, each circuit with its own shot count (submission order is free)
    if len(r.calls) != 1 or len(r.calls[0][0]) != len(meas) or len(r.calls[0][1]) != len(meas):
        return False
    want = sorted((100 + i, tasks[i].number_of_shots) for i in meas)
    return sorted(zip(r.calls[0][0], r.calls[0][1])) == want


def h_results_twin(kinds: List[int]) -> bool:
    """
    pre: len(kinds) <= 4 and all(0 <= k <= 4 for k in kinds)
    post: _
    """
    out = ES.estimate_expectation_values_by_averaging(R(), [_task(k, i) for i, k in enumerate(kinds)])
    return not (len(kinds) == 3 and kinds[0] == 0 and kinds[2] == 1)   # reachability: must be refuted


def h_split_partitions_len4(kinds: List[int]) -> bool:
    """
    pre: len(kinds) == 4 and all(0 <= k <= 2 for k in kinds)
    post: _
    """
    return _check_split(kinds)


def h_split_partitions(kinds: List[int]) -> bool:
    """
    pre: len(kinds) <= 3 and all(0 <= k <= 4 for k in kinds)
    post: _
    """
    return _check_split(kinds)


def _check_split(kinds):
    tasks = [_task(k, i) for i, k in enumerate(kinds)]
    a, b, ia, ib = ES.split_estimation_tasks_to_measure(tasks)
    if sorted(ia + ib) != list(range(len(kinds))) or ia != sorted(ia) or ib != sorted(ib):
        return False
    if [tasks[i] for i in ia] != list(a) or [tasks[i] for i in ib] != list(b):
        return False
    return all(kinds[i] in (0, 4) for i in ia) and all(kinds[i] in (1, 2, 3) for i in ib)


class Circ:
    def __init__(self, tag):
        self.tag = tag

    def bind(self, m):
        return ("bound", self.tag, m["id"])


def h_bind_each_task_with_its_map(n: int, extra: int, owner: List[int]) -> bool:
    """
    pre: 0 <= n <= 3 and 0 <= extra <= 2 and len(owner) == n and all(0 <= o < n for o in owner)
    post: _
    """
    # owner[i] says which circuit OBJECT task i carries: tasks may share one object; every map uses the same key
    circs = [Circ(j) for j in range(n)]
    ops = [PauliTerm({0: "Z"}, float(i)) for i in range(n)]
    tasks = [EstimationTask(ops[i], circs[owner[i]], 5 + i) for i in range(n)]
    maps = [{"id": 50 + i} for i in range(n + extra)]
    out = ES.evaluate_estimation_circuits(tasks, maps)
    if len(out) != n:
        return False
    return all(o.circuit == ("bound", owner[i], 50 + i) and o.operator is ops[i] and o.number_of_shots == 5 + i for i, o in enumerate(out)) and all(t.circuit.tag == owner[i] for i, t in enumerate(tasks))
'''

EXPECT_REFUTED = {"h_results_twin"}


def harness_namespace():
    ns = {}
    exec(compile(XH.HEADER.format(verif=XH.VERIF, repo=XH.REPO) + HARNESS, "<c15-harness>", "exec"), ns)
    return ns



# ---------------------------------------------------------------------------
# E1: exact expectation values on circuits whose angles are symbolic


def _w_exact_sym(res, p):
    """calculate_exact_expectation_values on a task list whose circuits have symbolic angles: result i is <psi_i|O_i|psi_i> for
    ALL angles, whatever the shot numbers of the tasks; constant-operator tasks yield their constant. Same device as C04: the
    sparse matrix comes from the real get_sparse_operator, only its mat-vec is dense."""
    from . import c04
    from .. import circ as CS
    from ..front import install_numpy_sympy_shim, Refuse
    from ..solve import Prover, first_violation
    from orquestra.quantum.api.estimation import EstimationTask
    from orquestra.quantum.estimation import calculate_exact_expectation_values
    from orquestra.quantum.runners.symbolic_simulator import SymbolicSimulator

    install_numpy_sympy_shim()
    res.nontrivial()
    res.d["cuts"] += c04.SYM_STUBS[:1]
    tasks, meta = [], []
    for spec, n, terms, shots in p["tasks"]:
        c = CS.circuit_from_spec([tuple(x) for x in spec], n)
        tt = [(t[0], [tuple(f) for f in t[1]]) for t in terms]
        tasks.append(EstimationTask(c04.op_from_terms(tt), c, shots))
        meta.append((c, n, tt))
    try:
        with c04._sym_patches():
            out = calculate_exact_expectation_values(SymbolicSimulator(), tasks)
    except Refuse as e:
        res.ob(1)
        res.inconc(f"translation refused: {e}")
        return
    res.ob(1)
    if len(out) != len(tasks) or any(len(o.values) != 1 for o in out):
        res.candidate("exact-sym", f"{p['label']}: {len(out)} results / value shapes {[len(o.values) for o in out]} for {len(tasks)} tasks", dict(p, clause="exact-sym", values={}), sub="shape")
        return
    res.ob(0, 1, "concrete-structure")
    P = Prover(res)

    def build(F):
        outl = []
        for i, ((c, n, tt), o) in enumerate(zip(meta, out)):
            psi = c04.oracle_state(F, c.operations, n)
            outl.append((f"task{i}", F.alg.sub(c04.tr(F, o.values[0]), c04.oracle_expectation(F, psi, tt, n))))
        return outl

    try:
        fv = first_violation(P.prove_zero("exact-sym", build, "exact-sym", sub="exact-sym"))
    except Refuse as e:
        res.inconc(f"translation refused: {e}")
        return
    if fv:
        res.candidate("exact-sym", f"{p['label']}: exact value of {fv[0]} differs from <psi|O|psi>", dict(p, clause="exact-sym", values=fv[1]), sub="exact-sym")
    res.sample({"exact values, symbolic angles": p["label"]})


def exact_sym_replay(p, vals):
    from .. import circ as CS, pauli as PL
    from orquestra.quantum.api.estimation import EstimationTask
    from orquestra.quantum.estimation import calculate_exact_expectation_values
    from orquestra.quantum.operators import PauliTerm, PauliSum
    from orquestra.quantum.runners.symbolic_simulator import SymbolicSimulator
    import sympy

    tasks, want = [], []
    for spec, n, terms, shots in p["tasks"]:
        c = CS.circuit_from_spec([tuple(x) for x in spec], n)
        c = c.bind({s: float(vals.get(str(s), 0.37)) for s in c.free_symbols})
        op = PauliSum([PauliTerm({int(q): l for q, l in fs}, cf) for cf, fs in terms])
        tasks.append(EstimationTask(op, c, shots))
        U = CS.np_oracle_unitary(c.operations, c.n_qubits, {})
        psi = U[:, 0]
        want.append((psi.conj() @ PL.dense(PL.cmap_of(op), c.n_qubits) @ psi).real)
    got = calculate_exact_expectation_values(SymbolicSimulator(), tasks)
    if len(got) != len(tasks):
        return True, f"{len(got)} results for {len(tasks)} tasks"
    d = max(abs(complex(g.values[0]) - w) for g, w in zip(got, want))
    return d > 1e-7, f"max deviation {d:.3g} from the quadratic forms at {vals}"


# ---------------------------------------------------------------------------
# E2: constants symbolic


class _TagMeasurements:
    def __init__(self, tag):
        self.tag = tag

    def get_expectation_values(self, op):
        from orquestra.quantum.measurements import ExpectationValues

        return ExpectationValues(np.array([float(self.tag)]), [np.array([[1.0]])], [np.array([[0.0]])])


class _TagRunner:
    def run_batch_and_measure(self, circuits, shots):
        return [_TagMeasurements(c) for c in circuits]


def _const_tasks(kinds, coeff):
    """kinds: 'K' constant operator as a bare term, 'S' constant operator as a one-term sum, 'Z' non-constant zero-shot,
    'M' measurable (tag), 'k' constant operator with zero shots; coeff(i) gives the coefficient used by task i"""
    from orquestra.quantum.api.estimation import EstimationTask
    from orquestra.quantum.operators import PauliTerm, PauliSum

    tasks = []
    for i, k in enumerate(kinds):
        if k == "K":
            tasks.append(EstimationTask(PauliTerm({}, coeff(i)), 100 + i, 5 + i))
        elif k == "S":
            tasks.append(EstimationTask(PauliSum([PauliTerm({}, coeff(i))]), 100 + i, 5 + i))
        elif k == "k":
            tasks.append(EstimationTask(PauliSum([PauliTerm({}, coeff(i))]), 100 + i, 0))
        elif k == "Z":
            tasks.append(EstimationTask(PauliSum([PauliTerm({}, coeff(i)), PauliTerm({0: "Z"}, 2.0)]), 100 + i, 0))
        else:
            tasks.append(EstimationTask(PauliTerm({0: "Z"}, 2.0), 100 + i, 5 + i))
    return tasks


def _w_const(res, p):
    """estimate_expectation_values_by_averaging on task lists whose constants are symbolic reals: a constant task yields
    EXACTLY its constant, a zero-shot non-constant task yields 0, a measurable task the runner's tag - on every path."""
    import numpy
    import z3
    from .. import symtrace as ST
    from orquestra.quantum.estimation import _estimation as ES
    from orquestra.quantum.operators import _pauli_operators as PO

    kinds = p["kinds"]
    names = {f"k{i}": z3.Real(f"k{i}") for i, k in enumerate(kinds) if k in "KSkZ"}
    base = [z3.And(z <= 8, z >= -8) for z in names.values()]
    records = []
    res.nontrivial()

    def fn(ex):
        tasks = _const_tasks(kinds, lambda i: ST.CV(ST.SV(names[f"k{i}"]), 0) if p.get("complex_typed") else ST.SV(names[f"k{i}"]))
        out = ES.estimate_expectation_values_by_averaging(_TagRunner(), tasks)
        if len(out) != len(kinds):
            records.append(("one-result-per-task", "violated", None))
            return out
        for i, k in enumerate(kinds):
            vals = list(out[i].values)
            if len(vals) != 1:
                records.append((f"task{i}-single-value", "violated", None))
                continue
            v = vals[0]
            if k in "KSk":
                d = ST.CV.lift(v - ST.SV(names[f"k{i}"]))
                records.append((f"constant-task-yields-its-constant#{i}",) + ex.prove(z3.And(ST.zr_real(d.re) == 0, ST.zr_real(d.im) == 0)))
            elif k == "Z":
                d = ST.CV.lift(v)
                records.append((f"zero-shot-task-yields-zero#{i}",) + ex.prove(z3.And(ST.zr_real(d.re) == 0, ST.zr_real(d.im) == 0)))
            else:
                records.append((f"measured-task-in-place#{i}",) + ex.prove(z3.BoolVal(bool(not ST.is_sym(v) and float(v) == 100.0 + i))))
        return out

    with ST.patched((PO, "np", ST.NpProxy(numpy)), (PO, "float", ST.float_shadow), (PO, "complex", ST.complex_shadow), (ES, "np", ST.NpProxy(numpy))):
        ex = ST.Explorer(base=base, timeout_ms=8000, max_paths=200)
        outs = ex.run(fn)
    res.d["paths"] += ex.npaths
    res.d["solver_queries"] += ex.queries
    res.d["solver_s"] += ex.solver_s
    for o in outs:
        if o[0] == "exc":
            res.ob(1)
            vals = {k: ST.model_value(o[2], z) for k, z in names.items()} if len(o) > 2 and o[2] is not None else {}
            res.candidate("raises", f"{p['label']}: raised {type(o[1]).__name__}: {str(o[1])[:120]}", dict(p, clause="raises", values=vals), sub="raises")
    for clause, v, m in records:
        res.ob(1)
        if v == "holds":
            res.ob(0, 1, "A:z3")
        elif v == "violated":
            vals = {k: ST.model_value(m, z) for k, z in names.items()} if m is not None else {}
            res.candidate(clause.split("#")[0], f"{p['label']}: {clause} fails", dict(p, clause=clause.split("#")[0], values=vals), sub=clause)
        else:
            res.inconc("z3 unknown", clause)
    res.sample({"constant tasks": p["label"], "paths": ex.npaths})


def const_replay(p, clause, vals):
    from orquestra.quantum.estimation import estimate_expectation_values_by_averaging

    kinds = p["kinds"]
    cs = {i: float(vals.get(f"k{i}", 0.5)) for i in range(len(kinds))}
    tasks = _const_tasks(kinds, lambda i: complex(cs[i], 0.0) if p.get("complex_typed") else cs[i])
    try:
        out = estimate_expectation_values_by_averaging(_TagRunner(), tasks)
    except Exception as e:
        return clause == "raises", f"raised {type(e).__name__}: {e}"
    if len(out) != len(kinds):
        return True, f"{len(out)} results for {len(kinds)} tasks"
    bad = []
    for i, k in enumerate(kinds):
        v = list(out[i].values)
        want = cs[i] if k in "KSk" else 0.0 if k == "Z" else 100.0 + i
        if len(v) != 1 or complex(v[0]) != complex(want):
            bad.append(f"task {i} ({k}): {v} want exactly {want!r}")
    return bool(bad), "; ".join(bad)[:300] or "ok"

# ---------------------------------------------------------------------------


def basis_ground_bad(bits, terms, shots):
    """Full pipeline on the real simulator: basis-state circuit => every Z-type term's estimate is coefficient x eigenvalue exactly."""
    from orquestra.quantum import circuits as C
    from orquestra.quantum.api.estimation import EstimationTask
    from orquestra.quantum.estimation import estimate_expectation_values_by_averaging, calculate_exact_expectation_values
    from orquestra.quantum.operators import PauliTerm, PauliSum
    from orquestra.quantum.runners.symbolic_simulator import SymbolicSimulator

    n = len(bits)
    circ = C.Circuit([C.X(q) for q, b in enumerate(bits) if b] or [], n_qubits=n)
    op = PauliSum([PauliTerm({q: "Z" for q in qs}, c) for qs, c in terms])
    const = PauliSum([PauliTerm({}, 7.5)])
    tasks = [EstimationTask(const, circ, 3), EstimationTask(op, circ, shots), EstimationTask(op, circ, 0), EstimationTask(op, circ, shots + 1)]
    sim = SymbolicSimulator(seed=11)
    out = estimate_expectation_values_by_averaging(sim, tasks)
    want = [c * (-1) ** sum(bits[q] for q in qs) for qs, c in terms]
    if len(out) != 4:
        return f"{len(out)} results for 4 tasks"
    if list(out[0].values) != [7.5]:
        return f"constant task gave {out[0].values}"
    if list(out[2].values) != [0.0]:
        return f"zero-shot task gave {out[2].values}"
    for k in (1, 3):
        if [float(v) for v in out[k].values] != [float(w) for w in want]:
            return f"task {k}: {list(out[k].values)} want {want}"
    ex = calculate_exact_expectation_values(sim, [tasks[1], tasks[0]])
    if abs(float(ex[0].values[0]) - sum(want)) > 1e-9 or abs(float(ex[1].values[0]) - 7.5) > 1e-9:
        return f"exact values {[e.values for e in ex]} want {sum(want)}, 7.5"
    return None


def shots_ground_bad(bits, terms, nmax):
    """every shot count 1..nmax (float rounding of the average is outside the exact-real model of the symbolic run):
    all shots on one basis state => each Z-type term's estimate is coefficient x eigenvalue EXACTLY."""
    from orquestra.quantum.measurements import Measurements
    from orquestra.quantum.operators import PauliTerm, PauliSum

    op = PauliSum([PauliTerm({q: "Z" for q in qs}, c) for qs, c in terms])
    want = [float(c * (-1) ** sum(bits[q] for q in qs)) for qs, c in terms]
    for n in range(1, nmax + 1):
        got = [float(v) for v in Measurements([tuple(bits)] * n).get_expectation_values(op).values]
        if got != want:
            return f"{n} shots on {bits}: estimates {got}, want exactly {want}"
    return None


def exact_ground_bad(spec, terms):
    """calculate_exact_expectation_values equals the state's quadratic form with the operator (numpy dense oracle)."""
    from orquestra.quantum.api.estimation import EstimationTask
    from orquestra.quantum.estimation import calculate_exact_expectation_values
    from orquestra.quantum.operators import PauliTerm, PauliSum
    from orquestra.quantum.runners.symbolic_simulator import SymbolicSimulator
    from .. import circ as CS
    from .. import pauli as PL

    c = CS.circuit_from_spec([tuple(s) for s in spec])
    n = c.n_qubits
    op = PauliSum([PauliTerm({int(q): l for q, l in ops.items()}, coef) for ops, coef in terms])
    sim = SymbolicSimulator()
    U = CS.np_oracle_unitary(c.operations, n, {})
    psi = U[:, 0]
    Mop = PL.dense(PL.cmap_of(op), n)
    want = (psi.conj() @ Mop @ psi).real
    const = PauliSum([PauliTerm({}, -3.25)])
    # the shot count of a task plays no part in an exact value; constant tasks may sit anywhere in the list
    tasks = [EstimationTask(op, c, None), EstimationTask(const, c, 4), EstimationTask(op, c, 0), EstimationTask(op, c, 1), EstimationTask(const, c, 0), EstimationTask(op, c, 100)]
    got = calculate_exact_expectation_values(sim, tasks)
    if len(got) != len(tasks):
        return f"{len(got)} results for {len(tasks)} tasks"
    for i, (t, g) in enumerate(zip(tasks, got)):
        w = -3.25 if t.operator is const else want
        if len(g.values) != 1 or abs(g.values[0] - w) > 1e-9:
            return f"exact expectation of task {i} (shots={t.number_of_shots}) is {g.values} vs quadratic form {w}"
    return None


def bind_ground_bad(owner, values, later=()):
    """evaluate_estimation_circuits on REAL circuits: owner[i] = which circuit object task i carries (objects may be shared),
    values[i] = the numbers map i binds (theta, phi). Task i must come back with ITS circuit bound with ITS map.
    `later`: further rounds of values; the SAME task and map objects are used again after the caller wrote the new numbers
    into its map objects in place (an optimisation loop that keeps one parameter dictionary per task)."""
    import sympy
    from orquestra.quantum.api.estimation import EstimationTask
    from orquestra.quantum.circuits import Circuit, RX, RY, CNOT
    from orquestra.quantum.estimation import evaluate_estimation_circuits
    from orquestra.quantum.operators import PauliTerm

    th, ph = sympy.Symbol("theta"), sympy.Symbol("phi")
    circs = [Circuit([RX(th)(0), RY(ph + j)(1), CNOT(0, 1)]) for j in range(max(owner) + 1)]
    ops = [PauliTerm({0: "Z"}, float(i + 1)) for i in range(len(owner))]
    tasks = [EstimationTask(ops[i], circs[owner[i]], 7 + i) for i in range(len(owner))]
    maps = [{th: v[0], ph: v[1]} for v in values]
    for rnd, values in enumerate([values] + [list(v) for v in later]):
        for m, v in zip(maps, values):
            m[th], m[ph] = v[0], v[1]  # in place: the map objects stay the same from round to round
        out = evaluate_estimation_circuits(tasks, maps)
        if len(out) != len(tasks):
            return f"{len(out)} tasks returned for {len(tasks)}"
        for i, o in enumerate(out):
            want = Circuit([RX(th)(0), RY(ph + owner[i])(1), CNOT(0, 1)]).bind({th: values[i][0], ph: values[i][1]})
            if o.circuit != want or [op.params for op in o.circuit.operations] != [op.params for op in want.operations]:
                return f"round {rnd}: task {i} (circuit object #{owner[i]}, map {values[i]}) came back with parameters {[op.params for op in o.circuit.operations]}, want {[op.params for op in want.operations]}"
            if o.operator is not ops[i] and o.operator != ops[i] or o.number_of_shots != 7 + i:
                return f"round {rnd}: task {i}: operator or shot number changed"
    for i, t in enumerate(tasks):
        if t.circuit is not circs[owner[i]] or list(t.circuit.free_symbols) != [th, ph]:
            return f"input task {i} was modified"
    return None


def work(item):
    kind, p = item
    res = Result(f"{kind}|{p['label']}")
    try:
        if kind == "freq1":
            from .c10 import _w_freq

            _w_freq(res, p)
            return res.as_dict()
        if kind == "exact-sym":
            _w_exact_sym(res, p)
            return res.as_dict()
        if kind == "const":
            from .. import symtrace as ST

            try:
                _w_const(res, p)
            except ST.Inconclusive as e:
                res.ob(1)
                res.inconc(str(e))
            return res.as_dict()
        res.d["ground_instances"] += 1
        res.d["instances"] -= 1
        res.ob(1)
        if kind == "bindmaps":
            bad = bind_ground_bad(p["owner"], p["values"], p.get("later", ()))
        elif kind == "shots":
            bad = shots_ground_bad(p["bits"], [tuple(t) for t in p["terms"]], p["nmax"])
        else:
            bad = basis_ground_bad(p["bits"], [tuple(t) for t in p["terms"]], p["shots"]) if kind == "basis" else exact_ground_bad(p["spec"], [tuple(t) for t in p["terms"]])
        if bad:
            res.candidate(kind, f"{p['label']}: {bad}", dict(p, clause=kind, values={}), sub=kind)
        else:
            res.ob(0, 1, "ground-structure")
    except Exception as e:
        import traceback

        res.herr("worker raised " + traceback.format_exc()[-600:])
    return res.as_dict()


def run(ctx):
    from orquestra.quantum.estimation import _estimation as ESm

    try:  # evidence only: a renamed private helper must not break the check
        ctx.fn(ESm.estimate_expectation_values_by_averaging, ESm.split_estimation_tasks_to_measure, ESm.evaluate_non_measured_estimation_tasks, ESm.evaluate_estimation_circuits, ESm.calculate_exact_expectation_values)
    except AttributeError:
        pass
    tmo = 60 if ctx.tier == "quick" else 300
    only = getattr(ctx, "only", None)
    if not only or only.startswith("h_") or only == "xh":
        results = XH.run_crosshair(HARNESS, per_condition_timeout=tmo, only=(only if only and only.startswith("h_") else None))
        ctx.cuts.append("CUT-FMT on _estimation.py; runner and measurements are tagging stubs (result i carries task i's tag)")
        for name, (verdict, detail, secs) in sorted(results.items()):
            ctx.instances += 1
            ctx.solver_s += secs
            ctx.solver_queries += 1
            if name in EXPECT_REFUTED:
                ctx.vacuity_twins += 1
                if verdict == "refuted":
                    ctx.vacuity_ok += 1
                else:
                    ctx.harness_errors.append(f"reachability twin {name} was not refuted ({verdict}): {detail[:200]}")
                continue
            ctx.obligations += 1
            ctx.nontrivial.add(name)
            ctx.sample({"crosshair_harness": name, "verdict": verdict, "seconds": round(secs, 1)})
            if verdict == "confirmed":
                ctx.discharged += 1
                ctx.stage("E3:crosshair-confirmed-over-all-paths")
            elif verdict == "refuted":
                ctx.candidates.append({"key": f"xh|{name}", "clause": name, "what": f"CrossHair counterexample: {detail[:250]}", "inputs": {"harness": name, "args": parse_call_args(detail, name), "clause": name, "detail": detail[:400]}})
            else:
                ctx.inconc(f"xh|{name}", f"CrossHair: {verdict} within {tmo}s per condition (bug-hunting only): {detail[:150]}")
    items = []
    # E2: a sample concentrated on one basis state, symbolic shot count n >= 1: the Z-product estimate is the eigenvalue exactly
    for w in (1, 2, 3):
        for i in range(2**w):
            for marked in ([list(s) for r in range(w + 1) for s in itertools.combinations(range(w), r)] if w < 3 or ctx.tier == "thorough" else [[0], [0, 2], [0, 1, 2]]):
                items.append(("freq1", {"width": w, "marked": marked, "subset": [i], "label": f"all shots on basis state {i:0{w}b}, marked={marked}"}))
    # E2: constants symbolic (every real in [-8, 8], tiny ones included)
    kind_lists = ["K", "S", "k", "Z", "KM", "MS", "ZKM", "MkZS", "SSK", "ZZ", "kMK"] + (["KSkZM", "MZMK", "SkSk"] if ctx.tier == "thorough" else [])
    for kl in kind_lists:
        for ct in (False, True):
            if ct and len(kl) > 2 and ctx.tier == "quick":
                continue
            items.append(("const", {"kinds": kl, "complex_typed": ct, "label": f"task kinds {kl}{' (complex-typed constants)' if ct else ''}"}))
    # E1: exact values on symbolic circuits, task lists mixing shot numbers and constant operators
    ry2 = [["RY(t0)", [0]], ["RY(t1)", [1]], ["CNOT", [1, 0]], ["RX(u)", [1]]]
    ry1 = [["RY(t0)", [0]], ["RX(u)", [0]]]
    opA = [[1.0, [[0, "Z"]]], [0.5, [[0, "X"], [1, "Y"]]], [2.0, []]]
    opB = [[-1.5, [[1, "Z"]]], [0.25, [[0, "Y"]]]]
    opC = [[-3.25, []]]
    items.append(("exact-sym", {"tasks": [[ry2, 2, opA, None], [ry2, 2, opC, 4], [ry2, 2, opB, 0], [ry1, 1, [[1.0, [[0, "Y"]]]], 1], [ry2, 2, opA, 100]], "label": "5 tasks: shots None/4/0/1/100, constant operator in the middle"}))
    items.append(("exact-sym", {"tasks": [[ry1, 1, [[2.0, [[0, "Z"]]], [1.0, [[0, "X"]]]], 0]], "label": "one zero-shot task"}))
    if ctx.tier == "thorough":
        ry3 = [["RY(t0)", [0]], ["RY(t1)", [1]], ["RY(t2)", [2]], ["CNOT", [2, 0]], ["RX(u)", [1]]]
        items.append(("exact-sym", {"tasks": [[ry3, 3, [[1.0, [[0, "Z"], [2, "Z"]]], [0.5, [[1, "X"]]]], 0], [ry3, 3, [[1.0, [[2, "Y"], [0, "X"]]]], None], [ry3, 3, opC, 0]], "label": "3 tasks on 3 qubits"}))
    for bits in ([1, 0], [0, 1, 1], [1, 1, 0, 1], [0, 0]):
        terms = [[[0], 2.0], [[0, len(bits) - 1], -0.5], [[len(bits) - 1], 1.25]]
        for shots in (1, 5, 40):
            items.append(("basis", {"bits": bits, "terms": terms, "shots": shots, "label": f"basis state {bits} shots={shots}"}))
    for bits in ([1, 0], [0, 1, 1]):
        terms = [[[0], 2.0], [[0, len(bits) - 1], -0.5], [[len(bits) - 1], 1.25], [[], 3.0]]
        items.append(("shots", {"bits": bits, "terms": terms, "nmax": 400 if ctx.tier == "quick" else 5000, "label": f"basis state {bits}, every shot count up to {400 if ctx.tier == 'quick' else 5000}"}))
    for spec, terms in [
        ([["RX(0.7)", [0]], ["CNOT", [0, 1]], ["RY(1.1)", [1]]], [[{"0": "Z"}, 1.0], [{"0": "X", "1": "Y"}, 0.5], [{}, 2.0]]),
        ([["H", [0]], ["RZ(0.4)", [0]], ["RX(-0.9)", [2]]], [[{"0": "Y", "2": "Z"}, -1.5], [{"1": "Z"}, 0.25]]),
        ([["U3(0.3,0.7,1.1)", [1]], ["XX(0.5)", [0, 1]]], [[{"0": "Z", "1": "Z"}, 1.0], [{"1": "X"}, 2.0]]),
    ]:
        items.append(("exact", {"spec": spec, "terms": terms, "label": f"exact {spec}"}))
    # ground: real circuits, shared circuit objects, maps whose values are "equal-looking" to a hash or a comparison
    # (hash(-1) == hash(-2), hash(2**61 - 1) == hash(0), 1 == 1.0 == True, 0 == 0.0 == -0.0)
    for owner, values in [
        ([0, 0, 0, 0, 0], [[-2, 0.5], [-1, 0.5], [0, 0.5], [1, 0.5], [2, 0.5]]),
        ([0, 0, 1, 1], [[-1.0, 0.25], [-2.0, 0.25], [0.25, -1], [0.25, -2]]),
        ([0, 0, 0], [[0, 1], [2**61 - 1, 1], [0.0, 1.0]]),
        ([0, 1, 0, 1], [[0.5, 0.75], [0.5, 0.75], [0.75, 0.5], [0.75, 0.5]]),
        ([0, 0], [[1, 2], [2, 1]]),
        ([1, 0, 1], [[0.1, 0.2], [0.1, 0.2], [0.1, 0.2]]),
    ]:
        items.append(("bindmaps", {"owner": owner, "values": values, "label": f"bind tasks sharing circuit objects {owner} with maps {values}"}))
    # the same task and map objects evaluated again after the caller wrote new numbers into its maps in place
    for owner, values, later in [
        ([0, 1], [[0.5, 0.25], [0.75, -0.5]], [[[1.5, 0.25], [0.75, 2.0]], [[0.5, 0.25], [-0.75, -0.5]]]),
        ([0, 0, 0], [[0.1, 0.2], [0.3, 0.4], [0.5, 0.6]], [[[0.3, 0.4], [0.5, 0.6], [0.1, 0.2]]]),
        ([0], [[3.141592653589793, 0.0]], [[[0.0, 3.141592653589793]], [[0, 0]]]),
    ]:
        items.append(("bindmaps", {"owner": owner, "values": values, "later": later, "label": f"bind tasks sharing circuit objects {owner} with maps {values}, then again with the same map objects updated in place to {later}"}))
    if only:
        items = [it for it in items if only in it[1]["label"] or only == it[0]]
    for it, out in pmap(work, items):
        ctx.merge(out)
    ctx.bounds = {
        "crosshair": "task lists of <= 4 tasks, the kind of each task (measurable / constant / zero-shot with identity part / constant with zero shots / measurable sum with identity part) a symbolic choice; per-condition timeout %ds" % tmo,
        "e2": "all shots on one basis state of width <= 3 with a symbolic shot count n >= 1; task lists of <= 4 (thorough 5) tasks over the kinds constant term / constant one-term sum / constant with zero shots / non-constant zero-shot / measurable, every constant a symbolic real in [-8, 8]",
        "ground": "full pipeline on SymbolicSimulator for 4 basis states x 3 shot counts; exact expectation vs dense quadratic form for 3 circuits",
    }
    ctx.assume("runner and measurement objects are tagging stubs in the CrossHair harness", "calculate_exact_expectation_values on symbolic circuits: the scipy matrix is the one the real get_sparse_operator returns, only its mat-vec is the dense product (same stub as C04); the fully numeric pipeline is a ground instance")
    ctx.extra["explanation"] = (
        "estimate_expectation_values_by_averaging, split_estimation_tasks_to_measure and evaluate_estimation_circuits are explored by CrossHair over every kind vector of <= 4 tasks: "
        "result i carries task i's tag/constant/zero, the runner sees exactly the measurable tasks in order; basis-state exactness is proved for a symbolic shot count."
    )


def replay(data):
    inp = data["inputs"]
    try:
        if "harness" in inp:
            if not inp.get("args"):
                return False, "could not parse the counterexample arguments"
            ns = harness_namespace()
            try:
                r = ns[inp["harness"]](*inp["args"].get("pos", []), **inp["args"].get("kw", {}))
            except Exception as e:
                return True, f"harness raised {type(e).__name__}: {e} for {inp['args']}"
            return (r is False), f"{inp['harness']}({inp['args']}) returned {r}"
        if "width" in inp:
            from . import c10

            return c10.replay(data)
        if "tasks" in inp:
            return exact_sym_replay({k: v for k, v in inp.items() if k not in ("clause", "values")}, inp.get("values") or {})
        if "kinds" in inp:
            return const_replay({k: v for k, v in inp.items() if k not in ("clause", "values")}, inp["clause"], inp.get("values") or {})
        if inp["clause"] == "bindmaps":
            bad = bind_ground_bad(inp["owner"], inp["values"], inp.get("later", ()))
        elif inp["clause"] == "shots":
            bad = shots_ground_bad(inp["bits"], [tuple(t) for t in inp["terms"]], inp["nmax"])
        elif inp["clause"] == "basis":
            bad = basis_ground_bad(inp["bits"], [tuple(t) for t in inp["terms"]], inp["shots"])
        else:
            bad = exact_ground_bad(inp["spec"], [tuple(t) for t in inp["terms"]])
        return bool(bad), bad or "ok"
    except Exception:
        import traceback

        return True, "raised: " + traceback.format_exc()[-500:]
