"""C07 - gate modifiers (dagger, controlled, power, exp) mean what they say.

Inductive formulation: for every gate g in a closure set (bases x modifier chains up to a depth)
and every modifier m, m(g) is compared with the mathematical meaning of m applied to g's OWN
real matrix. Symbolic bases (all parametric built-ins, generic and parametric custom gates) are
decided by z3 for all parameter values; Power/Exponential refuse free symbols, so their clauses are
ground instances on constant gates (numeric compare), counted apart.
"""
import itertools
import signal

import numpy as np
import sympy

from ..core import Result, pmap, stable_pick
from ..front import install_numpy_sympy_shim, mmul, mdag, meye, mdiag_blocks, Refuse
from ..solve import Prover, first_violation
from .. import circ as CS
from .c02 import gate_table

LEVEL = "model_checking"
SYM_MODS = ["dagger", "c1", "c2"]
GROUND_MODS = ["dagger", "c1", "c2", "pow(2)", "pow(3)", "pow(-1)", "pow(-2)", "pow(0)", "pow(0.5)", "pow(1/3)", "exp"]


def param_custom_gate():
    from orquestra.quantum.circuits import CustomGateDefinition

    a, b = sympy.Symbol("ca"), sympy.Symbol("cb")
    m = sympy.Matrix([[sympy.cos(a / 2), -sympy.exp(sympy.I * b) * sympy.sin(a / 2)], [sympy.exp(-sympy.I * b) * sympy.sin(a / 2), sympy.cos(a / 2)]])
    return CustomGateDefinition("CG", m, (a, b))


def sym_custom_gate():
    """Parametric custom gate whose matrix is complex-symmetric but not Hermitian."""
    from orquestra.quantum.circuits import CustomGateDefinition

    a = sympy.Symbol("sa")
    e = sympy.exp(sympy.I * a / 2)  # unitary: a global phase times RX(a)
    m = sympy.Matrix([[e * sympy.cos(a / 2), -sympy.I * e * sympy.sin(a / 2)], [-sympy.I * e * sympy.sin(a / 2), e * sympy.cos(a / 2)]])
    return CustomGateDefinition("CSY", m, (a,))


def diag_custom_gate():
    from orquestra.quantum.circuits import CustomGateDefinition

    return CustomGateDefinition("CDI", sympy.Matrix([[1, 0], [0, sympy.I]]), ())()


def base_gate(bid):
    """bid: 'sym:RX' builtin with symbolic params th0.., 'sym:G1' generic, 'sym:CG' parametric custom
    (params th0, th1), 'num:<gid>' constant gate through circ.gate_by_id."""
    kind, name = bid.split(":", 1)
    if kind == "sym":
        if name == "G1":
            return CS.generic_gate(1)
        if name == "G2":
            return CS.generic_gate(2)
        if name == "CG":
            return param_custom_gate()(sympy.Symbol("th0"), sympy.Symbol("th1"))
        if name == "CSY":
            return sym_custom_gate()(sympy.Symbol("th0"))
        if name == "SG3":
            return CS.sparse_generic_gate(3)
        tkind, obj, npar = gate_table()[name]
        return obj(*[sympy.Symbol(f"th{i}") for i in range(npar)]) if tkind == "param" else obj
    if name == "CGnum":
        return param_custom_gate()(0.3, 0.9)
    if name == "CDI":
        return diag_custom_gate()
    if name == "CSYnum":
        return sym_custom_gate()(0.7)
    return CS.gate_by_id(name)


def apply_mod(g, m):
    if m == "dagger":
        return g.dagger
    if m.startswith("c") and m[1:].isdigit():
        return g.controlled(int(m[1:]))
    if m.startswith("pow("):
        return g.power(CS.parse_number(m[4:-1]))
    if m == "exp":
        return g.exp
    raise ValueError(m)


def build(bid, chain):
    g = base_gate(bid)
    for m in chain:
        g = apply_mod(g, m)
    return g


class _Timeout(Exception):
    pass


def _alarm(sig, frm):
    raise _Timeout()


SEQUENCES = {
    # gates that share a wrapper name ("Control", "Exponential", "Dagger", "...^2") evaluated one after another in ONE process:
    # a result remembered under too coarse a key would leak from one gate into the next
    "exp-of-controlled": [("num:X", ["c1"], "exp"), ("num:Z", ["c1"], "exp"), ("num:H", ["c1"], "exp"), ("num:X", ["c1"], "exp")],
    "exp-of-power": [("num:X", ["pow(2)"], "exp"), ("num:Z", ["pow(3)"], "exp"), ("num:S", ["pow(2)"], "exp")],
    "power-of-controlled": [("num:X", ["c1"], "pow(2)"), ("num:S", ["c1"], "pow(2)"), ("num:T", ["c1"], "pow(3)"), ("num:S", ["c1"], "pow(-1)")],
    "dagger-of-controlled": [("num:S", ["c1"], "dagger"), ("num:T", ["c1"], "dagger"), ("num:RX(0.3)", ["c1"], "dagger"), ("num:S", ["c2"], "dagger")],
    "controlled-of-exp": [("num:X", ["exp"], "c1"), ("num:Z", ["exp"], "c1"), ("num:S", ["exp"], "dagger")],
    "same-params-different-gate": [("num:RX(0.3)", [], "exp"), ("num:RY(0.3)", [], "exp"), ("num:RZ(0.3)", [], "exp"), ("num:RX(0.3)", [], "pow(2)"), ("num:RY(0.3)", [], "pow(2)")],
}


def _work_seq(res, item):
    res.d["ground_instances"] += 1
    res.d["instances"] -= 1
    for order in ("forward", "reverse"):
        seq = SEQUENCES[item["seq"]] if order == "forward" else list(reversed(SEQUENCES[item["seq"]]))
        for i, (bid, chain, mod) in enumerate(seq):
            res.ob(1)
            bad, detail = ground_check(bid, chain, mod)
            if bad:
                res.candidate("sequence-meaning", f"{mod} of {bid}|{'|'.join(chain)} evaluated as step {i} of sequence {item['seq']} ({order}): {detail}", {"seq": item["seq"], "clause": "sequence", "values": {}}, sub=f"{order}#{i}")
                return
            res.ob(0, 1, "ground-numeric")


def seq_bad(name):
    for order in ("forward", "reverse"):
        seq = SEQUENCES[name] if order == "forward" else list(reversed(SEQUENCES[name]))
        for i, (bid, chain, mod) in enumerate(seq):
            bad, detail = ground_check(bid, chain, mod)
            if bad:
                return f"step {i} ({order}): {mod} of {bid}|{'|'.join(chain)}: {detail}"
    return None


def work(item):
    install_numpy_sympy_shim()
    if "seq" in item:
        res = Result(f"seq:{item['seq']}")
        signal.signal(signal.SIGALRM, _alarm)
        signal.alarm(item.get("timeout", 120))
        try:
            _work_seq(res, item)
        except _Timeout:
            res.ob(1)
            res.inconc("timed out (sympy matrix function did not finish)")
        finally:
            signal.alarm(0)
        return res.as_dict()
    bid, chain, mod = item["bid"], item["chain"], item["mod"]
    key = f"{bid}|{'|'.join(chain)}:{mod}"
    res = Result(key)
    from orquestra.quantum.circuits import _gates as G

    try:  # evidence only: a renamed private helper must not break the check
        res.fn(G.ControlledGate.matrix.fget, G.Dagger.matrix.fget, G.Power.matrix.fget, G.Exponential.matrix.fget, G.MatrixFactoryGate.dagger.fget, G.Power.dagger.fget, G.ControlledGate.dagger.fget, G.Dagger.controlled, G.Power.controlled, G.ControlledGate.power, G.Exponential.dagger.fget, G.ControlledGate.replace_params, G.Dagger.replace_params, G.Power.replace_params, G.Exponential.replace_params)
    except AttributeError:
        pass
    signal.signal(signal.SIGALRM, _alarm)
    signal.alarm(item.get("timeout", 60))
    try:
        if bid.startswith("sym:"):
            _work_sym(res, item, key)
        else:
            _work_ground(res, item, key)
    except _Timeout:
        res.ob(1)
        res.inconc("timed out (sympy matrix function did not finish)")
    except Refuse as e:
        res.ob(1)
        res.inconc(f"translation refused: {e}")
    finally:
        signal.alarm(0)
    return res.as_dict()


def _k(mod):
    return int(mod[1:]) if mod.startswith("c") and mod[1:].isdigit() else 0


def _work_sym(res, item, key):
    bid, chain, mod = item["bid"], item["chain"], item["mod"]
    g = build(bid, chain)
    mg = apply_mod(g, mod)
    payload = {"bid": bid, "chain": chain, "mod": mod}
    if g.free_symbols:
        res.nontrivial()
    else:
        res.d["ground_instances"] += 1
        res.d["instances"] -= 1
    # structure: num_qubits and params
    res.ob(1)
    want_n = g.num_qubits + _k(mod)
    if mg.num_qubits != want_n or tuple(mg.params) != tuple(g.params):
        res.candidate("structure", f"{mod}({key}) reports num_qubits={mg.num_qubits} (want {want_n}) params={mg.params} (want {g.params})", dict(payload, clause="structure", values={}), sub="structure")
    else:
        res.ob(0, 1, "concrete-structure")
    P = Prover(res)
    M, MM = g.matrix, mg.matrix

    def b(F):
        A = F.alg
        U = F.mat(M)
        if mod == "dagger":
            want = mdag(A, U)
        else:
            k = _k(mod)
            want = mdiag_blocks(A, [meye(A, len(U) * (2**k - 1)), U])
        got = F.mat(MM)
        if len(got) != len(want):
            raise Refuse(f"dimension {len(got)} vs {len(want)}")
        return [(f"[{i},{j}]", A.sub(got[i][j], want[i][j])) for i in range(len(want)) for j in range(len(want))]

    r = P.prove_zero("matrix", b, "matrix", sub="matrix")
    fv = first_violation(r)
    if fv:
        res.candidate("matrix", f"{mod} of {bid}|{'|'.join(chain)}: matrix differs from its meaning at {fv[0]}", dict(payload, clause="matrix", values=fv[1]), sub="matrix")
    # replace_params commutes with the modifier
    if g.params:
        newp = tuple(sympy.Symbol(f"np{i}") for i in range(len(g.params)))
        a = mg.replace_params(newp)
        bgate = apply_mod(g.replace_params(newp), mod)
        res.ob(1)
        if not (a == bgate):
            res.candidate("replace_params", f"{mod}(g).replace_params(p) != {mod}(g.replace_params(p)) structurally", dict(payload, clause="replace_params-eq", values={}), sub="replace_params-eq")
        else:
            res.ob(0, 1, "concrete-structure")
        Ma, Mb = a.matrix, bgate.matrix
        P2 = Prover(res)

        def b2(F):
            A = F.alg
            X, Y = F.mat(Ma), F.mat(Mb)
            return [(f"[{i},{j}]", A.sub(X[i][j], Y[i][j])) for i in range(len(X)) for j in range(len(X))]

        r = P2.prove_zero("replace_params", b2, "replace_params", sub="replace_params")
        fv = first_violation(r)
        if fv:
            res.candidate("replace_params", f"replace_params does not commute with {mod} (matrix entry {fv[0]})", dict(payload, clause="replace_params", values=fv[1]), sub="replace_params")
    res.sample({"gate": f"{bid}|{'|'.join(chain)}", "modifier": mod, "num_qubits": mg.num_qubits})


def np_meaning(U, mod):
    """Numeric meaning of a modifier on matrix U; for unit-fraction powers returns None (checked via q-th power)."""
    import scipy.linalg

    if mod == "dagger":
        return U.conj().T
    if _k(mod):
        k = _k(mod)
        n = U.shape[0]
        W = np.eye(n * 2**k, dtype=complex)
        W[n * (2**k - 1):, n * (2**k - 1):] = U
        return W
    if mod == "exp":
        return scipy.linalg.expm(U)
    if mod.startswith("pow("):
        e = CS.parse_number(mod[4:-1])
        if float(e).is_integer():
            e = int(e)
            return np.linalg.matrix_power(U if e >= 0 else np.linalg.inv(U), abs(e))
        return None
    raise ValueError(mod)


def ground_check(bid, chain, mod):
    """Returns (violated, detail) numerically on the real code (used by work and by replay)."""
    g = build(bid, chain)
    mg = apply_mod(g, mod)
    U = np.array(g.matrix.evalf() if hasattr(g.matrix, "evalf") else g.matrix, dtype=complex)
    W = np.array(mg.matrix.evalf() if hasattr(mg.matrix, "evalf") else mg.matrix, dtype=complex)
    want_n = g.num_qubits + _k(mod)
    if mg.num_qubits != want_n or tuple(mg.params) != tuple(g.params):
        return True, f"structure: num_qubits={mg.num_qubits} (want {want_n}), params={mg.params} (want {g.params})"
    want = np_meaning(U, mod)
    if want is None:
        e = CS.parse_number(mod[4:-1])
        q = round(1 / e)
        d = np.abs(np.linalg.matrix_power(W, q) - U).max()
        return bool(d > 1e-7), f"|W^{q} - U|max={d:.3g}"
    if W.shape != want.shape:
        return True, f"shape {W.shape} vs {want.shape}"
    d = np.abs(W - want).max()
    return bool(d > 1e-7 * (1 + np.abs(want).max())), f"max|delta|={d:.3g}"


def _work_ground(res, item, key):
    bid, chain, mod = item["bid"], item["chain"], item["mod"]
    res.d["ground_instances"] += 1
    res.d["instances"] -= 1
    res.ob(1)
    bad, detail = ground_check(bid, chain, mod)
    if bad:
        res.candidate("ground-meaning", f"{mod} of {bid}|{'|'.join(chain)}: {detail}", {"bid": bid, "chain": chain, "mod": mod, "clause": "ground", "values": {}}, sub="")
    else:
        res.ob(0, 1, "ground-numeric")
    # replace_params commutes (constant gates with params)
    g = build(bid, chain)
    if g.params and not mod.startswith("pow(0.") and mod != "pow(1/3)":
        newp = tuple(0.21 + 0.37 * i for i in range(len(g.params)))
        res.ob(1)
        try:
            a = apply_mod(g, mod).replace_params(newp)
            b = apply_mod(g.replace_params(newp), mod)
            if a == b:
                res.ob(0, 1, "concrete-structure")
            else:
                res.candidate("replace_params", f"{mod}(g).replace_params(p) != {mod}(g.replace_params(p))", {"bid": bid, "chain": chain, "mod": mod, "clause": "replace_params-ground", "values": {}}, sub="replace_params")
        except _Timeout:
            raise
        except Exception as e:
            res.candidate("replace_params", f"replace_params raised {type(e).__name__}: {e}", {"bid": bid, "chain": chain, "mod": mod, "clause": "replace_params-ground", "values": {}}, sub="replace_params")


def chains(mods, depth):
    out = [()]
    for d in range(1, depth + 1):
        out += list(itertools.product(mods, repeat=d))
    return out


def instances(tier, seed=0):
    table = gate_table()
    items = []
    sym_bases = [f"sym:{n}" for n in sorted(table) if table[n][2] > 0] + ["sym:G1", "sym:CG", "sym:CSY", "sym:SG3"]
    if tier == "thorough":
        sym_bases.append("sym:G2")
    depth = 1 if tier == "quick" else 2
    for bid in sym_bases:
        nq = base_gate(bid).num_qubits
        for ch in chains(SYM_MODS, depth):
            for mod in SYM_MODS:
                tot = nq + sum(_k(m) for m in ch) + _k(mod)
                if tot > (4 if tier == "quick" else 5):
                    continue
                if tier == "quick" and len(ch) == 1 and bid not in ("sym:RX", "sym:U3", "sym:GPi", "sym:XY", "sym:MS", "sym:G1", "sym:CG", "sym:CSY", "sym:SG3", "sym:PHASE", "sym:Delay") and not stable_pick((bid, ch, mod), 3, seed):
                    continue
                items.append({"bid": bid, "chain": list(ch), "mod": mod})
    # ground: constant gates, all modifiers incl. power/exp
    num_bases = [f"num:{n}" for n in sorted(table) if table[n][2] == 0]
    num_bases += ["num:RX(0.3)", "num:RZ(-1.1)", "num:U3(0.3,0.7,1.1)", "num:PHASE(0.4)", "num:XX(0.5)", "num:GPi(0.4)", "num:K1", "num:CGnum", "num:CDI", "num:CSYnum", "num:K3", "num:K2"]
    gdepth = 1 if tier == "quick" else 2
    for bid in num_bases:
        nq = base_gate(bid).num_qubits
        for ch in chains(GROUND_MODS, gdepth):
            if len(ch) == 2 and tier == "thorough" and nq > 1:
                continue
            for mod in GROUND_MODS:
                tot = nq + sum(_k(m) for m in ch) + _k(mod)
                if tot > (4 if bid in ("num:K3", "num:K2") else 3):
                    continue
                if bid in ("num:K3", "num:K2") and (any(m not in ("dagger", "c1", "c2") for m in list(ch) + [mod])):
                    continue
                # sympy's matrix exp / fractional power of a matrix that is itself an exp or a
                # fractional power of floats is slow; bounded out (stated)
                heavy = sum(m in ("exp", "pow(0.5)", "pow(1/3)") for m in list(ch) + [mod])
                if heavy > 1:
                    continue
                if 'exp' in ch and mod.startswith('pow(-') and bid not in ("num:X", "num:Z", "num:H", "num:S", "num:I", "num:Y"):
                    continue
                if tier == "quick" and len(ch) == 1 and bid not in ("num:K3", "num:K2", "num:CDI", "num:CSYnum") and not stable_pick((bid, ch, mod), 4, seed):
                    continue
                items.append({"bid": bid, "chain": list(ch), "mod": mod, "timeout": 15 if tier == "quick" else 60})
    # three modifiers deep, hand-picked: a NON-unitary gate (the exponential of a self-adjoint gate) under controls / dagger and an
    # inverse power, in every order - "inverse = adjoint" short cuts are wrong exactly there
    if tier == "quick":
        for bid in ("num:X", "num:Z", "num:H", "num:Y"):
            for ch, mod in ((["exp", "c1"], "pow(-1)"), (["exp", "pow(-1)"], "c1"), (["exp", "dagger"], "pow(-1)"), (["exp", "c1"], "pow(2)"), (["exp", "c1"], "dagger")):
                items.append({"bid": bid, "chain": list(ch), "mod": mod, "timeout": 30})
    for name in SEQUENCES:
        items.append({"seq": name, "bid": f"seq:{name}", "chain": [], "mod": "sequence"})
    return items


def run(ctx):
    items = instances(ctx.tier, ctx.seed)
    if getattr(ctx, "only", None):
        items = [it for it in items if ctx.only in f"{it['bid']}|{'|'.join(it['chain'])}:{it['mod']}"]
    ctx.bounds = {
        "symbolic_bases": "every parametric built-in gate (all parameters symbolic), a generic 1-qubit custom gate (2-qubit in thorough), a 2-parameter custom gate",
        "symbolic_modifiers": "dagger, controlled(1), controlled(2) applied to every gate in the closure of the bases under chains of depth <= %d" % (1 if ctx.tier == "quick" else 2),
        "ground_bases": "every constant built-in gate, RX(0.3) RZ(-1.1) U3(0.3,0.7,1.1) PHASE(0.4) XX(0.5) GPi(0.4), constant custom K1, custom CG(0.3,0.9)",
        "ground_modifiers": GROUND_MODS,
        "total_qubits": "<= 4 (quick) / 5 (thorough) symbolic; <= 3 ground",
    }
    ctx.assume(
        "A-ENV-1 shim for symbolic runs",
        "Power/Exponential reject gates with free symbols (their __post_init__), so power/exp clauses have no symbolic input: ground instances only, numeric tolerance 1e-7",
        "ground instances whose sympy matrix power/exp does not finish in 40 s are reported inconclusive",
    )
    for it, out in pmap(work, items):
        ctx.merge(out)
    ctx.extra["explanation"] = (
        "Inductive step per modifier: for each gate g of a closure set and each modifier m, m(g).matrix is compared with the meaning of m "
        "applied to g.matrix (adjoint / identity-block-then-U / repeated product / q-th root / matrix exponential), plus num_qubits, params "
        "and replace_params commutation; symbolic instances are decided by z3 for all parameter values."
    )


def replay(data):
    install_numpy_sympy_shim()
    inp = data["inputs"]
    if inp.get("clause") == "sequence":
        bad = seq_bad(inp["seq"])
        return bool(bad), bad or "sequence ok"
    bid, chain, mod, clause = inp["bid"], inp["chain"], inp["mod"], inp["clause"]
    vals = {k: float(v) for k, v in (inp.get("values") or {}).items()}
    try:
        if clause == "ground":
            return ground_check(bid, chain, mod)
        g = build(bid, chain)
        mg = apply_mod(g, mod)
        if clause == "structure":
            want_n = g.num_qubits + _k(mod)
            return (mg.num_qubits != want_n or tuple(mg.params) != tuple(g.params)), f"{mg.num_qubits} {mg.params}"
        if clause in ("replace_params-eq", "replace_params-ground"):
            newp = tuple(sympy.Symbol(f"np{i}") for i in range(len(g.params))) if clause.endswith("eq") else tuple(0.21 + 0.37 * i for i in range(len(g.params)))
            try:
                return not (mg.replace_params(newp) == apply_mod(g.replace_params(newp), mod)), "structural inequality"
            except Exception as e:
                return True, f"raised {type(e).__name__}: {e}"
        if clause == "replace_params":
            newp = tuple(sympy.Symbol(f"np{i}") for i in range(len(g.params)))
            A = CS.np_matrix(mg.replace_params(newp).matrix, vals)
            B = CS.np_matrix(apply_mod(g.replace_params(newp), mod).matrix, vals)
            d = np.abs(A - B).max()
            return bool(d > 1e-6 * (1 + np.abs(B).max())), f"max|delta|={d:.3g}"
        U = CS.np_matrix(g.matrix, vals)
        W = CS.np_matrix(mg.matrix, vals)
        want = np_meaning(U, mod)
        if W.shape != want.shape:
            return True, f"shape {W.shape} vs {want.shape}"
        d = np.abs(W - want).max()
        return bool(d > 1e-6 * (1 + np.abs(want).max())), f"max|delta|={d:.3g} at {vals}"
    except Exception:
        import traceback

        return False, "replay raised: " + traceback.format_exc()[-500:]
