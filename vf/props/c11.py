"""C11 - operators and result artefacts survive dict, file and text round trips.

Solver-decided (E2, shadow values + path explorer):
  dict     convert_dict_to_op(convert_op_to_dict(op)) with every coefficient part symbolic. Real-typed coefficients
           take the `{"real": ...}` branch, complex-typed ones (a complex subclass whose parts are symbolic) the
           real/imag branch; the falsy-imaginary branch of convert_dict_to_op is a forked decision. Obligations per
           path: same strings and qubits, denoted matrix equal within (terms per string) x 1e-8, parts preserved
           exactly where nothing was merged or dropped, dictionary structure as documented, argument untouched.
Not decidable by this technique here (concrete text / C-level JSON / files): run as GROUND instances, counted apart:
  text     str(op) -> PauliTerm(str)/PauliSum(str) over a grid of coefficient shapes
  json     real JSON text and save/load files for operators and operator lists
  art      every other persisted artefact: save -> load -> equal
"""
import io
import itertools
import json as pyjson
import math
import os
import random
import tempfile

import numpy as np
import z3

from ..core import Result, pmap, stable_pick
from .. import symtrace as ST
from .. import pauli as PL

LEVEL = "model_checking"
BOUND = 4
DROP = 1e-8  # the library's zero tolerance (np.isclose(c, 0) with atol 1e-8)


class NF:
    """symbolic real that is NOT a float subclass: what a complex-typed coefficient hands out as `.imag`, so that
    the library's `1j * imag` reaches Python-level arithmetic instead of C-level float conversion."""

    __array_ufunc__ = None

    def __init__(self, sv):
        self.sv = sv

    def __bool__(self):
        return bool(self.sv != 0)

    def __rmul__(self, c):
        if isinstance(c, complex) and not ST.is_sym(c):
            return ST.CV(c.real * self.sv if c.real else 0, c.imag * self.sv if c.imag else 0)
        return c * self.sv

    __mul__ = __rmul__

    def __eq__(self, o):
        return self.sv == (o.sv if isinstance(o, NF) else o)

    def __hash__(self):
        return 17

    def __format__(self, spec):
        return "<sym>"


class CC(ST.CV):
    """complex-typed symbolic coefficient whose imaginary part is handed out as NF"""

    @property
    def imag(self):
        return NF(self.im) if isinstance(self.im, ST.SV) else self.im


def _patched():
    import numpy
    from orquestra.quantum.operators import _pauli_operators as PO

    return ST.patched((PO, "np", ST.NpProxy(numpy)))


def _coef(spec, names, cons):
    if isinstance(spec, str):
        if spec[0] == "c":
            re, im = z3.Real(spec + "_re"), z3.Real(spec + "_im")
            for z in (re, im):
                if str(z) not in names:
                    names[str(z)] = z
                    cons += [z <= BOUND, z >= -BOUND]
            return CC(ST.SV(re), ST.SV(im))
        if spec[0] == "i":  # complex-typed with imaginary part exactly 0 (number)
            re = z3.Real(spec + "_re")
            if str(re) not in names:
                names[str(re)] = re
                cons += [re <= BOUND, re >= -BOUND]
            return CC(ST.SV(re), 0.0)
        z = z3.Real(spec)
        if spec not in names:
            names[spec] = z
            cons += [z <= BOUND, z >= -BOUND]
        return ST.SV(z)
    if isinstance(spec, list):
        return complex(spec[0], spec[1])
    return spec


def _build(terms, names, cons, concrete=None):
    from orquestra.quantum.operators import PauliTerm, PauliSum

    def cf(s):
        if concrete is not None and isinstance(s, str):
            if s[0] == "c":
                return complex(concrete.get(s + "_re", 0.0), concrete.get(s + "_im", 0.0))
            if s[0] == "i":
                return complex(concrete.get(s + "_re", 0.0), 0.0)
            return float(concrete.get(s, 0.0))
        return _coef(s, names, cons)

    ts = [PauliTerm({int(q): l for q, l in ops.items()}, cf(c)) for ops, c in terms]
    return ts


def _parts(v):
    c = ST.CV.lift(v.sv if isinstance(v, NF) else v)
    return ST.zr_real(c.re.sv if isinstance(c.re, NF) else c.re), ST.zr_real(c.im.sv if isinstance(c.im, NF) else c.im)


def work(item):
    kind, p = item
    res = Result(f"{kind}|{p['label']}")
    from orquestra.quantum.operators import _io as IO, _pauli_operators as PO
    from orquestra.quantum import utils as UT
    from orquestra.quantum.measurements import measurements as MM, expectation_values as EV, parities as PA
    from orquestra.quantum.circuits import layouts as LY

    try:  # evidence only: a renamed private helper must not break the check
        res.fn(
            IO.convert_dict_to_op, IO.convert_op_to_dict, IO.save_operator, IO.load_operator, IO.save_operator_set, IO.load_operator_set,
            PO.PauliTerm.__repr__, PO.PauliSum.__repr__, PO._parse_operators_and_coefficient, PO._parse_complex, PO._parse_operator,
            PO.PauliTerm.from_iterable, PO.PauliSum.__add__, PO.PauliSum.simplify, UT.convert_array_to_dict, UT.convert_dict_to_array,
            MM.Measurements.save, MM.Measurements.load_from_file, EV.ExpectationValues.to_dict, EV.ExpectationValues.from_dict,
            PA.Parities.to_dict, PA.Parities.from_dict, UT.ValueEstimate.to_dict, UT.ValueEstimate.from_dict, UT.save_list, UT.load_list,
            UT.save_nmeas_estimate, UT.load_nmeas_estimate, LY.CircuitLayers.from_dict, LY.CircuitConnectivity.from_dict,
        )
    except AttributeError:
        pass
    try:
        if kind == "dict":
            res.d["cuts"].append("numpy proxy in _pauli_operators (isclose exact-real, forked); complex-typed symbolic coefficient = complex subclass with symbolic parts")
            with _patched():
                _w_dict(res, p)
        else:
            res.d["ground_instances"] += 1
            res.d["instances"] -= 1
            res.ob(1)
            bad = GROUND[kind](p)
            if bad:
                res.candidate(f"{kind}-roundtrip", bad[:400], dict(p, clause=f"{kind}-roundtrip", values={}), sub=f"{kind}-roundtrip")
            else:
                res.ob(0, 1, "ground-structure")
    except ST.Inconclusive as e:
        res.ob(1)
        res.inconc(str(e))
    return res.as_dict()


def _w_dict(res, p):
    from orquestra.quantum.operators import PauliSum, convert_dict_to_op, convert_op_to_dict

    names, cons = {}, []
    terms = p["terms"]
    as_term = p.get("as_term", False)
    records = []
    outcomes = set()

    def fn(ex):
        ts = _build(terms, names, cons)
        op = ts[0] if as_term else PauliSum(ts)
        before = [(dict(t.operations), t.coefficient) for t in op.terms]
        d = convert_op_to_dict(op)
        # dictionary structure: one entry per term, ops as {qubit, op}, coefficient parts are the term's own parts
        ok = isinstance(d, dict) and list(d) == ["terms"] and len(d["terms"]) == len(op.terms)
        claims = []
        if ok:
            for t, td in zip(op.terms, d["terms"]):
                ops = {(e["qubit"], e["op"]) for e in td["pauli_ops"]}
                ok = ok and ops == set(t.operations) and len(td["pauli_ops"]) == len(t.operations) and set(td) == {"pauli_ops", "coefficient"}
                cre, cim = _parts(t.coefficient)
                cd = td["coefficient"]
                ok = ok and set(cd) <= {"real", "imag"} and "real" in cd
                if not ok:
                    break
                dre = _parts(cd["real"])[0]
                claims.append(dre == cre)
                if "imag" in cd:
                    claims.append(_parts(cd["imag"])[0] == cim)
                else:
                    claims.append(cim == 0)
        records.append(("dictionary-form", "holds" if ok else "violated", None))
        if ok and claims:
            records.append(("dictionary-parts",) + ex.prove(z3.And(*claims)))
        after = [(dict(t.operations), t.coefficient) for t in op.terms]
        same = len(before) == len(after) and all(b[0] == a[0] and b[1] is a[1] for b, a in zip(before, after))
        records.append(("argument-unchanged", "holds" if same else "violated", None))
        op2 = convert_dict_to_op(d)
        if ST.poisoned([t.coefficient for t in op2.terms]):
            raise ST.Inconclusive("NaN poison: a symbolic value was concretised silently")
        cm1, cm2 = PL.cmap_of(op), PL.cmap_of(op2)
        mult = {}
        for t in op.terms:
            mult[PL.key(dict(t.operations))] = mult.get(PL.key(dict(t.operations)), 0) + 1
        cl = []
        for k in set(cm1) | set(cm2):
            a_re, a_im = _parts(cm1.get(k, 0))
            b_re, b_im = _parts(cm2.get(k, 0))
            tol = z3.RealVal(str(DROP * 1.000001 * max(1, mult.get(k, 1))))
            cl.append(z3.And(a_re - b_re <= tol, b_re - a_re <= tol, a_im - b_im <= tol, b_im - a_im <= tol))
        records.append(("same-denotation",) + ex.prove(z3.And(*cl) if cl else True))
        # exact preservation where nothing was merged or dropped
        if len(op2.terms) == len(op.terms) and all(v == 1 for v in mult.values()):
            outcomes.add("kept")
            by_key = {PL.key(dict(t.operations)): t for t in op2.terms}
            ex_cl = []
            okk = set(by_key) == set(cm1)
            for t in op.terms:
                t2 = by_key.get(PL.key(dict(t.operations)))
                if t2 is None:
                    okk = False
                    break
                a_re, a_im = _parts(t.coefficient)
                b_re, b_im = _parts(t2.coefficient)
                ex_cl.append(z3.And(a_re == b_re, a_im == b_im))
            records.append(("parts-preserved-exactly",) + (ex.prove(z3.And(*ex_cl)) if okk else ("violated", None)))
        else:
            outcomes.add("merged-or-dropped")
        return op2

    class _Base(list):
        def __iter__(self):
            return iter(cons)

    ex = ST.Explorer(base=_Base(), timeout_ms=8000, max_paths=400, logic="auto")
    outs = ex.run(fn)
    res.d["paths"] += ex.npaths
    res.d["solver_queries"] += ex.queries
    res.d["solver_s"] += ex.solver_s
    if names:
        res.nontrivial()
    else:
        res.d["ground_instances"] += 1
        res.d["instances"] -= 1
    for o in outs:
        if o[0] == "exc":
            res.ob(1)
            vals = {k: ST.model_value(o[2], z) for k, z in names.items()} if len(o) > 2 and o[2] is not None else {}
            res.candidate("roundtrip-raises", f"{p['label']} raised {type(o[1]).__name__}: {str(o[1])[:150]}", dict(p, clause="roundtrip-raises", values=vals), sub="roundtrip-raises")
    for clause, v, m in records:
        res.ob(1)
        if v == "holds":
            res.ob(0, 1, "A:z3")
        elif v == "violated":
            vals = {k: ST.model_value(m, z) for k, z in names.items()} if m is not None else {}
            res.candidate(clause, f"{p['label']}: {clause} fails", dict(p, clause=clause, values=vals), sub=clause)
        else:
            res.inconc("z3 unknown", clause)
    if p.get("expect_drop"):
        res.d["vacuity_twins"] += 1
        if {"kept", "merged-or-dropped"} <= outcomes or (len(terms) > len({tuple(sorted(t[0].items())) for t in terms}) and "merged-or-dropped" in outcomes):
            res.d["vacuity_ok"] += 1
        else:
            res.herr(f"dict harness reached only {sorted(outcomes)}")
    res.sample({"operator": p["label"], "paths": ex.npaths})


# ---------------------------------------------------------------------------
# ground batteries


def _den_close(a, b, tol=1e-8):
    cm1, cm2 = PL.cmap_of(a), PL.cmap_of(b)
    for k in set(cm1) | set(cm2):
        if abs(complex(cm1.get(k, 0)) - complex(cm2.get(k, 0))) > tol:
            return f"string {sorted(k)}: {cm1.get(k, 0)} vs {cm2.get(k, 0)}"
    return None


def _exact_terms(a, b):
    """same terms: strings, qubits, real and imaginary parts exactly (order-insensitive)."""

    def sig(op):
        out = []
        for t in op.terms:
            c = complex(t.coefficient)
            out.append((tuple(sorted(t.operations)), c.real, c.imag))
        return sorted(out, key=repr)

    sa, sb = sig(a), sig(b)
    return None if sa == sb else f"terms differ: {sa} vs {sb}"


def _mk_op(spec):
    from orquestra.quantum.operators import PauliSum, PauliTerm

    ts = [PauliTerm({int(q): l for q, l in ops.items()}, (complex(*c) if isinstance(c, list) else c)) for ops, c in spec["terms"]]
    return ts[0] if spec.get("as_term") else PauliSum(ts)


def g_json(p):
    """real JSON text + save/load files, single operators and operator lists"""
    from orquestra.quantum.operators import convert_dict_to_op, convert_op_to_dict, save_operator, load_operator, save_operator_set, load_operator_set, PauliSum

    op = _mk_op(p)
    simp = op if p.get("as_term") else op.simplify()
    if p.get("as_term") and abs(complex(op.coefficient)) <= 1.01e-8:
        simp = PauliSum()  # a term inside the zero tolerance is not a simplified operator: exactness is not demanded of it
    d = convert_op_to_dict(op)
    back = convert_dict_to_op(pyjson.loads(pyjson.dumps(d)))
    bad = _den_close(op, back)
    if bad:
        return f"JSON text round trip of {op}: {bad}"
    bad = _exact_terms(simp, convert_dict_to_op(pyjson.loads(pyjson.dumps(convert_op_to_dict(simp)))))
    if bad:
        return f"JSON text round trip of simplified {simp}: {bad}"
    tmp = tempfile.mkdtemp(prefix="vf-c11-")
    try:
        f = os.path.join(tmp, "op.json")
        save_operator(simp, f)
        for how in ("path", "file"):
            if how == "path":
                got = load_operator(f)
            else:
                with open(f) as fh:
                    got = load_operator(fh)
            bad = _exact_terms(simp, got)
            if bad:
                return f"save_operator/load_operator({how}) of {simp}: {bad}"
        as_sum = simp if isinstance(simp, PauliSum) else PauliSum([simp])
        ops = [simp, PauliSum(), as_sum * 2.0]
        if as_sum.terms:
            # two operators of one list that are nearly, but not exactly, equal (3e-7 apart in one coefficient): each
            # must come back as itself
            first = as_sum.terms[0]
            near = PauliSum([first.copy(new_coefficient=first.coefficient + 3e-7)] + [t.copy() for t in as_sum.terms[1:]])
            ops += [near, as_sum]
        f2 = os.path.join(tmp, "ops.json")
        save_operator_set(ops, f2)
        for how in ("path", "file"):
            if how == "path":
                got = load_operator_set(f2)
            else:
                with open(f2) as fh:
                    got = load_operator_set(fh)
            if len(got) != len(ops):
                return f"operator set: {len(got)} operators loaded for {len(ops)} saved"
            for a, b in zip(ops, got):
                bad = _exact_terms(a if isinstance(a, PauliSum) else PauliSum([a]), b)
                if bad:
                    return f"save_operator_set/load_operator_set({how}): {bad}"
    finally:
        import shutil

        shutil.rmtree(tmp, ignore_errors=True)
    return None


def g_text(p):
    """str(op) parsed back denotes the same matrix"""
    from orquestra.quantum.operators import PauliSum, PauliTerm

    op = _mk_op(p)
    text = str(op)
    try:
        back = PauliTerm(text) if p.get("as_term") else PauliSum(text)
    except Exception as e:
        return f"printed form {text!r} is rejected by the parser: {type(e).__name__}: {e}"
    bad = _den_close(op, back)
    if bad:
        return f"printed form {text!r} parses to a different operator: {bad}"
    if p.get("as_term"):
        try:
            back2 = PauliSum(text)
        except Exception as e:
            return f"printed term {text!r} is rejected by PauliSum's parser: {type(e).__name__}: {e}"
        bad = _den_close(op, back2)
        if bad:
            return f"printed term {text!r} parses (as a sum) to a different operator: {bad}"
    return None


def _arr_eq(a, b):
    if a is None or b is None:
        return a is None and b is None
    a, b = np.asarray(a), np.asarray(b)
    if a.size == 0 and b.size == 0:
        return True  # JSON lists cannot carry the shape of an empty array: not demanded
    return a.shape == b.shape and bool(np.array_equal(a, b))


def _frames_eq(a, b):
    if a is None or b is None:
        return a is None and b is None
    return len(a) == len(b) and all(_arr_eq(x, y) for x, y in zip(a, b))


def g_art(p):
    """save -> load -> equal for the other persisted artefacts (path and open file where the API takes both)"""
    from orquestra.quantum.measurements import Measurements, ExpectationValues, Parities, save_expectation_values, load_expectation_values, save_parities, load_parities
    from orquestra.quantum import utils as UT
    from orquestra.quantum.circuits import layouts as LY

    kind = p["artefact"]
    tmp = tempfile.mkdtemp(prefix="vf-c11-")
    f = os.path.join(tmp, "a.json")

    def both(load):
        yield "path", load(f)
        with open(f) as fh:
            yield "file", load(fh)

    try:
        if kind == "measurements":
            m = Measurements([tuple(b) for b in p["bitstrings"]])
            m.save(f)
            for how, got in both(Measurements.load_from_file):
                if list(got.bitstrings) != list(m.bitstrings) or not all(isinstance(b, tuple) for b in got.bitstrings):
                    return f"Measurements {p['bitstrings']} loaded ({how}) as {got.bitstrings}"
        elif kind == "expectation_values":
            vals = np.array([complex(*v) for v in p["vals"]]) if p["complex"] else np.array([v[0] for v in p["vals"]], dtype=float)
            dt = p.get("dtype")
            if dt:  # narrower numpy dtypes (values chosen exactly representable in them)
                vals = np.array([complex(0.5 * i, -0.25 * i) for i in range(len(vals))], dtype=dt) if p["complex"] else np.array([0.5 * i - 1 for i in range(len(vals))], dtype=dt)
            n = len(vals)

            def frame(k):
                base = np.arange(n * n, dtype=float).reshape(n, n) * 0.25 + k
                fr = base + 1j * (base.T - 0.5) if p["complex"] else base
                return fr.astype(dt) if dt else fr

            corr = None if p["corr_frames"] is None else [frame(k) for k in range(p["corr_frames"])]
            cov = None if p["cov_frames"] is None else [frame(k + 7) * 0.5 for k in range(p["cov_frames"])]
            ev = ExpectationValues(vals, corr, cov)
            save_expectation_values(ev, f)
            for how, got in both(load_expectation_values):
                if not _arr_eq(got.values, vals):
                    return f"expectation values {vals} loaded ({how}) as {got.values}"
                if not _frames_eq(got.correlations, corr):
                    return f"correlations with {p['corr_frames']} frame(s) loaded ({how}) as {got.correlations!r}"
                if not _frames_eq(got.estimator_covariances, cov):
                    return f"covariances with {p['cov_frames']} frame(s) loaded ({how}) as {got.estimator_covariances!r}"
        elif kind == "parities":
            vals = np.array(p["vals"], dtype=int).reshape(-1, 2)
            n = len(vals)
            corr = None if p["corr_frames"] is None else [np.arange(n * n * 2).reshape(n, n, 2) + k for k in range(p["corr_frames"])]
            save_parities(Parities(vals, corr), f)
            for how, got in both(load_parities):
                if not _arr_eq(got.values, vals) or not _frames_eq(got.correlations, corr):
                    return f"parities {vals.tolist()} / {p['corr_frames']} frame(s) loaded ({how}) as {got.values!r} / {got.correlations!r}"
        elif kind == "value_estimate":
            v = UT.ValueEstimate(np.float64(p["value"]) if p.get("numpy") else p["value"], (np.float64(p["precision"]) if p.get("numpy") and p["precision"] is not None else p["precision"]))
            UT.save_value_estimate(v, f)
            for how, got in both(UT.load_value_estimate):
                if not (got == v and float(got) == float(v) and got.precision == v.precision):
                    return f"ValueEstimate({p['value']}, {p['precision']}) loaded ({how}) as {got!r} precision {got.precision!r}"
        elif kind == "list":
            UT.save_list(p["list"], f)
            for how, got in both(UT.load_list):
                if got != p["list"]:
                    return f"list {p['list']} loaded ({how}) as {got}"
        elif kind == "layers":
            layers = [[tuple(x) for x in layer] for layer in p["layers"]]
            LY.save_circuit_layers(LY.CircuitLayers(layers), f)
            for how, got in both(LY.load_circuit_layers):
                if got.layers != layers:
                    return f"layers {layers} loaded ({how}) as {got.layers}"
        elif kind == "connectivity":
            conn = [tuple(x) for x in p["connectivity"]]
            LY.save_circuit_connectivity(LY.CircuitConnectivity(conn), f)
            for how, got in both(LY.load_circuit_connectivity):
                if got.connectivity != conn:
                    return f"connectivity {conn} loaded ({how}) as {got.connectivity}"
        elif kind == "ordering":
            LY.save_circuit_ordering(p["ordering"], f)
            for how, got in both(LY.load_circuit_ordering):
                if got != p["ordering"]:
                    return f"ordering {p['ordering']} loaded ({how}) as {got}"
        elif kind == "nmeas":
            fm = None if p["frame_meas"] is None else np.array(p["frame_meas"], dtype=float)
            UT.save_nmeas_estimate(p["nmeas"], p["nterms"], f, fm)
            try:
                K, nt, got = UT.load_nmeas_estimate(f)
            except Exception as e:
                return f"nmeas estimate saved with frame_meas={p['frame_meas']} cannot be loaded: {type(e).__name__}: {e}"
            if K != p["nmeas"] or nt != p["nterms"] or not _arr_eq(got, fm):
                return f"nmeas estimate ({p['nmeas']}, {p['nterms']}, {p['frame_meas']}) loaded as ({K}, {nt}, {got})"
        else:
            raise ValueError(kind)
    finally:
        import shutil

        shutil.rmtree(tmp, ignore_errors=True)
    return None


GROUND = {"json": g_json, "text": g_text, "art": g_art}


# ---------------------------------------------------------------------------


STRINGS = [{}, {"0": "X"}, {"1": "Z"}, {"0": "Y", "2": "X"}, {"12": "Z", "3": "Y"}, {"0": "Z", "1": "Z", "2": "Z"}, {"105": "X"}]

COEFFS = [
    1, -1, 2, 0, 0.5, -0.5, 1.5, -2.25, 0.1, 1e-5, -1e-5, 1e-9, 3e-7, 123456.789, -1e14, 9.99e14, 1e-12, 5e-324, -0.0, 0.30000000000000004,
    [0.0, 1.0], [0.0, -1.0], [0.0, 0.5], [1.0, 1.0], [1.0, -1.0], [-1.5, 2.5], [-1.5, -2.5], [0.5, 0.0], [-0.0, 2.0], [0.0, -0.0], [1e-5, 1e-5],
    [1e-7, -3e-9], [2.0, 1e-12], [123456.789, -0.001], [-1e14, 1e14], [0.1, 0.2], [3.0, 0.0], [0.0, 1e-5], [0.0, 2e10],
]


def instances(tier, seed):
    rng = random.Random(seed * 13 + 11)
    items = []

    def add_dict(terms, label, **kw):
        items.append(("dict", dict(terms=terms, label=label, **kw)))

    S = STRINGS
    # symbolic dict-level round trips
    for i, s in enumerate(S[:6] if tier == "quick" else S):
        add_dict([[s, "c0"]], f"term c0*{s}", as_term=True)
        add_dict([[s, "r0"]], f"term r0*{s} (real-typed)", as_term=True)
        add_dict([[s, "i0"]], f"term i0*{s} (complex-typed, imaginary part 0)", as_term=True)
        add_dict([[s, "c0"]], f"sum [c0*{s}]", expect_drop=True)
    sums = [
        [[S[1], "c0"], [S[2], "c1"]], [[S[1], "r0"], [S[2], "c1"]], [[S[0], "c0"], [S[3], "r1"]], [[S[1], "c0"], [S[1], "c1"]],
        [[S[1], "r0"], [S[1], "c1"]], [[S[4], "c0"], [S[0], "r1"], [S[4], "c2"]], [[S[1], "c0"], [S[2], "c1"], [S[5], "c2"]],
        [[S[3], "r0"], [S[3], "r1"]], [[S[0], "c0"], [S[0], "r1"]], [[S[1], 1.5], [S[2], "c1"], [S[1], [0.0, -2.0]]], [[S[6], "i0"], [S[2], "r1"]],
    ]
    for t in sums if tier == "thorough" else sums[:8]:
        add_dict(t, f"sum {[[s, c] for s, c in t]}", expect_drop=len(t) <= 2)
    add_dict([], "empty sum")
    # ground: text / JSON
    for si, s in enumerate(S):
        for ci, c in enumerate(COEFFS):
            if tier == "quick" and not (si in (0, 4) or stable_pick((si, ci), 3, seed)):
                continue
            for as_term in (True, False):
                spec = {"terms": [[s, c]], "as_term": as_term, "label": f"{c}*{s} as {'term' if as_term else 'sum'}"}
                items.append(("text", spec))
                if as_term or ci % 3 == 0:
                    items.append(("json", spec))
    for k in range(25 if tier == "quick" else 150):
        n = rng.randint(2, 4)
        terms = [[rng.choice(S), rng.choice(COEFFS)] for _ in range(n)]
        spec = {"terms": terms, "label": f"random sum #{k}: {terms}"}
        items.append(("text", spec))
        items.append(("json", spec))
    items.append(("text", {"terms": [], "label": "empty sum"}))
    items.append(("json", {"terms": [], "label": "empty sum"}))
    # ground: artefacts
    A = lambda **kw: items.append(("art", dict(kw, label=f"{kw['artefact']} {({k: v for k, v in kw.items() if k != 'artefact'})}"[:160])))  # noqa: E731
    for bs in ([], [[0]], [[1, 0, 1]], [[0, 1], [1, 1], [0, 1]], [[1] * 12, [0] * 12]):
        A(artefact="measurements", bitstrings=bs)
    for cplx in (False, True):
        for vals in ([], [[0.5, 0.25]], [[1.0, -2.0], [0.0, 0.0], [-3.5, 1e-9]]):
            for cf, vf_ in ((None, None), (0, 0), (1, None), (None, 1), (1, 1), (3, 2)):
                A(artefact="expectation_values", vals=vals, complex=cplx, corr_frames=cf, cov_frames=vf_)
    for dt, cplx in (("complex64", True), ("float32", False), ("int64", False), ("float16", False)):
        for cf, vf_ in ((None, None), (1, 1), (2, None)):
            A(artefact="expectation_values", vals=[[0, 0], [0, 0], [0, 0]], complex=cplx, corr_frames=cf, cov_frames=vf_, dtype=dt)
    for vals in ([], [[3, 1]], [[3, 1], [0, 4], [2, 2]]):
        for cf in (None, 0, 1, 2):
            A(artefact="parities", vals=vals, corr_frames=cf)
    for v, pr in ((1.5, None), (1.5, 0.1), (-2.0, 0.0), (0.0, None), (1e-12, 1e-15), (3, 2)):
        for npy in (False, True):
            A(artefact="value_estimate", value=v, precision=pr, numpy=npy)
    for lst in ([], [1, 2, 3], [0.5, -1e-9, 3], [[1, 2], [3]], ["a", None, True]):
        A(artefact="list", list=lst)
    for layers in ([], [[]], [[[0, 1]]], [[[0, 1], [2, 3]], [[1, 2]]], [[[0, 1, 2]], [], [[3, 4]]]):
        A(artefact="layers", layers=layers)
    for conn in ([], [[0, 1]], [[0, 1], [1, 2], [2, 0]], [[0, 1, 2]]):
        A(artefact="connectivity", connectivity=conn)
    for o in ([], [0], [2, 0, 1], [5, 3, 4, 1]):
        A(artefact="ordering", ordering=o)
    for fm in (None, [], [10.0], [1.5, 2.5, 3.0]):
        A(artefact="nmeas", nmeas=123.5, nterms=3, frame_meas=fm)
    return items


def run(ctx):
    items = instances(ctx.tier, ctx.seed)
    if getattr(ctx, "only", None):
        items = [it for it in items if ctx.only in it[1]["label"] or ctx.only == it[0]]
    ctx.bounds = {
        "dict_symbolic": "terms and sums of <= 3 terms over 7 Pauli strings (constant, gaps, multi-digit qubit indices) incl. duplicate strings; every coefficient part a symbolic real in [-4,4]; real-typed, complex-typed and complex-typed-with-zero-imaginary coefficients",
        "text_ground": f"{len(COEFFS)} coefficient shapes (ints, floats incl. exponent forms, tiny, negative zero, complex with every sign pattern, purely imaginary) x 7 strings as term and as sum; seeded random sums of 2-4 terms",
        "json_ground": "JSON text via json.dumps/loads, save_operator/load_operator and operator sets via path and open file",
        "artefacts_ground": "measurements, expectation values (real/complex, None/0/1/several frames), parities, value estimates, lists, layers, connectivity, ordering, nmeas estimates",
    }
    ctx.assume(
        "floats exact reals in the symbolic dict-level runs", "only the dict-level clause is decided by the solver; text, JSON, file and artefact clauses are ground instances (concrete text, C-level JSON, file I/O cannot carry symbolic values)",
    )
    for it, out in pmap(work, items):
        ctx.merge(out)
    ctx.extra["explanation"] = (
        "convert_op_to_dict / convert_dict_to_op run on operators whose coefficient parts are z3 reals (both coefficient type branches and the "
        "falsy-imaginary branch forked); z3 proves per path that strings, qubits and parts survive and the denoted matrix is unchanged within the "
        "library's zero tolerance. Text, JSON, file and artefact round trips are executed concretely and counted as ground instances."
    )


def replay(data):
    inp = data["inputs"]
    clause = inp["clause"]
    p = {k: v for k, v in inp.items() if k not in ("clause", "values")}
    vals = {k: float(v) for k, v in (inp.get("values") or {}).items()}
    try:
        for kind in GROUND:
            if clause == f"{kind}-roundtrip":
                bad = GROUND[kind](p)
                return bool(bad), bad or "ok"
        from orquestra.quantum.operators import PauliSum, convert_dict_to_op, convert_op_to_dict

        ts = _build(p["terms"], {}, [], concrete=vals)
        op = ts[0] if p.get("as_term") else PauliSum(ts)
        try:
            d = convert_op_to_dict(op)
            op2 = convert_dict_to_op(d)
        except Exception as e:
            return clause == "roundtrip-raises", f"raised {type(e).__name__}: {e}"
        if clause == "roundtrip-raises":
            return False, "did not raise"
        if clause in ("dictionary-form", "dictionary-parts"):
            for t, td in zip(op.terms, d.get("terms", [])):
                c = complex(t.coefficient)
                cd = td.get("coefficient", {})
                ops = {(e["qubit"], e["op"]) for e in td.get("pauli_ops", [])}
                if ops != set(t.operations) or cd.get("real") != c.real or cd.get("imag", 0.0) != c.imag or not set(cd) <= {"real", "imag"}:
                    return True, f"term {t} -> {td}"
            return len(d.get("terms", [])) != len(op.terms) or list(d) != ["terms"], f"dictionary {d}"
        if clause == "argument-unchanged":
            ts2 = _build(p["terms"], {}, [], concrete=vals)
            return [(dict(t.operations), t.coefficient) for t in ts2] != [(dict(t.operations), t.coefficient) for t in (op.terms)], "argument terms compared with a fresh build"
        if clause == "parts-preserved-exactly":
            bad = _exact_terms(op if not p.get("as_term") else PauliSum([op]), op2)
            return bool(bad), bad or "terms identical"
        mult = max(1, len(p["terms"]))
        bad = _den_close(op, op2, tol=DROP * mult * 1.01)
        return bool(bad), bad or f"denotations agree at {vals}"
    except Exception:
        import traceback

        return False, "replay raised: " + traceback.format_exc()[-600:]
