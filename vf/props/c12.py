"""C12 - a wavefunction object is normalised after every operation on it. E2 + bit-vector kernel."""
import itertools
import json
import os
import random
import tempfile

import numpy as np
import sympy
import z3

from ..core import Result, pmap, stable_pick
from .. import symtrace as ST

LEVEL = "model_checking"
BAND = z3.RealVal(str(1e-8 + 1e-5)) if False else None


def _band():
    from fractions import Fraction

    return z3.RealVal(str(Fraction(1e-8) + Fraction(1e-5)))


def _patched():
    import numpy
    from orquestra.quantum import wavefunction as WF

    return ST.patched((WF, "np", ST.NpProxy(numpy)), (WF, "float", ST.float_shadow), (WF, "complex", ST.complex_shadow))


def _norm2(parts):
    return sum(r * r + i * i for r, i in parts)


def work(item):
    kind, p = item
    res = Result(f"{kind}|{p['label']}")
    from orquestra.quantum import wavefunction as WF

    try:  # evidence only: a renamed private helper must not break the check
        res.fn(WF.Wavefunction.__init__, WF.Wavefunction._check_normalization, WF.Wavefunction.__setitem__, WF.Wavefunction.bind, WF.Wavefunction.get_probabilities, WF.Wavefunction.dicke_state, WF._get_next_number_with_same_hamming_weight, WF._most_significant_set_bit, WF.flip_amplitudes, WF._get_ordering, WF.flip_wavefunction)
    except AttributeError:
        pass
    res.d["cuts"].append("numpy proxy in wavefunction.py: asarray(dtype=complex) keeps symbolic amplitudes in an object array; abs/sum/isclose exact-real")
    try:
        {"hist": _w_history, "symmode": _w_symmode, "symprob": _w_symprob, "bits": _w_bits, "dicke": _w_dicke, "flip": _w_flip, "io": _w_io, "len": _w_len}[kind](res, p)
    except ST.Inconclusive as e:
        res.ob(1)
        res.inconc(str(e))
    return res.as_dict()


def _w_history(res, p):
    """Numeric mode: every amplitude and every assigned value symbolic; histories of assignments."""
    from orquestra.quantum.wavefunction import Wavefunction

    n, hist = p["n"], p["history"]
    names = {}
    for i in range(n):
        names[f"a{i}_re"], names[f"a{i}_im"] = z3.Real(f"a{i}_re"), z3.Real(f"a{i}_im")
    for j, _ in enumerate(hist):
        names[f"v{j}_re"], names[f"v{j}_im"] = z3.Real(f"v{j}_re"), z3.Real(f"v{j}_im")
    base = [z3.And(z <= 2, z >= -2) for z in names.values()]
    records = []
    res.nontrivial()
    band = _band()

    # claims leave a relative margin of 1e-6 around the band edge: exactly on the edge the float
    # evaluation of isclose and the exact-real model may legitimately disagree
    hi, lo = band * z3.RealVal("1000001/1000000"), band * z3.RealVal("999999/1000000")

    def inside(parts):
        s = _norm2(parts)
        return z3.And(s - 1 <= hi, 1 - s <= hi)

    def outside(parts):
        s = _norm2(parts)
        return z3.Or(s - 1 >= lo, 1 - s >= lo)

    outcomes = set()

    def fn(ex):
        amps = [ST.CV(ST.SV(names[f"a{i}_re"]), ST.SV(names[f"a{i}_im"])) for i in range(n)]
        cur = [(names[f"a{i}_re"], names[f"a{i}_im"]) for i in range(n)]
        try:
            wf = Wavefunction(list(amps))
        except ValueError:
            records.append(("constructor-rejects-only-unnormalised",) + ex.prove(outside(cur)))
            outcomes.add("ctor-reject")
            return "rejected"
        outcomes.add("ctor-accept")
        records.append(("constructor-accepts-only-normalised",) + ex.prove(inside(cur)))
        for j, idx in enumerate(hist):
            v = ST.CV(ST.SV(names[f"v{j}_re"]), ST.SV(names[f"v{j}_im"]))
            before_objs = list(wf._amplitude_vector)
            try:
                wf[idx] = v
            except ValueError:
                outcomes.add("set-reject")
                after = list(wf._amplitude_vector)
                records.append(("rejected-assignment-leaves-object-unchanged",) + ex.prove(z3.BoolVal(len(after) == len(before_objs) and all(a is b for a, b in zip(after, before_objs)))))
                trial = list(cur)
                trial[idx] = (names[f"v{j}_re"], names[f"v{j}_im"])
                records.append(("assignment-rejected-only-if-it-breaks-normalisation",) + ex.prove(outside(trial)))
                continue
            outcomes.add("set-accept")
            cur[idx] = (names[f"v{j}_re"], names[f"v{j}_im"])
            stored = [ST.CV.lift(x) for x in wf._amplitude_vector]
            same = z3.And(*[z3.And(ST.zr_real(s.re) == c[0], ST.zr_real(s.im) == c[1]) for s, c in zip(stored, cur)])
            records.append(("accepted-assignment-stores-value",) + ex.prove(same))
            records.append(("normalised-after-accepted-assignment",) + ex.prove(inside(cur)))
        probs = wf.get_probabilities()
        if ST.poisoned(probs):
            raise ST.Inconclusive("NaN poison")
        records.append(("probabilities-are-squared-magnitudes",) + ex.prove(z3.And(*[ST.zr_real(pr) == c[0] * c[0] + c[1] * c[1] for pr, c in zip(probs, cur)])))
        stored = [ST.CV.lift(x) for x in wf._amplitude_vector]
        records.append(("reading-probabilities-leaves-state-unchanged",) + ex.prove(z3.And(*[z3.And(ST.zr_real(s_.re) == c[0], ST.zr_real(s_.im) == c[1]) for s_, c in zip(stored, cur)])))
        s = sum(ST.zr_real(pr) for pr in probs)
        records.append(("probabilities-sum-to-one",) + ex.prove(z3.And(s - 1 <= hi, 1 - s <= hi)))
        return "ok"

    with _patched():
        ex = ST.Explorer(base=base, timeout_ms=10000, logic="smt", max_paths=300)
        outs = ex.run(fn)
    res.d["paths"] += ex.npaths
    res.d["solver_queries"] += ex.queries
    res.d["solver_s"] += ex.solver_s
    for o in outs:
        if o[0] == "exc":
            res.ob(1)
            vals = {k: ST.model_value(o[2], z) for k, z in names.items()} if len(o) > 2 and o[2] is not None else {}
            res.candidate("raises-other", f"raised {type(o[1]).__name__}: {o[1]}", dict(p, clause="raises-other", values=vals), sub="raises-other")
    res.d["vacuity_twins"] += 1
    need = {"ctor-reject", "ctor-accept"} | ({"set-reject", "set-accept"} if hist else set())
    if need <= outcomes:
        res.d["vacuity_ok"] += 1
    else:
        res.herr(f"history harness reached only {sorted(outcomes)}")
    for clause, v, m in records:
        res.ob(1)
        if v == "holds":
            res.ob(0, 1, "A:z3")
        elif v == "violated":
            vals = {k: ST.model_value(m, z) for k, z in names.items()} if m is not None else {}
            res.candidate(clause, f"{p['label']}: {clause} fails", dict(p, clause=clause, values=vals), sub=clause)
        else:
            res.inconc("z3 unknown", clause)
    res.sample({"length": n, "history": [f"wf[{i}] = v{j}" for j, i in enumerate(hist)], "paths": ex.npaths})


def symmode_cases():
    """Symbolic mode (sympy Matrix with free symbols): numeric entries are concrete, so this is a ground table."""
    a, b = sympy.Symbol("a"), sympy.Symbol("b")
    h = 0.5
    return [
        ("ctor numeric part already above 1", lambda W: W([a, 0.9, 0.9, 0.1]), "raise"),
        ("ctor numeric part below 1", lambda W: W([a, h, h, h]), "ok"),
        ("assign last symbol, total 0.76", lambda W: _assign(W([a, h, h, h]), 0, 0.1), "raise-unchanged"),
        ("assign last symbol, total 1", lambda W: _assign(W([a, h, h, h]), 0, 0.5), "ok"),
        ("assign number keeping a symbol, partial 0.75", lambda W: _assign(W([a, b, h, h]), 1, 0.5), "ok"),
        ("assign number keeping a symbol, partial 1.06", lambda W: _assign(W([a, b, h, h]), 1, 0.75), "raise-unchanged"),
        ("assign number keeping a symbol, partial above 1", lambda W: _assign(W([a, b, 0.7, 0.7]), 1, 0.5), "raise-unchanged"),
        ("assign symbol over number", lambda W: _assign(W([a, h, h, h]), 1, b), "ok"),
        ("two assignments ending unnormalised", lambda W: _assign(_assign(W([a, b, h, h]), 0, 0.5), 1, 0.1), "raise-unchanged"),
        ("two assignments ending normalised", lambda W: _assign(_assign(W([a, b, h, h]), 0, 0.5), 1, -0.5), "ok"),
        ("bind to normalised", lambda W: W([a, h, h, h]).bind({a: 0.5}), "ok-normalised"),
        ("bind to unnormalised", lambda W: W([a, h, h, h]).bind({a: 0.1}), "raise"),
        ("bind partially", lambda W: W([a, b, h, h]).bind({a: 0.5}), "ok"),
        ("bind partially above 1", lambda W: W([a, b, 0.7, 0.7]).bind({a: 0.5}), "raise"),
        ("bind then assign to unnormalised", lambda W: _assign(W([a, b, h, h]).bind({a: 0.5}), 1, 0.3), "raise-unchanged"),
        ("bind complex value", lambda W: W([a, h, h, h]).bind({a: 0.5j}), "ok-normalised"),
        # numeric entries that are imaginary, complex or exact sympy constants count towards the total like any number
        ("ctor imaginary numeric part above 1", lambda W: W([a, 1j, 1j, 0]), "raise"),
        ("ctor complex numeric part above 1", lambda W: W([a, 0.6 + 0.8j, 0.3, 0]), "raise"),
        ("ctor complex numeric part below 1", lambda W: W([a, 0.3 + 0.4j, 0.5j, 0]), "ok"),
        ("ctor exact constants above 1", lambda W: W([a, sympy.sqrt(2) / 2, sympy.sqrt(2) / 2, sympy.Rational(1, 2)]), "raise"),
        ("ctor exact constants below 1", lambda W: W([a, sympy.pi / 4, sympy.I / 2, 0]), "ok"),
        ("assign imaginary number keeping a symbol, partial 1.31", lambda W: _assign(W([a, 0.5, 0.5j, b]), 3, 0.9j), "raise-unchanged"),
        ("assign imaginary number keeping a symbol, partial 0.75", lambda W: _assign(W([a, 0.5, 0.5j, b]), 3, 0.5j), "ok"),
        ("bind imaginary partially above 1", lambda W: W([a, b, h, 0]).bind({a: 0.9j}), "raise"),
        ("bind exact constant partially above 1", lambda W: W([a, b, h, h]).bind({a: sympy.sqrt(3) / 2}), "raise"),
        # histories in which a NEW symbol enters through an assignment and is bound later
        ("assign a new symbol, then bind it to unnormalised", lambda W: _assign(W([a, h, h, h]), 0, b).bind({b: 2.0}), "raise"),
        ("assign a new symbol, then bind it to normalised", lambda W: _assign(W([a, h, h, h]), 0, b).bind({b: 0.5}), "ok-normalised"),
        ("assign a new symbol over a number, bind both", lambda W: _assign(W([a, h, h, h]), 1, b).bind({a: 0.5, b: -0.5}), "ok-normalised"),
        ("assign a new symbol over a number, bind both to unnormalised", lambda W: _assign(W([a, h, h, h]), 1, b).bind({a: 0.5, b: 0.9}), "raise"),
        ("assign a new symbol, bind the old one partially above 1", lambda W: _assign(W([a, 0.7, 0.7, 0.0]), 3, b).bind({a: 0.5}), "raise"),
        ("bind one symbol to another, then bind that", lambda W: W([a, h, h, h]).bind({a: b}).bind({b: 0.5}), "ok-normalised"),
        ("bind one symbol to another, then bind that to unnormalised", lambda W: W([a, h, h, h]).bind({a: b}).bind({b: 0.75}), "raise"),
    ]


SYMPROB_CASES = {
    "symbols and imaginary numbers": lambda a, b: [a, 0.5j, b, 0.5],
    "complex combinations of symbols": lambda a, b: [(a + sympy.I * b) / 2, sympy.I * a / 2, (1 - sympy.I) * b / 4, 0.25],
    "phase factors": lambda a, b: [sympy.exp(sympy.I * a) / 2, sympy.exp(-sympy.I * b) * sympy.I / 2, sympy.cos(a) / 2 + sympy.I * sympy.sin(a) / 2, 0.5],
    "two amplitudes": lambda a, b: [sympy.I * sympy.sin(a / 2), sympy.cos(a / 2)],
    "after binding one symbol to an imaginary number": lambda a, b: ("bind", [a, b, 0.5, 0.5], {a: 0.5j}),
    "after assigning an imaginary number": lambda a, b: ("assign", [a, b, 0.5, 0.25], 3, 0.5j),
}


def _symprob_wf(case):
    from orquestra.quantum.wavefunction import Wavefunction

    a, b = sympy.Symbol("a"), sympy.Symbol("b")
    spec = SYMPROB_CASES[case](a, b)
    if isinstance(spec, tuple) and spec[0] == "bind":
        return Wavefunction(spec[1]).bind(spec[2])
    if isinstance(spec, tuple) and spec[0] == "assign":
        wf = Wavefunction(spec[1])
        wf[spec[2]] = spec[3]
        return wf
    return Wavefunction(spec)


def _w_symprob(res, p):
    """Symbolic mode: get_probabilities() of a wavefunction with free (real) symbols and non-real entries equals |amplitude|^2
    entry by entry, for ALL values of the symbols (z3 over circle points / reals)."""
    from ..front import install_numpy_sympy_shim
    from ..solve import Prover, first_violation

    install_numpy_sympy_shim()
    wf = _symprob_wf(p["case"])
    res.nontrivial()
    amps = list(wf.amplitudes)
    probs = list(wf.get_probabilities())
    res.ob(1)
    if len(probs) != len(amps):
        res.candidate("probabilities-are-squared-magnitudes", f"{len(probs)} probabilities for {len(amps)} amplitudes", dict(p, clause="probabilities-are-squared-magnitudes", values={}), sub="len")
        return
    res.ob(0, 1, "concrete-structure")

    def build(F):
        A = F.alg
        out = []
        for i, (pr, am) in enumerate(zip(probs, amps)):
            x = F.t(sympy.sympify(am))
            out.append((f"p[{i}]", A.sub(F.t(sympy.sympify(pr)), A.mul(x, A.conj(x)))))
        return out

    P = Prover(res, unit=sympy.Rational(1, 2))
    fv = first_violation(P.prove_zero("symprob", build, "probabilities-are-squared-magnitudes", sub="probabilities-are-squared-magnitudes"))
    if fv:
        res.candidate("probabilities-are-squared-magnitudes", f"{p['case']}: get_probabilities(){fv[0]} differs from |amplitude|^2", dict(p, clause="probabilities-are-squared-magnitudes", values=fv[1]), sub="probabilities-are-squared-magnitudes")
    res.sample({"symbolic-mode probabilities": p["case"], "amplitudes": [str(x) for x in amps]})


def _assign(wf, i, v):
    snapshot = list(wf._amplitude_vector)
    try:
        wf[i] = v
    except ValueError:
        if list(wf._amplitude_vector) != snapshot:
            raise AssertionError("object changed by a rejected assignment")
        raise
    return wf


def _w_symmode(res, p):
    from orquestra.quantum.wavefunction import Wavefunction

    res.d["ground_instances"] += 1
    res.d["instances"] -= 1
    for label, f, want in symmode_cases():
        res.ob(1)
        bad = symmode_bad(f, want)
        if bad:
            res.candidate("symbolic-mode", f"{label}: {bad}", {"clause": "symbolic-mode", "case": label, "values": {}}, sub="symbolic-mode:" + label)
        else:
            res.ob(0, 1, "ground-structure")


def symmode_bad(f, want):
    from orquestra.quantum.wavefunction import Wavefunction

    try:
        wf = f(Wavefunction)
    except ValueError:
        return None if want.startswith("raise") else "rejected although it keeps the invariant"
    except AssertionError as e:
        return str(e)
    if want.startswith("raise"):
        return "accepted although it breaks the invariant"
    if want == "ok-normalised":
        if list(wf.free_symbols):
            return f"symbols {list(wf.free_symbols)} are still unbound after binding every symbol"
        tot = float(np.sum(np.abs(np.array(wf.amplitudes, dtype=complex)) ** 2))
        if abs(tot - 1) > 1e-5:
            return f"total probability {tot}"
    return None


class BVInt:
    """Python-int protocol over a z3 bit-vector with unsigned semantics; lets the REAL bit trick run symbolically."""

    W = 20

    def __init__(self, z):
        self.z = z

    @staticmethod
    def lift(o):
        return o.z if isinstance(o, BVInt) else z3.BitVecVal(o, BVInt.W)

    def __or__(self, o):
        return BVInt(self.z | BVInt.lift(o))

    def __and__(self, o):
        return BVInt(self.z & BVInt.lift(o))

    def __add__(self, o):
        return BVInt(self.z + BVInt.lift(o))

    def __sub__(self, o):
        return BVInt(self.z - BVInt.lift(o))

    def __neg__(self):
        return BVInt(-self.z)

    def __floordiv__(self, o):
        return BVInt(z3.UDiv(self.z, BVInt.lift(o)))

    def __rshift__(self, o):
        return BVInt(z3.LShR(self.z, BVInt.lift(o)))


def _popcount(z, w):
    return sum(z3.ZeroExt(5, z3.Extract(i, i, z)) for i in range(w))


def _w_bits(res, p):
    """_get_next_number_with_same_hamming_weight executed on a symbolic bit-vector."""
    try:
        from orquestra.quantum.wavefunction import _get_next_number_with_same_hamming_weight as nxt
    except ImportError:
        # a private kernel: if the library no longer has it there is nothing to execute symbolically (the Dicke clause itself is
        # covered by the enumeration instances)
        res.ob(1)
        res.inconc("the private bit-trick kernel _get_next_number_with_same_hamming_weight no longer exists: nothing to execute, no verdict")
        return
    import time

    res.nontrivial()
    W, lim = BVInt.W, p["limit_bits"]
    v = z3.BitVec("val", W)
    r = nxt(BVInt(v)).z
    m = z3.BitVec("m", W)
    dom = z3.And(z3.UGE(v, 1), z3.ULT(v, 1 << lim))
    pv = _popcount(v, W)
    claims = {
        "next-has-same-weight": z3.And(dom, _popcount(r, W) != pv),
        "next-is-larger": z3.And(dom, z3.ULE(r, v)),
        "nothing-skipped": z3.And(dom, z3.UGT(m, v), z3.ULT(m, r), _popcount(m, W) == pv),
    }
    for clause, neg in claims.items():
        s = z3.Solver()
        s.set("timeout", 60000)
        s.add(neg)
        t = time.time()
        rr = str(ST.bounded_check(s, 20000))
        res.d["solver_s"] += time.time() - t
        res.d["solver_queries"] += 1
        res.ob(1)
        if rr == "unsat":
            res.ob(0, 1, "A:z3-bitvector")
        elif rr == "sat":
            val = s.model().eval(v, model_completion=True).as_long()
            res.candidate(clause, f"next-same-weight({val}) violates {clause}", {"clause": clause, "values": {"val": val}, "limit_bits": lim}, sub=clause)
        else:
            res.inconc("z3 unknown on the bit-vector query", clause)
    # vacuity twin: a wrong variant (missing the -1) must be refuted
    res.d["vacuity_twins"] += 1
    t2 = (BVInt(v) | (BVInt(v) - 1)) + 1
    wrong = (t2 | (((t2 & -t2) // (BVInt(v) & -BVInt(v))) >> 1)).z
    s = z3.Solver()
    s.add(dom, _popcount(wrong, W) != pv)
    if str(ST.bounded_check(s, 20000)) == "sat":
        res.d["vacuity_ok"] += 1
    else:
        res.herr("vacuity twin of the bit trick not refuted")
    res.sample({"bit_trick_inputs": f"1 <= val < 2^{lim}", "width": W})


def dicke_bad(n, k):
    from orquestra.quantum.wavefunction import Wavefunction

    wf = Wavefunction.dicke_state(n, k)
    probs = np.abs(np.array(wf.amplitudes, dtype=complex)) ** 2
    want = [i for i in range(2**n) if bin(i).count("1") == k]
    support = [i for i in range(2**n) if probs[i] > 1e-14]
    if support != want:
        return f"support has {len(support)} states, want the {len(want)} states of weight {k}"
    if np.abs(probs[want] - 1 / len(want)).max() > 1e-12:
        return "probabilities not equal"
    return None


def _w_dicke(res, p):
    res.d["ground_instances"] += 1
    res.d["instances"] -= 1
    res.ob(1)
    try:
        bad = dicke_bad(p["n"], p["k"])
    except Exception as e:
        bad = f"raised {type(e).__name__}: {e}"
    if bad:
        res.candidate("dicke", f"dicke_state({p['n']},{p['k']}): {bad}", dict(p, clause="dicke", values={}), sub="dicke")
    else:
        res.ob(0, 1, "ground-numeric")


def bitrev(i, nb):
    return int(format(i, f"0{nb}b")[::-1], 2) if nb else 0


def _w_flip(res, p):
    from orquestra.quantum.wavefunction import flip_amplitudes

    nb = p["nb"]
    res.nontrivial()
    N = 2**nb
    amps = [ST.CV(ST.SV(z3.Real(f"f{i}_re")), ST.SV(z3.Real(f"f{i}_im"))) for i in range(N)]
    with _patched():
        out = flip_amplitudes(list(amps))
        twice = flip_amplitudes(list(out))
    res.ob(2)
    if len(out) == N and all(out[i] is amps[bitrev(i, nb)] for i in range(N)):
        res.ob(0, 1, "symbolic-identity")
    else:
        res.candidate("flip-is-bit-reversal", f"flip_amplitudes on {N} symbolic amplitudes is not the bit-reversal permutation", dict(p, clause="flip-is-bit-reversal", values={}), sub="flip-is-bit-reversal")
    if len(twice) == N and all(twice[i] is amps[i] for i in range(N)):
        res.ob(0, 1, "symbolic-identity")
    else:
        res.candidate("flip-involutive", "flipping twice is not the identity", dict(p, clause="flip-involutive", values={}), sub="flip-involutive")
    res.sample({"flip_amplitudes": N})


def _w_io(res, p):
    from orquestra.quantum.wavefunction import Wavefunction, save_wavefunction, load_wavefunction

    res.d["ground_instances"] += 1
    res.d["instances"] -= 1
    res.ob(1)
    v = np.array([complex(*x) for x in p["amps"]])
    v = v / np.sqrt((np.abs(v) ** 2).sum())
    if p.get("real"):
        v = v.real / np.sqrt((v.real**2).sum())
    wf = Wavefunction(v)
    fd, path = tempfile.mkstemp(prefix="vf-c12-", dir="/var/tmp")
    os.close(fd)
    try:
        save_wavefunction(wf, path)
        l1 = load_wavefunction(path)
        with open(path) as f:
            l2 = load_wavefunction(f)
    finally:
        os.unlink(path)
    if np.array_equal(l1.amplitudes, wf.amplitudes) and np.array_equal(l2.amplitudes, wf.amplitudes):
        res.ob(0, 1, "ground-structure")
    else:
        res.candidate("save-load", f"loaded amplitudes differ: {l1.amplitudes} vs {wf.amplitudes}", dict(p, clause="save-load", values={}), sub="save-load")


def _w_len(res, p):
    from orquestra.quantum.wavefunction import Wavefunction

    res.d["ground_instances"] += 1
    res.d["instances"] -= 1
    res.ob(1)
    L = p["length"]
    v = np.ones(L) / np.sqrt(L) if L else np.array([])
    try:
        Wavefunction(v)
        ok = L in (1, 2, 4, 8, 16)
    except ValueError:
        ok = L not in (1, 2, 4, 8, 16)
    if ok:
        res.ob(0, 1, "ground-structure")
    else:
        res.candidate("power-of-two-length", f"length {L} {'accepted' if L not in (1, 2, 4, 8, 16) else 'rejected'}", dict(p, clause="power-of-two-length", values={}), sub="power-of-two-length")


def instances(tier, seed):
    items = []
    hists = [[], [0], [1], [0, 1], [1, 1], [0, 1, 0]]
    for n in (2, 4):
        for h in hists:
            if n == 4 and len(h) > (1 if tier == "quick" else 2):
                continue
            hh = [i if n == 2 else (3 if i else 2) for i in h]
            items.append(("hist", {"n": n, "history": hh, "label": f"n={n} history={hh}"}))
    items.append(("symmode", {"label": "symbolic-mode table"}))
    for case in SYMPROB_CASES:
        items.append(("symprob", {"case": case, "label": f"symbolic-mode probabilities: {case}"}))
    items.append(("bits", {"limit_bits": 14, "label": "next number with same hamming weight, val < 2^14"}))
    nmax = 10 if tier == "quick" else 12
    for n in range(1, nmax + 1):
        for k in range(0, n + 1):
            if n > 6 and tier == "quick" and k not in (0, 1, 2, n - 1, n):
                continue
            items.append(("dicke", {"n": n, "k": k, "label": f"dicke({n},{k})"}))
    for nb in (0, 1, 2, 3, 4):
        items.append(("flip", {"nb": nb, "label": f"flip {2**nb} amplitudes"}))
    for amps, real in [([[1, 0], [0, 1]], False), ([[0.6, 0], [0.8, 0]], True), ([[1, 2], [3, -1], [0, 0], [0.5, 0.25]], False), ([[0.1, 0], [0.2, 0], [0.3, 0], [0.4, 0]], True)]:
        items.append(("io", {"amps": amps, "real": real, "label": f"io {amps} real={real}"}))
    for L in (0, 3, 5, 6, 7, 12, 2, 4, 8):
        items.append(("len", {"length": L, "label": f"length {L}"}))
    return items


def run(ctx):
    items = instances(ctx.tier, ctx.seed)
    if getattr(ctx, "only", None):
        items = [it for it in items if ctx.only in it[1]["label"] or ctx.only == it[0]]
    ctx.bounds = {
        "numeric_mode": "lengths 2 and 4, every amplitude part and every assigned value part symbolic in [-2,2], assignment histories of length <= 3 (length 2) / <= 1-2 (length 4)",
        "symbolic_mode": "ground table of 15 numeric-entry patterns (constructor, assignments, bindings, chains)",
        "bit_trick": "every val in [1, 2^14) as a 20-bit vector",
        "dicke": "ground: n <= %d" % (10 if ctx.tier == "quick" else 12),
        "flip": "1..16 symbolic amplitudes",
    }
    ctx.assume("floats are exact reals; the isclose band is |sum-1| <= 1e-8 + 1e-5", "in the library's symbolic mode numeric entries cannot be symbolic (sympy Matrix): ground table", "save/load, Dicke enumeration and length validation are ground instances")
    for it, out in pmap(work, items):
        ctx.merge(out)
    ctx.extra["explanation"] = (
        "Wavefunction construction, element assignment histories and get_probabilities run on symbolic complex amplitudes; each accept/reject decision forks the "
        "explorer and z3 proves: accepted <=> inside the normalisation band, rejected assignments leave the object unchanged, probabilities are |a|^2 and sum to 1. "
        "The Dicke bit trick is the real function executed on a z3 bit-vector: same weight, larger, nothing skipped."
    )


def replay(data):
    from orquestra.quantum.wavefunction import Wavefunction, flip_amplitudes

    inp = data["inputs"]
    clause = inp["clause"]
    vals = inp.get("values") or {}
    p = {k: v for k, v in inp.items() if k not in ("clause", "values")}
    try:
        if clause == "probabilities-are-squared-magnitudes":
            from ..front import install_numpy_sympy_shim

            install_numpy_sympy_shim()
            wf = _symprob_wf(p["case"])
            sub = {sympy.Symbol(k): float(v) for k, v in vals.items()} or {sympy.Symbol("a"): 0.3, sympy.Symbol("b"): -0.4}
            sub = {**{sympy.Symbol("a"): 0.3, sympy.Symbol("b"): -0.4}, **sub}
            worst = 0.0
            for pr, am in zip(wf.get_probabilities(), wf.amplitudes):
                worst = max(worst, abs(complex(sympy.sympify(pr).subs(sub).evalf()) - abs(complex(sympy.sympify(am).subs(sub).evalf())) ** 2))
            return worst > 1e-9, f"max |p - |a|^2| = {worst:.3g} at {sub}"
        if clause == "symbolic-mode":
            for label, f, want in symmode_cases():
                if label == inp["case"]:
                    bad = symmode_bad(f, want)
                    return bool(bad), bad or "ok"
            return False, "case not found"
        if clause in ("next-has-same-weight", "next-is-larger", "nothing-skipped"):
            from orquestra.quantum.wavefunction import _get_next_number_with_same_hamming_weight as nxt

            v = int(vals["val"])
            r = nxt(v)
            pc = bin(v).count("1")
            bad = bin(r).count("1") != pc or r <= v or any(bin(m).count("1") == pc for m in range(v + 1, r))
            return bad, f"next({v}) = {r}"
        if clause == "dicke":
            try:
                bad = dicke_bad(p["n"], p["k"])
            except Exception as e:
                bad = f"raised {type(e).__name__}: {e}"
            return bool(bad), bad or "ok"
        if clause in ("flip-is-bit-reversal", "flip-involutive"):
            nb = p["nb"]
            N = 2**nb
            a = np.arange(N) * (1 + 0.5j) + 1
            out = flip_amplitudes(list(a))
            if clause == "flip-involutive":
                return not np.array_equal(flip_amplitudes(out), a), "twice"
            return any(out[i] != a[bitrev(i, nb)] for i in range(N)), str(out)
        if clause in ("save-load", "power-of-two-length"):
            r = Result("replay")
            (_w_io if clause == "save-load" else _w_len)(r, dict(p, label="replay"))
            return bool(r.d["candidates"]), (r.d["candidates"][0]["what"] if r.d["candidates"] else "ok")
        # histories: concrete replay of the whole history, checking the invariant after each step
        n, hist = p["n"], p["history"]
        amps = [complex(vals.get(f"a{i}_re", 0.0), vals.get(f"a{i}_im", 0.0)) for i in range(n)]
        band = 1e-8 + 1e-5

        def inside(v):
            return abs(sum(abs(x) ** 2 for x in v) - 1) <= band * (1 + 1e-6)

        def outside(v):
            return abs(sum(abs(x) ** 2 for x in v) - 1) >= band * (1 - 1e-6)

        if clause == "raises-other":
            try:
                wf = Wavefunction(np.array(amps))
                for j, idx in enumerate(hist):
                    try:
                        wf[idx] = complex(vals.get(f"v{j}_re", 0.0), vals.get(f"v{j}_im", 0.0))
                    except ValueError:
                        pass
                wf.get_probabilities()
            except ValueError:
                return False, "only the documented ValueError"
            except Exception as e:
                return True, f"raised {type(e).__name__}: {e}"
            return False, "no exception on the real code"
        try:
            wf = Wavefunction(np.array(amps))
        except ValueError:
            return (clause == "constructor-rejects-only-unnormalised" and not outside(amps)), f"constructor rejected {amps}"
        if clause == "constructor-accepts-only-normalised":
            return not inside(amps), f"constructor accepted {amps} (sum {sum(abs(x)**2 for x in amps)})"
        cur = list(amps)
        for j, idx in enumerate(hist):
            v = complex(vals.get(f"v{j}_re", 0.0), vals.get(f"v{j}_im", 0.0))
            before = np.array(wf.amplitudes).copy()
            try:
                wf[idx] = v
            except ValueError:
                if clause == "rejected-assignment-leaves-object-unchanged" and not np.array_equal(np.array(wf.amplitudes), before):
                    return True, f"after rejected wf[{idx}]={v}: {wf.amplitudes} vs {before}"
                trial = list(cur)
                trial[idx] = v
                if clause == "assignment-rejected-only-if-it-breaks-normalisation" and not outside(trial):
                    return True, f"wf[{idx}]={v} rejected although normalised"
                continue
            cur[idx] = v
            if clause == "accepted-assignment-stores-value" and not np.array_equal(np.array(wf.amplitudes), np.array(cur)):
                return True, f"stored {wf.amplitudes} vs {cur}"
            if clause == "normalised-after-accepted-assignment" and not inside(cur):
                return True, f"accepted wf[{idx}]={v}, total {sum(abs(x)**2 for x in cur)}"
        before = np.array(wf.amplitudes).copy()
        probs = wf.get_probabilities()
        if clause == "reading-probabilities-leaves-state-unchanged":
            return not np.array_equal(np.array(wf.amplitudes), before), f"{wf.amplitudes} vs {before}"
        if clause == "probabilities-are-squared-magnitudes":
            return bool(np.abs(probs - np.abs(np.array(cur)) ** 2).max() > 1e-12), str(probs)
        if clause == "probabilities-sum-to-one":
            return abs(probs.sum() - 1) > band * (1 + 1e-6), str(probs.sum())
        return False, "not reproduced"
    except Exception:
        import traceback

        return False, "replay raised: " + traceback.format_exc()[-600:]
