"""C19 - translating symbolic expressions preserves their value. E1 front end (own translator) + z3 with
uninterpreted transcendental heads.

For every expression e of the enumerated grammar the REAL expression_from_sympy and translate_expression(...,
SYMPY_DIALECT) are executed; e and the round-tripped e' are translated to pairs (re, im) of z3 real terms:
  * symbols are real unknowns; Integer exact; Float = exact rational of the double; a non-integer Rational is
    mapped to the exact rational of its NEAREST DOUBLE on both sides (the conversion the property allows);
  * + * and integer powers are interpreted; division is interpreted with the denominator assumed non-zero
    (|den|^2 >= 1e-4, "where the expression is defined");
  * sqrt and half-integer powers of a syntactically REAL base are interpreted exactly, branch included
    (b >= 0: real root; b < 0: i*root(-b));
  * cos sin tan exp and all other powers are uninterpreted functions of (re, im) - equal arguments give equal
    results is all a faithful round trip needs.
z3 then decides "exists an assignment with |e - e'| > 1e-6".  A model is replayed numerically on the real
round trip (at the model's point and its sign variants, because an abstract model need not be the point where
the values differ); models that do not reproduce make the instance inconclusive, not violated.
"""
from fractions import Fraction
import itertools
import random
import time

import sympy
import z3

from ..core import Result, pmap, stable_pick

LEVEL = "model_checking"
TAU = Fraction(1, 10**6)
BIG = 10**6


class Refuse(Exception):
    pass


class UF:
    """translator sympy -> (re, im) z3 terms with uninterpreted heads"""

    def __init__(self):
        self.syms = {}
        self.side = []  # definedness / range side constraints
        self.funcs = {}
        self.naux = 0
        self.abstract = False
        self.cache = {}
        self.roots = {}

    def sym(self, s):
        if s not in self.syms:
            self.syms[s] = z3.Real(f"v_{s}")
        return self.syms[s]

    def num(self, q):
        return z3.RealVal(str(Fraction(q)))

    def f(self, name, nargs):
        key = (name, nargs)
        if key not in self.funcs:
            sig = [z3.RealSort()] * (nargs + 1)
            self.funcs[key] = (z3.Function(f"{name}_re", *sig), z3.Function(f"{name}_im", *sig))
        return self.funcs[key]

    def apply(self, name, *pairs):
        args = [z3.simplify(t) for p in pairs for t in p]
        if all(z3.is_rational_value(a) for a in args):
            # constant arguments: the head is evaluated numerically (doubles, <= a few ulp) instead of left abstract
            import cmath

            cs = [complex(float(args[2 * i].as_fraction()), float(args[2 * i + 1].as_fraction())) for i in range(len(pairs))]
            try:
                v = {"cos": cmath.cos, "sin": cmath.sin, "tan": cmath.tan, "exp": cmath.exp}[name](cs[0]) if name != "pow" else cs[0] ** cs[1]
                return (self.num(Fraction(v.real)), self.num(Fraction(v.imag)))
            except (OverflowError, ZeroDivisionError, ValueError):
                pass
        self.abstract = True
        fr, fi = self.f(name, len(args))
        r, i = fr(*args), fi(*args)
        for t in (r, i):
            self.side.append(z3.And(t <= BIG, t >= -BIG))
        if all(z3.is_rational_value(z3.simplify(p[1])) and z3.simplify(p[1]).as_fraction() == 0 for p in pairs) and name in ("cos", "sin", "tan", "exp"):
            # real argument => real result
            self.side.append(i == 0)
            if name in ("cos", "sin"):
                self.side.append(z3.And(r <= 1, r >= -1))
            if name == "exp":
                self.side.append(r > 0)
        return (r, i)

    @staticmethod
    def is_zero(t):
        t = z3.simplify(t)
        return z3.is_rational_value(t) and t.as_fraction() == 0

    def mul(self, a, b):
        return (z3.simplify(a[0] * b[0] - a[1] * b[1]), z3.simplify(a[0] * b[1] + a[1] * b[0]))

    def inv(self, a):
        den = z3.simplify(a[0] * a[0] + a[1] * a[1])
        self.side.append(den >= z3.RealVal("1/10000"))
        return (z3.simplify(a[0] / den), z3.simplify(-a[1] / den))

    def real_root(self, b):
        """r >= 0 with r*r == |b|, for a real term b."""
        b = z3.simplify(b)
        key = b.sexpr()
        if key in self.roots:
            return self.roots[key]
        self.naux += 1
        r = z3.Real(f"root_{self.naux}")
        self.side.append(z3.And(r >= 0, r * r == z3.If(b >= 0, b, -b)))
        self.roots[key] = r
        return r

    def t(self, e):
        key = e
        if key in self.cache:
            return self.cache[key]
        r = self._t(e)
        self.cache[key] = r
        return r

    def _t(self, e):
        zero = self.num(0)
        if e.is_Integer:
            return (self.num(int(e)), zero)
        if e.is_Rational:
            return (self.num(Fraction(float(Fraction(int(e.p), int(e.q))))), zero)  # nearest double
        if e.is_Float:
            return (self.num(Fraction(float(e))), zero)
        if e is sympy.I:
            return (zero, self.num(1))
        if e.is_Symbol:
            return (self.sym(e), zero)
        if e.is_Add:
            re, im = zero, zero
            for a in e.args:
                x = self.t(a)
                re, im = re + x[0], im + x[1]
            return (z3.simplify(re), z3.simplify(im))
        if e.is_Mul:
            r = (self.num(1), zero)
            for a in e.args:
                r = self.mul(r, self.t(a))
            return r
        if e.is_Pow:
            b, ex = e.args
            bb = self.t(b)
            if ex.is_Integer:
                k = int(ex)
                r = (self.num(1), zero)
                for _ in range(abs(k)):
                    r = self.mul(r, bb)
                return r if k >= 0 else self.inv(r)
            exq = None
            if ex.is_Rational:
                exq = Fraction(int(ex.p), int(ex.q))
            elif ex.is_Float and Fraction(float(ex)).denominator in (1, 2):
                exq = Fraction(float(ex))
            if exq is not None and exq.denominator == 1:
                return self.t(sympy.Pow(b, sympy.Integer(int(exq)), evaluate=False))
            if exq is not None and exq.denominator == 2 and self.is_zero(bb[1]) and not z3.is_rational_value(z3.simplify(bb[0])):
                # b**(k/2), b real:  root = sqrt(|b|);  s = sqrt(b) = root (b>=0) or i*root (b<0);  s*s = b on both
                # branches, so s**|k| = b**(|k|//2) * s  (keeps the auxiliary root linear)
                k = exq.numerator
                root = self.real_root(bb[0])
                s = (z3.If(bb[0] >= 0, root, zero), z3.If(bb[0] >= 0, zero, root))
                r = (self.num(1), zero)
                for _ in range(abs(k) // 2):
                    r = self.mul(r, bb)
                r = self.mul(r, s)
                return r if k >= 0 else self.inv(r)
            return self.apply("pow", bb, self.t(ex))
        if isinstance(e, (sympy.cos, sympy.sin, sympy.tan, sympy.exp)):
            return self.apply(type(e).__name__, self.t(e.args[0]))
        if e is sympy.E:
            return self.apply("exp", (self.num(1), zero))
        raise Refuse(f"outside the checker's grammar: {type(e).__name__} {str(e)[:60]}")


def floatify(e):
    """e with every non-integer Rational replaced by its nearest double, rebuilt bottom-up through sympy's own
    constructors (so sympy's automatic evaluation of float constants acts on the oracle side exactly as it does
    when the library rebuilds the expression)."""
    if e.is_Rational and not e.is_Integer:
        return sympy.Float(float(Fraction(int(e.p), int(e.q))))
    if not e.args:
        return e
    return e.func(*[floatify(a) for a in e.args])


def roundtrip(e):
    from orquestra.quantum.circuits.symbolic.sympy_expressions import expression_from_sympy, SYMPY_DIALECT
    from orquestra.quantum.circuits.symbolic.translations import translate_expression

    tree = expression_from_sympy(e)
    return tree, translate_expression(tree, SYMPY_DIALECT)


def parse(text):
    x, y = sympy.Symbol("x"), sympy.Symbol("y")
    return sympy.sympify(text, locals={"x": x, "y": y, "I": sympy.I})


def work(item):
    kind, p = item
    res = Result(f"{kind}|{p['label']}")
    from orquestra.quantum.circuits.symbolic import sympy_expressions as SE, translations as TR, _sorting as SO

    try:  # evidence only: a renamed private helper must not break the check
        res.fn(
            SE.expression_from_sympy, SE.addition_from_sympy_add, SE.multiplication_from_sympy_mul, SE.power_from_sympy_pow,
            SE.function_call_from_sympy_function, SE.is_addition_of_negation, SE.is_multiplication_by_reciprocal,
            SE.native_float_from_sympy_rational, SE.expression_tuple_from_tuple_of_sympy_args, TR.translate_expression,
            TR.translate_function_call, TR.translate_tuple, SO.natural_key, SO.natural_key_revlex, SO._convert_string_to_int_if_possible,
        )
    except AttributeError:
        pass
    try:
        {"rt": _w_rt, "refuse": _w_refuse, "keys": _w_keys, "keys-sym": _w_keys_sym}[kind](res, p)
    except Refuse as e:
        res.ob(1)
        res.inconc(f"translation refused: {e}")
    except _ST().Inconclusive as e:
        res.ob(1)
        res.inconc(str(e))
    return res.as_dict()


def _w_rt(res, p):
    timeout_ms = int(__import__("os").environ.get("VERIF_Z3_TIMEOUT_MS", "3000"))
    for text in p["exprs"]:
        e = sympy.sympify(text, locals=_LOC)
        key = f"rt|{text}"
        res.d["instances"] += 1
        res.ob(1)
        try:
            tree, e2 = roundtrip(e)
        except Exception as ex:
            res.candidate("roundtrip-raises", f"{text}: round trip raised {type(ex).__name__}: {str(ex)[:120]}", {"expr": text, "clause": "roundtrip-raises", "values": {}}, sub=f"{text}:roundtrip-raises")
            continue
        U = UF()
        try:
            a, b = U.t(floatify(e)), U.t(sympy.sympify(e2))
        except Refuse as r:
            res.inconc(f"translation refused: {r}", text)
            continue
        if e.free_symbols:
            res.nontrivial(key)
        tau = z3.RealVal(str(TAU))
        dre, dim = z3.simplify(a[0] - b[0]), z3.simplify(a[1] - b[1])
        goal = z3.simplify(z3.Or(dre > tau, dre < -tau, dim > tau, dim < -tau))
        if z3.is_false(goal):
            res.ob(0, 1, "constant-folded")
            continue
        s = z3.Solver()
        s.set("timeout", timeout_ms)
        for v in U.syms.values():
            s.add(z3.And(v <= 10, v >= -10, z3.Or(v >= z3.RealVal("1/10"), v <= z3.RealVal("-1/10"))))
        s.add(*U.side)
        s.add(goal)
        t0 = time.time()
        r = str(_ST().bounded_check(s, timeout_ms))
        res.d["solver_s"] += time.time() - t0
        res.d["solver_queries"] += 1
        if r == "unsat":
            res.ob(0, 1, "A:z3")
        elif r == "sat":
            m = s.model()
            vals = {}
            for sname, v in U.syms.items():
                val = m.eval(v, model_completion=True)
                vals[str(sname)] = float(val.as_fraction()) if z3.is_rational_value(val) else float(val.approx(20).as_fraction())
            res.candidate("value-preserved", f"{text}: round trip gives {e2}, which differs in value", {"expr": text, "clause": "value-preserved", "values": vals, "abstract": U.abstract}, sub=f"{text}:value-preserved")
        else:
            res.inconc("z3 unknown", text)
    res.d["instances"] -= 1
    res.sample({"expressions": p["exprs"][:3]})
    _twin(res, p, timeout_ms)


def _swap_first(tree):
    """tree with the arguments of its first non-commutative binary call swapped (None if there is none)."""
    from orquestra.quantum.circuits.symbolic.expressions import FunctionCall

    if isinstance(tree, FunctionCall):
        args = tuple(tree.args)
        if tree.name in ("sub", "div", "pow") and len(args) == 2 and args[0] != args[1]:
            return FunctionCall(tree.name, (args[1], args[0]))
        for i, a in enumerate(args):
            sw = _swap_first(a)
            if sw is not None:
                return FunctionCall(tree.name, args[:i] + (sw,) + args[i + 1 :])
    return None


def _twin(res, p, timeout_ms):
    """vacuity twin: a round trip whose tree was corrupted (operands of a sub/div/pow swapped) must be found different."""
    from orquestra.quantum.circuits.symbolic.sympy_expressions import expression_from_sympy, SYMPY_DIALECT
    from orquestra.quantum.circuits.symbolic.translations import translate_expression

    for text in p["exprs"]:
        e = sympy.sympify(text, locals=_LOC)
        if len(e.free_symbols) < 1:
            continue
        try:
            sw = _swap_first(expression_from_sympy(e))
            if sw is None:
                continue
            e2 = sympy.sympify(translate_expression(sw, SYMPY_DIALECT))
            if e2.has(sympy.zoo, sympy.nan) or sympy.simplify(e2 - e) == 0:
                continue
            U = UF()
            a, b = U.t(floatify(e)), U.t(e2)
        except Exception:
            continue
        res.d["vacuity_twins"] += 1
        tau = z3.RealVal(str(TAU))
        dre, dim = a[0] - b[0], a[1] - b[1]
        s = z3.Solver()
        s.set("timeout", timeout_ms)
        for v in U.syms.values():
            s.add(z3.And(v <= 10, v >= -10, z3.Or(v >= z3.RealVal("1/10"), v <= z3.RealVal("-1/10"))))
        s.add(*U.side)
        s.add(z3.Or(dre > tau, dre < -tau, dim > tau, dim < -tau))
        if str(_ST().bounded_check(s, timeout_ms)) == "sat":
            res.d["vacuity_ok"] += 1
        else:
            res.herr(f"vacuity twin not refuted: {e} vs corrupted round trip {e2}")
        return


_LOC = {"x": sympy.Symbol("x"), "y": sympy.Symbol("y"), "I": sympy.I}
_LOC.update({n: getattr(sympy, n) for n in ("Symbol", "Integer", "Float", "Rational", "Add", "Mul", "Pow", "cos", "sin", "tan", "exp", "sqrt", "E", "pi")})


def _w_refuse(res, p):
    res.d["ground_instances"] += 1
    res.d["instances"] -= 1
    res.ob(1)
    bad = refuse_bad(p["expr"])
    if bad:
        res.candidate("unsupported-is-refused", bad, {"expr": p["expr"], "clause": "unsupported-is-refused", "values": {}}, sub="unsupported-is-refused")
    else:
        res.ob(0, 1, "ground-structure")


def refuse_bad(text):
    e = sympy.sympify(text, locals=dict(_LOC, f=sympy.Function("f")))
    try:
        tree, e2 = roundtrip(e)
    except (NotImplementedError, ValueError, TypeError, KeyError):
        return None
    return f"{text} (outside the supported set) was translated to {e2!r} instead of being refused"


def _w_keys(res, p):
    res.d["ground_instances"] += 1
    res.d["instances"] -= 1
    res.ob(1)
    bad = keys_bad(p)
    if bad:
        res.candidate("natural-order", bad, dict(p, clause="natural-order", values={}), sub="natural-order")
    else:
        res.ob(0, 1, "ground-structure")


def keys_bad(p):
    from orquestra.quantum.circuits.symbolic._sorting import natural_key, natural_key_revlex

    S = sympy.Symbol
    pre, sep, lim = p["prefix"], p.get("sep"), p["limit"]
    nums = list(range(0, lim)) + [lim * 7, 10**6, 10**6 + 1, 99999999, 10**8, 123456789, 10**12, 10**20 + 1]
    if sep is None:
        for a, b in itertools.combinations(nums, 2):
            if not natural_key(S(f"{pre}{a}")) < natural_key(S(f"{pre}{b}")):
                return f"natural_key orders {pre}{a} after {pre}{b}"
            if p.get("other"):
                # revlex: the number dominates the name
                o = p["other"]
                if not natural_key_revlex(S(f"{o}{a}")) < natural_key_revlex(S(f"{pre}{b}")):
                    return f"natural_key_revlex orders {o}{a} after {pre}{b}"
        names = [f"{pre}{a}" for a in nums]
        if sorted(map(S, reversed(names)), key=natural_key) != list(map(S, names)):
            return f"sorting {pre}<n> by natural_key is not numeric"
        return None
    small = nums[: min(len(nums), 12)] + [10**6, 99999999, 10**8, 10**12]
    for (a1, b1), (a2, b2) in itertools.combinations(list(itertools.product(small, small)), 2):
        k1, k2 = natural_key(S(f"{pre}{a1}{sep}{b1}")), natural_key(S(f"{pre}{a2}{sep}{b2}"))
        if ((a1, b1) < (a2, b2)) != (k1 < k2):
            return f"natural_key compares {pre}{a1}{sep}{b1} and {pre}{a2}{sep}{b2} against the numeric order of their digit groups"
    return None


# ---------------------------------------------------------------------------
# natural keys on symbolic digit groups (duck-typed execution of the real key functions)


class DigitStr:
    """a string of decimal digits with CONCRETE length and SYMBOLIC digits (z3 Ints in 0..9)"""

    def __init__(self, digits):
        self.d = list(digits)  # z3 Int terms or Python ints

    def isdigit(self):
        return len(self.d) > 0

    def isdecimal(self):
        return len(self.d) > 0

    isnumeric = isdecimal

    def __len__(self):
        return len(self.d)

    def zfill(self, k):
        return DigitStr([0] * max(0, int(k) - len(self.d)) + self.d)

    def rjust(self, k, fill=" "):
        if fill != "0":
            raise _ST().Inconclusive("rjust with a non-digit fill on a symbolic digit group")
        return self.zfill(k)

    def value(self):
        v = z3.IntVal(0)
        for x in self.d:
            v = v * 10 + x
        return v

    def _lex(self, o, strict_less):
        """lexicographic order of two digit strings as a z3 Bool"""
        if isinstance(o, str):
            if not o.isdigit():
                # digits sort before letters/underscore/brackets used in names; decide concretely on the first char
                raise _ST().Inconclusive("comparison of a symbolic digit group with a non-digit string")
            o = DigitStr([int(ch) for ch in o])
        if not isinstance(o, DigitStr):
            return NotImplemented
        a, b = self.d, o.d
        res = z3.BoolVal(len(a) < len(b)) if strict_less else z3.BoolVal(len(a) == len(b))
        for i in reversed(range(min(len(a), len(b)))):
            ai, bi = z3.IntVal(a[i]) if isinstance(a[i], int) else a[i], z3.IntVal(b[i]) if isinstance(b[i], int) else b[i]
            res = z3.If(ai == bi, res, ai < bi) if strict_less else z3.And(ai == bi, res)
        return _ST().SB(z3.simplify(res))

    def __lt__(self, o):
        return self._lex(o, True)

    def __eq__(self, o):
        if isinstance(o, str) and not o.isdigit():
            return False
        if isinstance(o, SymInt):
            return NotImplemented
        return self._lex(o, False)

    def __gt__(self, o):
        return o.__lt__(self) if isinstance(o, DigitStr) else NotImplemented

    def __hash__(self):
        return 23

    def __str__(self):
        return "<digits>"


class SymInt:
    """the integer a digit group denotes (what int(text) returns under the module-level shadow of int)"""

    def __init__(self, z):
        self.z = z

    def _c(self, o, f):
        if isinstance(o, SymInt):
            return _ST().SB(f(self.z, o.z))
        if isinstance(o, int) and not isinstance(o, bool):
            return _ST().SB(f(self.z, z3.IntVal(o)))
        return NotImplemented

    def __lt__(self, o):
        return self._c(o, lambda a, b: a < b)

    def __gt__(self, o):
        return self._c(o, lambda a, b: a > b)

    def __le__(self, o):
        return self._c(o, lambda a, b: a <= b)

    def __ge__(self, o):
        return self._c(o, lambda a, b: a >= b)

    def __eq__(self, o):
        r = self._c(o, lambda a, b: a == b)
        return False if r is NotImplemented else r

    def __hash__(self):
        return 29


def _ST():
    from .. import symtrace

    return symtrace


def _shadow_int(x=0, *a):
    import builtins

    if isinstance(x, DigitStr):
        return SymInt(x.value())
    return builtins.int(x, *a)


class _ReSplitStub:
    """re.split(r"(\\d+)", name) for names of the shape <prefix><digits><suffix> with digit-free prefix/suffix: the stub
    returns what the regex returns on such a name, [prefix, digits, suffix]; everything else goes to the real re."""

    def __init__(self, real):
        self._re = real

    def __getattr__(self, n):
        return getattr(self._re, n)

    def split(self, pattern, string, *a, **kw):
        if isinstance(string, SymName):
            if pattern != r"(\d+)" or a or kw:
                raise _ST().Inconclusive(f"re.split called with pattern {pattern!r} / extra arguments: shape not covered by the stub")
            return [string.prefix, string.digits, string.suffix]
        return self._re.split(pattern, string, *a, **kw)


class SymName:
    def __init__(self, prefix, digits, suffix=""):
        self.prefix, self.digits, self.suffix = prefix, digits, suffix


class _Sym:
    def __init__(self, name):
        self.name = name


def _w_keys_sym(res, p):
    """natural_key / natural_key_revlex on names <prefix><digits><suffix> whose digit group is symbolic: for digit
    groups of lengths (ls, lt) and ALL digit values, key(s) < key(t) iff int(s) < int(t)."""
    ST = _ST()
    from orquestra.quantum.circuits.symbolic import _sorting as SO

    ls, lt, pre, suf = p["ls"], p["lt"], p["prefix"], p.get("suffix", "")
    ds = [z3.Int(f"s{i}") for i in range(ls)]
    dt = [z3.Int(f"t{i}") for i in range(lt)]
    base = [z3.And(x >= 0, x <= 9) for x in ds + dt]
    if ls > 1:
        base.append(ds[0] >= 1)
    if lt > 1:
        base.append(dt[0] >= 1)
    names = {str(x): x for x in ds + dt}
    records = []
    res.nontrivial()
    res.d["cuts"] += ["_sorting.re.split replaced by a stub returning [prefix, digits, suffix] for names of that shape", "_sorting.int shadowed: int(digit group) is the symbolic integer it denotes"]

    def fn(ex):
        s, t = DigitStr(ds), DigitStr(dt)
        vs, vt = s.value(), t.value()
        for fname in ("natural_key", "natural_key_revlex"):
            f = getattr(SO, fname)
            try:
                ks, kt = f(_Sym(SymName(pre, s, suf))), f(_Sym(SymName(pre, t, suf)))
            except (TypeError, AttributeError) as e:
                # the key function did not reach the stubbed re.split with the symbolic name (e.g. a precompiled
                # pattern object, str methods on the name): this harness does not apply - never a verdict
                raise ST.Inconclusive(f"key function not executable on a symbolic name: {type(e).__name__}: {str(e)[:80]}")
            less = bool(ks < kt)
            records.append((f"{fname}-orders-numerically",) + ex.prove((vs < vt) if less else z3.Not(vs < vt)))
        return None

    with ST.patched((SO, "re", _ReSplitStub(SO.re)), (SO, "int", _shadow_int)):
        ex = ST.Explorer(base=base, timeout_ms=8000, max_paths=400)
        outs = ex.run(fn)
    res.d["paths"] += ex.npaths
    res.d["solver_queries"] += ex.queries
    res.d["solver_s"] += ex.solver_s
    for o in outs:
        if o[0] == "exc":
            res.ob(1)
            m = o[2] if len(o) > 2 else None
            vals = {k: ST.model_value(m, z) for k, z in names.items()} if m is not None else {}
            res.candidate("natural-order-symbolic", f"{p['label']}: comparing the keys raised {type(o[1]).__name__}: {str(o[1])[:100]}", dict(p, clause="natural-order-symbolic", values=vals), sub="raises")
    for clause, v, m in records:
        res.ob(1)
        if v == "holds":
            res.ob(0, 1, "A:z3")
        elif v == "violated":
            vals = {k: ST.model_value(m, z) for k, z in names.items()} if m is not None else {}
            res.candidate("natural-order-symbolic", f"{p['label']}: {clause} fails", dict(p, clause="natural-order-symbolic", values=vals), sub=clause)
        else:
            res.inconc("z3 unknown", clause)


def keys_sym_bad(p, vals):
    from orquestra.quantum.circuits.symbolic._sorting import natural_key, natural_key_revlex

    s = "".join(str(int(vals.get(f"s{i}", 1))) for i in range(p["ls"]))
    t = "".join(str(int(vals.get(f"t{i}", 1))) for i in range(p["lt"]))
    a, b = sympy.Symbol(p["prefix"] + s + p.get("suffix", "")), sympy.Symbol(p["prefix"] + t + p.get("suffix", ""))
    for f in (natural_key, natural_key_revlex):
        try:
            less = f(a) < f(b)
        except Exception as e:
            return f"{f.__name__}({a}) < {f.__name__}({b}) raised {type(e).__name__}: {e}"
        if less != (int(s) < int(t)):
            return f"{f.__name__} says {a} < {b} is {less}, numerically {int(s)} < {int(t)} is {int(s) < int(t)}"
    return None


# ---------------------------------------------------------------------------
# grammar


def atoms():
    x, y = _LOC["x"], _LOC["y"]
    return [x, y, sympy.Integer(2), sympy.Integer(-1), sympy.Rational(1, 3), sympy.Float(0.5), sympy.I, sympy.Integer(3), sympy.Rational(-5, 4)]


EXPONENTS = [sympy.Integer(2), sympy.Integer(-1), sympy.Integer(-2), sympy.Integer(3), sympy.Rational(1, 2), sympy.Rational(-1, 2), sympy.Float(0.5), sympy.Float(-0.5), sympy.Rational(1, 3), sympy.Rational(3, 2), sympy.Float(2.0), _LOC["x"]]


def unary(a):
    yield -a
    for f in (sympy.cos, sympy.sin, sympy.exp, sympy.tan, sympy.sqrt):
        yield f(a)
    yield 1 / a


def binary(a, b):
    yield a + b
    yield a - b
    yield b - a
    yield a * b
    yield a / b
    yield b / a


def powers(a):
    for ex in EXPONENTS:
        yield a**ex


def _ok(e):
    return not e.has(sympy.zoo, sympy.nan, sympy.oo, sympy.pi) and not e.has(sympy.E) or (not e.has(sympy.zoo, sympy.nan, sympy.oo) and e.has(sympy.exp))


def grammar(tier, seed):
    A = atoms()
    seen, out = set(), []

    def add(e, depth):
        if not isinstance(e, sympy.Basic) or e.has(sympy.zoo, sympy.nan, sympy.oo, sympy.S.NegativeInfinity):
            return
        if any(type(f) not in (sympy.cos, sympy.sin, sympy.tan, sympy.exp) for f in e.atoms(sympy.Function)) or e.has(sympy.pi):
            return  # sympy rewrote the expression into a head outside the supported set (cos(I) -> cosh(1)): refusal is correct there
        k = sympy.srepr(e)
        if k in seen:
            return
        seen.add(k)
        out.append((depth, e))

    for a in A:
        add(a, 1)
    d2 = []
    for a in A:
        for e in itertools.chain(unary(a), powers(a)):
            d2.append(e)
        for b in A:
            for e in binary(a, b):
                d2.append(e)
    for e in d2:
        add(e, 2)
    depth2 = [e for d, e in out if d == 2 and e.free_symbols]
    rng = random.Random(seed * 977 + 5)
    pool = depth2 if tier == "thorough" else rng.sample(depth2, min(len(depth2), 70))
    for a in pool:
        for e in itertools.chain(unary(a), powers(a)):
            add(e, 3)
    pairs = [(a, b) for a in pool for b in A + rng.sample(depth2, 6 if tier == "quick" else 25)]
    if tier == "quick":
        pairs = rng.sample(pairs, min(len(pairs), 500))
    else:
        pairs = rng.sample(pairs, min(len(pairs), 6000))
    for a, b in pairs:
        for e in binary(a, b):
            add(e, 3)
    # hand-picked shapes from sympy's rewriting (x - y, 1/x, x/(y z), -x/y, sqrt, inverse roots, nested)
    x, y = _LOC["x"], _LOC["y"]
    for e in [
        x - y, -x + y, -x - y, x - 2 * y, 2 * x - y, x - y * x, 1 / x, x / y, x / (y * 3), -x / y, 1 / (x * y), x * y**-2, sympy.sqrt(x) / y,
        1 / sympy.sqrt(x), x / sympy.sqrt(y - 2), (x * y) ** sympy.Rational(-1, 2), sympy.cos(x) / sympy.sqrt(y * x), x**-0.5, (x - y) ** 0.5,
        sympy.exp(sympy.I * x) / sympy.sqrt(y - x), sympy.sqrt(x) * sympy.sqrt(y), sympy.sqrt(x * y), (x**2) ** sympy.Rational(1, 2), 1 / (1 / x + 1 / y),
        sympy.exp(-x), sympy.exp(x) ** 2, sympy.tan(x - y) - sympy.tan(y - x), x - (y - 1), (x - 1) / (y - 1), x ** (y - 1), x ** (1 / y), (-x) ** y,
        sympy.I * x - y, x - sympy.I * y, sympy.Rational(1, 3) * x - sympy.Rational(2, 3) * y, 0.1 * x + 0.2 * y - 0.3,
    ]:
        add(e, 4)
    # symbol-like objects that are not plain Symbols but print differently from a Symbol of the same base name (Dummy: _x, Wild:
    # x_), next to that Symbol in one expression: they are different unknowns and must stay different
    dx, wx = sympy.Dummy("x"), sympy.Wild("x")
    for e in [x - dx, x * dx + y, x**dx, sympy.exp(sympy.I * (x - dx)), sympy.cos(x) * sympy.sin(dx), x - wx, wx * x**2 + dx, dx / x]:
        add(e, 4)
    # exponents that are not real: purely imaginary ones of modulus 1/2 (where a test on the exponent's absolute value takes them
    # for square roots), other moduli, mixed ones; as Rational and as Float
    Ih = sympy.I
    for base in (x, x + y, x * y, 2 * x, x - 1):
        for ex in (Ih / 2, -Ih / 2, 0.5 * Ih, -0.5 * Ih, Ih, 2 * Ih, Ih / 3, (1 + Ih) / 2, sympy.Rational(3, 10) + sympy.Rational(2, 5) * Ih, 0.3 + 0.4 * Ih, -0.3 - 0.4 * Ih):
            add(base**ex, 4)
            add(1 / base**ex, 4)
    return out


ODD_NAMES = ["theta_{1,2}", "w[0,1]", "a b", "x:3", "beta_10", "x'", "q(0)", "a,b", "t 1", "x0:2", "_", "lambda", "p[1][2]", "x(:2)", "alpha:beta", "K", "theta_1 theta_2"]
UNSUPPORTED = ["log(x)", "Abs(x)", "pi*x", "atan(x)", "x + log(y)", "cos(log(x))", "sec(x)", "f(x)", "sinh(x)", "re(x)", "x**pi", "E*x + asin(y)", "Max(x, y)", "conjugate(x)*y", "sign(x)"]


def instances(tier, seed):
    items = []
    texts = [str_for(e) for d, e in grammar(tier, seed)]
    chunk = 25
    for i in range(0, len(texts), chunk):
        items.append(("rt", {"exprs": texts[i : i + chunk], "label": f"expressions {i}..{i + len(texts[i:i + chunk]) - 1}"}))
    # symbols whose NAMES contain characters that some symbol factories interpret (commas, blanks, colons, brackets, ranges)
    y = _LOC["y"]
    odd = []
    for nm in ODD_NAMES:
        sy = sympy.Symbol(nm)
        odd += [sy, 2 * sy, sy + 1, sy * y, sympy.cos(sy), sy**2, sy / y, y - sy, sympy.exp(sympy.I * sy), sympy.sqrt(sy) * 3, sy ** sympy.Rational(-1, 2), (sy + y) ** 3]
    odd += [sympy.Symbol(a) - sympy.Symbol(b) for a, b in zip(ODD_NAMES, ODD_NAMES[1:])]
    odd_texts = [str_for(e) for e in odd]
    for i in range(0, len(odd_texts), chunk):
        items.append(("rt", {"exprs": odd_texts[i : i + chunk], "label": f"unusual symbol names {i}..{i + len(odd_texts[i:i + chunk]) - 1}"}))
    for t in UNSUPPORTED:
        items.append(("refuse", {"expr": t, "label": f"unsupported {t}"}))
    lim = 40 if tier == "quick" else 130
    for pre, other in (("beta_", "theta_"), ("x", "y"), ("q_0_", None), ("a1b", None)):
        items.append(("keys", {"prefix": pre, "other": other, "limit": lim, "label": f"names {pre}<n>"}))
    for pre, sep in (("x_", "_"), ("t", "s"), ("beta[", "]["), ("", "_")):
        items.append(("keys", {"prefix": pre, "sep": sep, "limit": lim, "label": f"names {pre}<a>{sep}<b>"}))
    L = 10 if tier == "quick" else 18
    for ls in range(1, L + 1):
        for lt in range(1, L + 1):
            if tier == "quick" and abs(ls - lt) > 2 and not stable_pick((ls, lt), 4, seed):
                continue
            for pre, suf in (("beta_", ""), ("x", "]")) if (ls + lt) % 2 == 0 or tier == "thorough" else (("beta_", ""),):
                items.append(("keys-sym", {"ls": ls, "lt": lt, "prefix": pre, "suffix": suf, "label": f"{pre}<{ls} digits>{suf} vs {pre}<{lt} digits>{suf}"}))
    return items


def str_for(e):
    """text that sympify turns back into the same tree (srepr keeps Float precision and evaluate order)"""
    return sympy.srepr(e)


def run(ctx):
    items = instances(ctx.tier, ctx.seed)
    if getattr(ctx, "only", None):
        items = [it for it in items if ctx.only in it[1]["label"] or ctx.only == it[0] or any(ctx.only in t for t in it[1].get("exprs", []))]
    n_expr = sum(len(it[1].get("exprs", [])) for it in items)
    ctx.bounds = {
        "grammar": "atoms {x, y, 2, -1, 3, 1/3, -5/4, 0.5, I}; unary {-, cos, sin, exp, tan, sqrt, 1/.}; binary {+, -, reversed -, *, /, reversed /}; powers with exponents {2,-1,-2,3,1/2,-1/2,0.5,-0.5,1/3,3/2,2.0,x}",
        "depth": f"depth 1 and 2 fully; depth 3 from a seeded subset of depth-2 operands (VERIF_SEED); 36 hand-picked shapes; {n_expr} distinct expressions this run",
        "assignments": "all real symbol values in [-10,10] \\ (-0.1,0.1), every denominator with |den|^2 >= 1e-4, transcendental values within 1e6 in magnitude; tolerance 1e-6",
        "refusal": f"{len(UNSUPPORTED)} expressions with one unsupported construct",
        "natural_keys": "ground: names prefix<n> and prefix<a>sep<b> for all n,a,b below the limit plus large values; both key functions",
    }
    ctx.assume(
        "symbols range over the reals", "non-integer Rationals are compared as their nearest doubles (the property allows the conversion)",
        "cos/sin/tan/exp and non-half-integer powers are uninterpreted functions (sound for equality of round trips; a model under the abstraction is only reported if it reproduces numerically)",
        "sqrt / half-integer powers of syntactically real bases are interpreted exactly including the branch for negative bases",
        "natural keys: re.split on a symbolic string is out of reach of CrossHair here (measured: not confirmed); the clause is a ground enumeration, not solver coverage",
    )
    for it, out in pmap(work, items):
        ctx.merge(out)
    ctx.extra["explanation"] = (
        "expression_from_sympy and translate_expression(SYMPY_DIALECT) are executed on each enumerated expression; the original and the round trip are "
        "translated to z3 terms (arithmetic interpreted, transcendental heads uninterpreted, real square roots exact) and z3 searches for real symbol "
        "values at which they differ by more than 1e-6."
    )


def _eval(e, vals):
    sub = {s: vals.get(str(s), 0.37) for s in e.free_symbols}
    return complex(sympy.sympify(e).subs(sub).evalf(30))


def replay(data):
    inp = data["inputs"]
    clause = inp["clause"]
    try:
        if clause == "unsupported-is-refused":
            bad = refuse_bad(inp["expr"])
            return bool(bad), bad or "refused"
        if clause == "natural-order":
            bad = keys_bad(inp)
            return bool(bad), bad or "ok"
        if clause == "natural-order-symbolic":
            bad = keys_sym_bad(inp, inp.get("values") or {})
            return bool(bad), bad or "ok"
        e = sympy.sympify(inp["expr"], locals=_LOC)
        try:
            tree, e2 = roundtrip(e)
        except Exception as ex:
            return clause == "roundtrip-raises", f"raised {type(ex).__name__}: {ex}"
        if clause == "roundtrip-raises":
            return False, "round trip did not raise"
        vals = {k: float(v) for k, v in (inp.get("values") or {}).items()}
        names = sorted(vals) or [str(s) for s in e.free_symbols]
        points = []
        for signs in itertools.product((1, -1), repeat=len(names)):
            points.append({n: s * vals.get(n, 0.37) for n, s in zip(names, signs)})
        worst, at = 0.0, None
        for pt in points:
            try:
                d = abs(_eval(e, pt) - _eval(e2, pt))
            except Exception:
                continue
            if d == d and d > worst:
                worst, at = d, pt
        return bool(worst > 5e-7), f"|e - roundtrip(e)| = {worst:.3g} at {at}; e = {e}; round trip = {e2}"
    except Exception:
        import traceback

        return False, "replay raised: " + traceback.format_exc()[-600:]
