"""C08 - circuit-level constructions: inverse, controlled, gate layers, ancillas (E1)."""
import itertools
import json
import random
import warnings

import numpy as np
import sympy

from ..core import Result, pmap
from ..front import install_numpy_sympy_shim, mmul, mdag, meye, embed, mkron, mdiag_blocks, Refuse
from ..solve import Prover, first_violation
from .. import circ as CS
from .c01 import mat_delta, oracle_unitary

LEVEL = "model_checking"
S = sympy.Symbol


def _cand(res, clause, what, payload, witness, sub=None):
    res.candidate(clause, what, dict(payload, clause=clause, values=witness or {}), sub=sub or clause)


def _decide(res, P, build, clause, what, payload):
    r = P.prove_zero(clause, build, clause, sub=clause)
    fv = first_violation(r)
    if fv:
        _cand(res, clause, f"{what} (entry {fv[0]})", payload, fv[1])
    return r


def _pad(A, M, n_from, n_to):
    """M acts on the first n_from qubits; extend with identity on the (higher-index) rest."""
    if n_to == n_from:
        return M
    return mkron(A, M, meye(A, 1 << (n_to - n_from)))


def work(item):
    install_numpy_sympy_shim()
    kind, p = item
    res = Result(f"{kind}|{p['label']}")
    try:
        {"inv": _w_inverse, "ctl": _w_controlled, "layer": _w_layer, "anc": _w_ancilla}[kind](res, p)
    except Refuse as e:
        res.ob(1)
        res.inconc(f"translation refused: {e}")
    return res.as_dict()


def _run_pre(p):
    """history: circuits that were built, controlled, inverted and evaluated earlier in the same process"""
    for n0, specs0, k0 in p.get("pre") or []:
        c0 = CS.circuit_from_spec([tuple(s) for s in specs0], n0)
        c0.to_unitary()
        c0.controlled(k0).to_unitary()
        c0.inverse().to_unitary()


_NUM_SETS = [
    {"th0": 0.75, "th1": -1.25, "th2": 0.5, "th3": 2.0},
    {"th0": 0.0, "th1": -7.25, "th2": 13.5, "th3": -0.0},  # zero, more than one turn, negative
    {"th0": -1, "th1": -2, "th2": 1, "th3": 0},  # Python ints that look alike to a dictionary
]


def _bind_numbers(c, k):
    from .c01 import _num_value

    vs = _NUM_SETS[k]
    return c.bind({s: vs.get(str(s), _num_value(str(s))) for s in c.free_symbols}) if c.free_symbols else c


def _npm(M):
    return np.asarray(CS.np_matrix(M, {}), dtype=complex)


def _numeric_inverse_bad(specs, n, unitary):
    """numeric twin (ground): every parameter a number BEFORE the construction is asked for - the branch a symbolic run cannot take"""
    for k in range(len(_NUM_SETS)):
        c = _bind_numbers(CS.circuit_from_spec(specs, n), k)
        inv = c.inverse()
        U, Ui = _npm(c.to_unitary()), _npm(inv.to_unitary())
        if U.shape != Ui.shape:
            return f"shape {Ui.shape} vs {U.shape}"
        d = float(np.abs(Ui - U.conj().T).max())
        if d > 1e-9 * (1 + float(np.abs(U).max())):
            return f"numeric parameters (set {k}): inverse differs from the conjugate transpose by {d:.3g}"
        if unitary:
            d = float(np.abs(_npm((c + inv).to_unitary()) - np.eye(U.shape[0])).max())
            if d > 1e-9:
                return f"numeric parameters (set {k}): circuit + inverse differs from the identity by {d:.3g}"
        d = float(np.abs(_npm(inv.inverse().to_unitary()) - U).max())
        if d > 1e-9 * (1 + float(np.abs(U).max())):
            return f"numeric parameters (set {k}): double inverse differs by {d:.3g}"
        if not c.free_symbols and k == 0 and not CS.circuit_from_spec(specs, n).free_symbols:
            break  # constant circuit: one run
    return None


def _numeric_controlled_bad(specs, n, kctl):
    for k in range(len(_NUM_SETS)):
        c = _bind_numbers(CS.circuit_from_spec(specs, n), k)
        nq = c.n_qubits
        cc = c.controlled(kctl)
        U, Ucc = _npm(c.to_unitary()), _npm(cc.to_unitary())
        blk = np.eye(2 << nq, dtype=complex)
        blk[1 << nq :, 1 << nq :] = U
        want = CS.np_embed(blk, [kctl] + [q + 1 if q >= kctl else q for q in range(nq)], nq + 1)
        if cc.n_qubits < nq + 1:
            Ucc = np.kron(Ucc, np.eye(1 << (nq + 1 - cc.n_qubits)))
        if Ucc.shape != want.shape:
            return f"shape {Ucc.shape} vs {want.shape}"
        d = float(np.abs(Ucc - want).max())
        if d > 1e-9 * (1 + float(np.abs(U).max())):
            return f"numeric parameters (set {k}): controlled({kctl}) differs from |0><0|xI + |1><1|xU by {d:.3g}"
        if not CS.circuit_from_spec(specs, n).free_symbols:
            break
    return None


def _ground(res, clause, bad, what, p):
    res.d["ground_instances"] += 1
    res.ob(1)
    if bad:
        _cand(res, clause, f"{what}: {bad}", p, {}, clause)
    else:
        res.ob(0, 1, "ground-numeric")


def _w_inverse(res, p):
    from orquestra.quantum.circuits import _circuit as CM

    try:  # evidence only: a renamed private helper must not break the check
        res.fn(CM.Circuit.inverse, CM.Circuit.to_unitary, CM.Circuit.__add__)
    except AttributeError:
        pass
    n, specs = p["n"], [tuple(s) for s in p["specs"]]
    _run_pre(p)
    c = CS.circuit_from_spec(specs, n)
    sym = bool(c.free_symbols)
    if sym:
        res.nontrivial()
    else:
        res.d["ground_instances"] += 1
        res.d["instances"] -= 1
    before = list(c.operations)
    inv = c.inverse()
    res.ob(1)
    if inv.n_qubits != c.n_qubits or len(inv.operations) != len(before) or list(c.operations) != before:
        _cand(res, "inverse-structure", f"inverse has n_qubits={inv.n_qubits}/{c.n_qubits}, {len(inv.operations)} ops", p, {})
        return
    res.ob(0, 1, "concrete-structure")
    U, Ui = c.to_unitary(), inv.to_unitary()
    both = (c + inv).to_unitary()
    inv2 = inv.inverse().to_unitary()
    P = Prover(res)
    N = 1 << c.n_qubits
    _decide(res, P, lambda F: mat_delta(F.alg, F.mat(Ui), mdag(F.alg, F.mat(U))), "inverse-is-adjoint", f"inverse of [{CS.spec_str(specs)}] is not the conjugate transpose", p)
    # "circuit + inverse = identity" presupposes unitary gates: generic/constant custom gates (G*, K*) and
    # exp-wrapped gates are not unitary, for them only "inverse = conjugate transpose" is asserted
    if not any(g.startswith(("G", "K")) and g[1:2].isdigit() or "|exp" in g for g, _ in specs):
        _decide(res, P, lambda F: mat_delta(F.alg, F.mat(both), meye(F.alg, N)), "circuit-plus-inverse", f"[{CS.spec_str(specs)}] + inverse is not the identity", p)
    _decide(res, P, lambda F: mat_delta(F.alg, F.mat(inv2), F.mat(U)), "double-inverse", "inverting twice changes the action", p)
    res.sample({"inverse_of": CS.spec_str(specs), "n": n})
    if sym and not any("|exp" in g for g, _ in specs):  # constant circuits already ran on the numeric branch above
        unitary = not any(g.startswith(("G", "K")) and g[1:2].isdigit() for g, _ in specs)
        _ground(res, "inverse-numeric", _numeric_inverse_bad(specs, n, unitary), f"inverse of [{CS.spec_str(specs)}]", p)


def _w_controlled(res, p):
    from orquestra.quantum.circuits import _circuit as CM

    try:  # evidence only: a renamed private helper must not break the check
        res.fn(CM.Circuit.controlled)
    except AttributeError:
        pass
    n, specs, k = p["n"], [tuple(s) for s in p["specs"]], p["k"]
    _run_pre(p)
    c = CS.circuit_from_spec(specs, n)
    n = c.n_qubits
    if c.free_symbols:
        res.nontrivial()
    else:
        res.d["ground_instances"] += 1
        res.d["instances"] -= 1
    cc = c.controlled(k)
    res.ob(1)
    want_idx = [[k] + [q + 1 if q >= k else q for q in op.qubit_indices] for op in c.operations]
    got_idx = [list(op.qubit_indices) for op in cc.operations]
    if got_idx != want_idx or cc.n_qubits > n + 1:
        _cand(res, "controlled-indices", f"controlled({k}) of [{CS.spec_str(specs)}] has indices {got_idx}, want {want_idx}; n_qubits={cc.n_qubits}", p, {})
        return
    res.ob(0, 1, "concrete-structure")
    U, Ucc = c.to_unitary(), cc.to_unitary()
    P = Prover(res)

    def b(F):
        A = F.alg
        Um = F.mat(U)
        blk = mdiag_blocks(A, [meye(A, 1 << n), Um])  # control first, then original qubits in order
        want = embed(A, blk, [k] + [q + 1 if q >= k else q for q in range(n)], n + 1)
        got = _pad(A, F.mat(Ucc), cc.n_qubits, n + 1)
        return mat_delta(A, got, want)

    _decide(res, P, b, "controlled-action", f"controlled({k}) of [{CS.spec_str(specs)}] is not |0><0|xI + |1><1|xU with shifted indices", p)
    res.sample({"controlled": CS.spec_str(specs), "control_index": k, "n": n})
    if c.free_symbols and not any("|exp" in g for g, _ in specs):
        _ground(res, "controlled-numeric", _numeric_controlled_bad(specs, p["n"], k), f"controlled({k}) of [{CS.spec_str(specs)}]", p)


FACTORIES = {"X": 0, "H": 0, "RX": 1, "RZ": 1, "RY": 1, "PHASE": 1, "U3": 3, "Delay": 1}


def _factory(name):
    from orquestra.quantum.circuits import _builtin_gates as B

    return getattr(B, name)


def _w_layer(res, p):
    from orquestra.quantum.circuits import _generators as GN, Circuit

    try:  # evidence only: a renamed private helper must not break the check
        res.fn(GN.apply_gate_to_qubits, GN.create_layer_of_gates)
    except AttributeError:
        pass
    fname, npar = p["factory"], FACTORIES[p["factory"]]
    fac = _factory(fname)
    res.nontrivial()
    if p["mode"] == "layer":
        n = p["n"]
        rows = [[S(f"w{q}_{j}") for j in range(npar)] for q in range(n)] if npar else None
        c = GN.create_layer_of_gates(n, fac, rows)
        qubits = list(range(n))
        base_ops = []
        row_of = {q: rows[q] for q in range(n)} if npar else {}
    else:
        qubits = p["qubits"]
        base = CS.circuit_from_spec([tuple(s) for s in p["base"]], p.get("base_n"))
        base_ops = list(base.operations)
        uniq = sorted(set(qubits))
        rows = [[S(f"w{i}_{j}") for j in range(npar)] for i in range(len(uniq))] if npar else None
        with warnings.catch_warnings():
            warnings.simplefilter("ignore")
            c = GN.apply_gate_to_qubits(base, qubits, fac, rows)
        row_of = None
        res.ob(1)
        if list(base.operations) != base_ops:
            _cand(res, "layer-input-mutated", "apply_gate_to_qubits modified the circuit it was given", p, {})
        else:
            res.ob(0, 1, "concrete-structure")
    new_ops = list(c.operations)[len(base_ops):]
    res.ob(1)
    problems = []
    if list(c.operations)[: len(base_ops)] != base_ops:
        problems.append("existing operations not kept in place")
    if sorted(op.qubit_indices[0] for op in new_ops) != sorted(set(qubits)) or any(len(op.qubit_indices) != 1 for op in new_ops):
        problems.append(f"gates on qubits {[op.qubit_indices for op in new_ops]}, want one per distinct qubit of {qubits}")
    if any(op.gate.name != fname for op in new_ops):
        problems.append("wrong gate kind")
    if npar:
        used = [tuple(op.gate.params) for op in new_ops]
        if sorted(map(str, used)) != sorted(str(tuple(r)) for r in rows):
            problems.append(f"parameter rows used {used}, want each of {rows} once")
        if row_of is not None:
            for op in new_ops:
                if tuple(op.gate.params) != tuple(row_of[op.qubit_indices[0]]):
                    problems.append(f"qubit {op.qubit_indices[0]} carries {op.gate.params}, want row {row_of[op.qubit_indices[0]]}")
    if problems:
        _cand(res, "layer-structure", "; ".join(problems)[:300], p, {})
        return
    res.ob(0, 1, "concrete-structure")
    if p["mode"] == "layer":
        U = c.to_unitary()
        P = Prover(res)

        def b(F):
            A = F.alg
            want = None
            for q in range(p["n"]):
                g = fac(*rows[q]) if npar else fac
                m = F.mat(g.matrix)
                want = m if want is None else mkron(A, want, m)
            return mat_delta(A, F.mat(U), want)

        _decide(res, P, b, "layer-unitary", f"layer of {fname} on {p['n']} qubits is not the tensor product with row i on qubit i", p)
    res.sample({"layer": fname, "mode": p["mode"], "qubits": qubits, "rows": str(rows)[:120]})


def _w_ancilla(res, p):
    from orquestra.quantum.circuits import _generators as GN

    try:  # evidence only: a renamed private helper must not break the check
        res.fn(GN.add_ancilla_register)
    except AttributeError:
        pass
    n, specs, k = p["n"], [tuple(s) for s in p["specs"]], p["k"]
    c = CS.circuit_from_spec(specs, n)
    before = list(c.operations)
    if c.free_symbols:
        res.nontrivial()
    else:
        res.d["ground_instances"] += 1
        res.d["instances"] -= 1
    e = GN.add_ancilla_register(c, k)
    res.ob(1)
    if e.n_qubits != c.n_qubits + k or list(c.operations) != before or list(e.operations)[: len(before)] != before:
        _cand(res, "ancilla-width", f"add_ancilla_register(k={k}): n_qubits {c.n_qubits} -> {e.n_qubits}", p, {})
        return
    res.ob(0, 1, "concrete-structure")
    if not c.operations:
        return
    U, Ue = c.to_unitary(), (e.to_unitary() if e.operations else None)
    P = Prover(res)

    def b(F):
        A = F.alg
        return mat_delta(A, F.mat(Ue), _pad(A, F.mat(U), c.n_qubits, c.n_qubits + k))

    _decide(res, P, b, "ancilla-action", f"adding {k} ancillas changes the action on the original qubits", p)
    res.sample({"ancilla": CS.spec_str(specs), "k": k})


def _l(s):
    return [s[0], list(s[1])]


def instances(tier, seed):
    rng = random.Random(seed * 104729 + 5)
    items = []
    pool1 = ["RX(th0)", "U3(th0,th1,th2)", "S", "T", "X", "H", "G1", "RZ(th1)|c1", "RY(th0)|dagger", "PHASE(th1)|dagger", "SX", "GPi(th2)", "U3(th0,th1,th2)|dagger", "CDI", "CSY(th0)", "CSY(th0)|c1", "CDI|c1"]
    pool2 = ["XX(th2)", "CNOT", "ISWAP", "K2", "XY(th0)", "MS(th0,th1)", "CPHASE(th1)|dagger", "ISWAP|dagger", "G2"]
    ground1 = ["SX|pow(2)", "T|pow(3)", "S|pow(-1)", "S|pow(0.5)", "T|dagger|pow(2)", "RX(0.3)|exp", "SX|pow(0.5)|c1", "X|pow(0.5)", "Z|pow(1/3)"]

    def arity(gid):
        return CS.gate_by_id(gid).num_qubits

    def rand_circ(n, L, pools):
        specs = []
        for _ in range(L):
            gid = rng.choice(pools)
            k = arity(gid)
            if k > n:
                gid, k = "RX(th0)", 1
            specs.append((gid, tuple(rng.sample(range(n), k))))
        return specs

    fixed_inv = [
        (2, [("RX(th0)", (0,)), ("CNOT", (0, 1)), ("U3(th0,th1,th2)", (1,))]),
        (3, [("RZ(th1)|c1", (2, 0)), ("S", (1,)), ("XX(th2)", (1, 2))]),
        (2, [("G1", (1,)), ("ISWAP", (1, 0))]),
        (1, [("T", (0,)), ("SX", (0,)), ("RY(th0)|dagger", (0,))]),
        (3, [("G2", (2, 0)), ("T", (1,))]),
        (3, [("H", (2,))]),
        (2, [("CDI", (0,)), ("CSY(th0)", (1,)), ("CDI|c1", (1, 0))]),
    ]
    for n, specs in fixed_inv:
        items.append(("inv", {"n": n, "specs": [_l(s) for s in specs], "label": f"n={n} {CS.spec_str(specs)}"}))
    for j in range(14 if tier == "quick" else 90):
        n = rng.choice([1, 2, 2, 3])
        specs = rand_circ(n, rng.choice([1, 2, 3]), pool1 + pool2)
        if sum(g in ("G2",) for g, _ in specs) > 1:
            specs = specs[:1]
        items.append(("inv", {"n": n if rng.random() < 0.6 else None, "specs": [_l(s) for s in specs], "label": f"n={n} {CS.spec_str(specs)} #{j}"}))
    for j, gid in enumerate(ground1):
        specs = [(gid, tuple(range(arity(gid)))), ("H", (0,))]
        items.append(("inv", {"n": None, "specs": [_l(s) for s in specs], "label": f"ground {CS.spec_str(specs)}"}))
    # controlled: every control position 0..n
    ctl_fixed = [
        (1, [("RX(th0)", (0,))]),
        (2, [("RY(th0)", (1,)), ("CNOT", (1, 0))]),
        (2, [("G1", (0,)), ("XX(th2)", (0, 1))]),
        (2, [("U3(th0,th1,th2)", (1,)), ("RZ(th1)|c1", (1, 0))]),
        (3, [("RX(th0)", (0,))]),
        (2, [("X|c1", (1, 0)), ("Z|c1", (0, 1)), ("RY(th0)|c1", (0, 1)), ("RZ(th0)|c1", (0, 1))]),
        (2, [("S|dagger", (0,)), ("T", (1,)), ("K2", (1, 0))]),
    ]
    for n, specs in ctl_fixed:
        for k in range(n + 1):
            items.append(("ctl", {"n": n, "specs": [_l(s) for s in specs], "k": k, "label": f"n={n} k={k} {CS.spec_str(specs)}"}))
    # look-alikes: wrappers that report the wrapper's name (every exponential is "Exponential", every controlled gate
    # "Control") next to each other in one circuit, and custom gates that re-use a name from one circuit to the next
    # (the earlier circuits are a history executed in the same process)
    alike = [
        (2, [("Z|exp", (0,)), ("X|exp", (1,)), ("Z|exp", (1,))], []),
        (2, [("X|c1", (0, 1)), ("Z|c1", (0, 1)), ("H", (0,))], []),
        (2, [("H", (1,)), ("UB", (0,)), ("X", (1,))], [[2, [["H", [1]], ["UA", [0]], ["X", [1]]], 0]]),
        (1, [("UC", (0,))], [[1, [["UA", [0]]], 1], [1, [["UB", [0]]], 0]]),
        (2, [("Y|exp", (1,)), ("RX(th0)", (0,))], [[2, [["X|exp", [1]], ["RX(th0)", [0]]], 1]]),
    ]
    for n, specs, pre in alike:
        for k in ((0, n) if tier == "quick" else range(n + 1)):
            items.append(("ctl", {"n": n, "specs": [_l(s) for s in specs], "k": k, "pre": pre, "label": f"look-alikes n={n} k={k} {CS.spec_str(specs)} after {len(pre)} earlier circuits"}))
        items.append(("inv", {"n": n, "specs": [_l(s) for s in specs], "pre": pre, "label": f"look-alikes n={n} {CS.spec_str(specs)} after {len(pre)} earlier circuits"}))
    # every built-in gate (read from the library's table at run time), bare, as a one-operation circuit: control below and
    # above it, inverse
    from .c02 import gate_table

    for name, (gkind, _obj, npar) in sorted(gate_table().items()):
        gid = name if gkind == "const" else f"{name}({','.join('th%d' % i for i in range(npar))})"
        a = arity(gid)
        for k in ((0, a) if tier == "quick" else range(a + 1)):
            items.append(("ctl", {"n": a, "specs": [_l((gid, tuple(range(a))))], "k": k, "label": f"builtin n={a} k={k} {gid}"}))
        items.append(("inv", {"n": a, "specs": [_l((gid, tuple(reversed(range(a)))))], "label": f"builtin n={a} {gid} reversed qubits"}))
    for j in range(6 if tier == "quick" else 40):
        n = rng.choice([1, 2, 2])
        specs = rand_circ(n, rng.choice([1, 2, 3]), [g for g in pool1 + pool2 if g not in ("G2", "RZ(th1)|c1")])
        specs.append(("RX(th0)", (n - 1,)))
        k = rng.randrange(n + 1)
        items.append(("ctl", {"n": n, "specs": [_l(s) for s in specs], "k": k, "label": f"n={n} k={k} {CS.spec_str(specs)} #{j}"}))
    # layers
    for fname in FACTORIES:
        for n in ([1, 3] if tier == "quick" else [1, 2, 3, 4]):
            items.append(("layer", {"mode": "layer", "factory": fname, "n": n, "label": f"layer {fname} n={n}"}))
    qsets = [[2, 0], [0, 0, 1], [3, 1, 2, 1, 3], [1], [4, 2, 0], [0, 1, 2, 3]]
    for fname in (["RX", "U3", "X"] if tier == "quick" else list(FACTORIES)):
        for qs in qsets:
            items.append(("layer", {"mode": "apply", "factory": fname, "qubits": qs, "base": [_l(("H", (0,))), _l(("CNOT", (0, 1)))], "base_n": 2, "label": f"apply {fname} on {qs}"}))
    # ancillas
    anc = [(2, [("RX(th0)", (0,)), ("CNOT", (0, 1))]), (1, [("G1", (0,))]), (3, [("T", (1,))]), (2, [("K2", (1, 0))])]
    for n, specs in anc:
        for k in (0, 1, 2):
            items.append(("anc", {"n": n, "specs": [_l(s) for s in specs], "k": k, "label": f"n={n} k={k} {CS.spec_str(specs)}"}))
    items.append(("anc", {"n": 2, "specs": [], "k": 2, "label": "empty n=2 k=2"}))
    return items


def run(ctx):
    items = instances(ctx.tier, ctx.seed)
    if getattr(ctx, "only", None):
        items = [it for it in items if ctx.only in it[1]["label"] or ctx.only == it[0]]
    ctx.bounds = {
        "inverse": "circuits of <= 3 operations on n <= 3 over parametric, self-adjoint, wrapped (controlled/dagger), generic and constant custom gates; power/exp wrapped gates as ground instances",
        "controlled": "circuits on n <= 2 (3 for a single gate), every control position 0..n",
        "layers": f"factories {sorted(FACTORIES)} (0..3 parameters), n <= 4, qubit collections unordered/with duplicates, rows as Python lists of symbols",
        "ancillas": "0..2 ancilla qubits",
    }
    ctx.assume("A-ENV-1 shim", "parameter rows are Python lists of sympy symbols (numpy rows would put np.float64 into sympy)", "Circuit.controlled may drop idle width: compared after identity padding")
    for it, out in pmap(work, items):
        ctx.merge(out)
    ctx.extra["explanation"] = (
        "Circuit.inverse/controlled, the layer builders and add_ancilla_register are executed on symbolic circuits; the unitary meaning "
        "(adjoint, identity, |0><0|xI+|1><1|xU with shifted indices, tensor product of rows, U x I) is decided by z3 for all parameter values; "
        "structural clauses (one op per distinct qubit, rows used once, inputs untouched) are compared concretely on the same runs."
    )


def replay(data):
    install_numpy_sympy_shim()
    inp = data["inputs"]
    clause = inp["clause"]
    vals = {k: float(v) for k, v in (inp.get("values") or {}).items()}
    ev = lambda x: CS.np_matrix(x, vals)  # noqa: E731

    def differs(a, b):
        a, b = np.asarray(a, dtype=complex), np.asarray(b, dtype=complex)
        if a.shape != b.shape:
            return True, f"shape {a.shape} vs {b.shape}"
        d = np.abs(a - b).max()
        return bool(d > 1e-6 * (1 + np.abs(b).max())), f"max|delta|={d:.3g} at {vals}"

    try:
        _run_pre(inp)
        if clause == "inverse-numeric":
            specs = [tuple(s) for s in inp["specs"]]
            bad = _numeric_inverse_bad(specs, inp["n"], not any(g.startswith(("G", "K")) and g[1:2].isdigit() for g, _ in specs))
            return bool(bad), bad or "ok"
        if clause == "controlled-numeric":
            bad = _numeric_controlled_bad([tuple(s) for s in inp["specs"]], inp["n"], inp["k"])
            return bool(bad), bad or "ok"
        if clause.startswith("inverse") or clause in ("circuit-plus-inverse", "double-inverse"):
            c = CS.circuit_from_spec([tuple(s) for s in inp["specs"]], inp["n"])
            inv = c.inverse()
            if clause == "inverse-structure":
                return (inv.n_qubits != c.n_qubits or len(inv.operations) != len(c.operations)), "structure"
            U = ev(c.to_unitary())
            if clause == "inverse-is-adjoint":
                return differs(ev(inv.to_unitary()), U.conj().T)
            if clause == "circuit-plus-inverse":
                return differs(ev((c + inv).to_unitary()), np.eye(U.shape[0]))
            return differs(ev(inv.inverse().to_unitary()), U)
        if clause.startswith("controlled"):
            c = CS.circuit_from_spec([tuple(s) for s in inp["specs"]], inp["n"])
            n, k = c.n_qubits, inp["k"]
            cc = c.controlled(k)
            want_idx = [[k] + [q + 1 if q >= k else q for q in op.qubit_indices] for op in c.operations]
            if clause == "controlled-indices":
                return [list(op.qubit_indices) for op in cc.operations] != want_idx or cc.n_qubits > n + 1, "indices"
            U = ev(c.to_unitary())
            blk = np.eye(2 << n, dtype=complex)
            blk[1 << n:, 1 << n:] = U
            want = CS.np_embed(blk, [k] + [q + 1 if q >= k else q for q in range(n)], n + 1)
            got = ev(cc.to_unitary())
            if cc.n_qubits < n + 1:
                got = np.kron(got, np.eye(1 << (n + 1 - cc.n_qubits)))
            return differs(got, want)
        if clause.startswith("layer") or clause.startswith("ancilla"):
            r = Result("replay")
            (_w_layer if clause.startswith("layer") else _w_ancilla)(r, {k: v for k, v in inp.items() if k not in ("clause", "values")} | {"label": "replay"})
            cands = [c for c in r.d["candidates"] if c["clause"] == clause]
            if not cands:
                return False, "no violation on re-execution"
            if clause in ("layer-unitary", "ancilla-action"):
                # numeric confirmation at the witness
                from orquestra.quantum.circuits import _generators as GN

                if clause == "ancilla-action":
                    c = CS.circuit_from_spec([tuple(s) for s in inp["specs"]], inp["n"])
                    e = GN.add_ancilla_register(c, inp["k"])
                    return differs(ev(e.to_unitary()), np.kron(ev(c.to_unitary()), np.eye(1 << inp["k"])))
                fname, npar, n = inp["factory"], FACTORIES[inp["factory"]], inp["n"]
                fac = _factory(fname)
                rows = [[S(f"w{q}_{j}") for j in range(npar)] for q in range(n)] if npar else None
                c = GN.create_layer_of_gates(n, fac, rows)
                want = np.eye(1)
                for q in range(n):
                    want = np.kron(want, ev((fac(*rows[q]) if npar else fac).matrix))
                return differs(ev(c.to_unitary()), want)
            return True, cands[0]["what"]
    except Exception:
        import traceback

        return False, "replay raised: " + traceback.format_exc()[-500:]
    return False, f"unknown clause {clause}"
