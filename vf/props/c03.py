"""C03 - Pauli operator arithmetic is faithful to matrix arithmetic. E2 (SymTrace)."""
import itertools
import json
import os
import random

import numpy as np
import z3

from ..core import Result, pmap, stable_pick
from .. import symtrace as ST
from .. import pauli as PL

LEVEL = "model_checking"
BOUND = 4  # |Re c|, |Im c| <= BOUND for every symbolic coefficient (stated bound)
TOL1 = 4e-8  # single operation: at most one dropped (<= 1e-8) sum per string
REPLAY_TOL1 = 2e-8
# simplify() alone makes exactly one drop decision per Pauli string (|summed coefficient| <= 1e-8, numpy.isclose to 0 with
# atol 1e-8), so in exact arithmetic it moves no coefficient by more than 1e-8: asserted with a 0.1 % margin
TOL_SIMPLIFY = 1.001e-8
REPLAY_TOL_SIMPLIFY = 1.0005e-8


def pow_tolerance(spec, k):
    """Sound bound on | computed(A**k) - den(A)**k | per Pauli string. The library simplifies after EVERY product and drops
    each string whose summed coefficient is <= 1e-8 (isclose to 0); later products multiply such a drop by the other
    coefficients, so the deviation compounds with the l1-norm S of A's coefficient vector. With E_j the l1 error of the
    computed A**j, m the number of distinct strings and the library's recursion (odd: A * A**(j-1); even: square of
    A**(j/2)):  E_0 = 0,  E_j = S*E_(j-1) + m*eps  (odd),  E_j = 2*S**(j/2)*E_(j/2) + E_(j/2)**2 + m*eps  (even).
    S is taken at the stated coefficient bound (|part| <= BOUND), so the bound holds for every value the solver may pick.
    (The first version used a fixed 1e-6: the thorough tier found (r5*X0Y1 + 0.5*Z1 + r6)**4 with r5 = -7.45e-9, r6 = -3.5,
    where dropping the r5 term in A * identity costs 4*r5*r6**3 = 1.3e-6 - the library's tolerance at work, not a defect.)"""
    terms = spec[1] if spec[0] == "sum" else [[spec[1], spec[2]]]
    S, qubits = 0.0, set()
    for ops, c in terms:
        qubits |= set(ops)
        if isinstance(c, str):
            S += BOUND * (2**0.5 if c[0] == "c" else 1.0)
        elif isinstance(c, list):
            S += abs(complex(*c))
        else:
            S += abs(c)
    m = 4 ** max(1, len(qubits))
    eps = 1e-8

    def E(j):
        if j == 0:
            return 0.0
        if j % 2 == 1:
            return S * E(j - 1) + m * eps
        h = E(j // 2)
        return 2 * S ** (j // 2) * h + h * h + m * eps

    return max(4e-8, 2 * E(k))


def _patched():
    import numpy
    from orquestra.quantum.operators import _pauli_operators as PO

    return ST.patched((PO, "np", ST.NpProxy(numpy)), (PO, "float", ST.float_shadow), (PO, "complex", ST.complex_shadow))


class Vars:
    def __init__(self, pin=False):
        self.names = []
        self.cons = []
        self.pin = pin
        self.npin = 0

    def coeff(self, spec):
        """spec: 'c<k>' symbolic complex, 'r<k>' symbolic real, 'z<k>' symbolic real pinned to 0, else a number."""
        if isinstance(spec, str) and spec[0] in "cr":
            if spec[0] == "c":
                v = ST.complex_var(spec)
                parts = [v.re.z, v.im.z]
            else:
                # real symbolic coefficient: carried as a complex with imaginary part 0, because
                # `complex * float-subclass` would be computed at C level (NaN poison)
                rv = ST.real_var(spec)
                v = ST.CV(rv, 0)
                parts = [rv.z]
            for pz in parts:
                if str(pz) not in self.names:
                    self.names.append(str(pz))
                    self.cons += [pz <= BOUND, pz >= -BOUND]
            return v
        if self.pin and isinstance(spec, (int, float, list)) and not isinstance(spec, bool):
            # == instances: concrete coefficients become symbolic values pinned by a constraint, so that
            # every term hashes through the same constant placeholder
            self.npin += 1
            re, im = (spec if isinstance(spec, list) else (spec, None))
            vr = ST.real_var(f"pin{self.npin}_re")
            self.cons.append(vr.z == ST.zr_real(float(re)))
            if im is None:
                return ST.CV(vr, 0)
            vi = ST.real_var(f"pin{self.npin}_im")
            self.cons.append(vi.z == ST.zr_real(float(im)))
            return ST.CV(vr, vi)
        if isinstance(spec, list):
            return complex(spec[0], spec[1])
        return spec


def build_operand(spec, V, concrete=None):
    from orquestra.quantum.operators import PauliTerm, PauliSum

    def cf(s):
        if concrete is not None and isinstance(s, str):
            if concrete.get("__kind__") == "int":  # typed twin: every symbolic coefficient is a Python int
                return int(concrete.get(s + "_re" if s[0] == "c" else s, 0))
            if s[0] == "c":
                return complex(concrete.get(s + "_re", 0.0), concrete.get(s + "_im", 0.0))
            return float(concrete.get(s, 0.0))
        return V.coeff(s)

    kind = spec[0]
    if kind == "term":
        return PauliTerm({int(q): l for q, l in spec[1].items()}, cf(spec[2]))
    if kind == "sum":
        return PauliSum([PauliTerm({int(q): l for q, l in ops.items()}, cf(c)) for ops, c in spec[1]])
    if kind == "num":
        v = spec[1]
        return complex(v[0], v[1]) if isinstance(v, list) else v
    raise ValueError(kind)


def cm_any(x):
    if isinstance(x, (int, float, complex)) and not ST.is_sym(x):
        return {frozenset(): x}
    return PL.cmap_of(x)


def apply_op(op, A, B):
    if op == "+":
        return A + B
    if op == "-":
        return A - B
    if op == "*":
        return A * B
    if op == "/":
        return A / B
    if op.startswith("**"):
        return A ** int(op[2:])
    if op == "simplify":
        return A.simplify()
    raise ValueError(op)


def expected_cm(op, cmA, cmB, Bnum=None):
    if op == "+":
        return PL.cm_add(cmA, cmB)
    if op == "-":
        return PL.cm_add(cmA, cmB, -1)
    if op == "*":
        return PL.cm_mul(cmA, cmB)
    if op == "/":
        return PL.cm_scale(cmA, 1 / Bnum)
    if op.startswith("**"):
        return PL.cm_pow(cmA, int(op[2:]))
    if op == "simplify":
        return cmA
    raise ValueError(op)


def _parts(v):
    c = ST.CV.lift(v)
    return ST.zr_real(c.re), ST.zr_real(c.im)


def _within(delta, tol):
    re, im = _parts(delta)
    t = z3.RealVal(str(tol))
    return z3.And(re <= t, re >= -t, im <= t, im >= -t)


def work(item):
    kind, p = item
    res = Result(f"{kind}|{p['label']}")
    from orquestra.quantum.operators import _pauli_operators as PO

    try:  # evidence only: a renamed private helper must not break the check
        res.fn(PO.PauliTerm.__mul__, PO.PauliTerm._multiply_by_operator, PO.PauliTerm.__add__, PO.PauliTerm.__sub__, PO.PauliTerm.__rsub__, PO.PauliTerm.__truediv__, PO.PauliTerm.__pow__, PO.PauliTerm.__eq__, PO.PauliTerm.__hash__, PO.PauliSum.__add__, PO.PauliSum.__mul__, PO.PauliSum.__rmul__, PO.PauliSum.__sub__, PO.PauliSum.__rsub__, PO.PauliSum.__truediv__, PO.PauliSum.__pow__, PO.PauliSum.simplify, PO.PauliSum.__eq__, PO._efficient_exponentiation)
    except AttributeError:
        pass
    res.d["cuts"].append("numpy proxy in _pauli_operators: isclose/allclose -> exact-real formula |a-b| <= atol + rtol|b| as a forked predicate")
    res.d["cuts"].append("round() of a symbolic coefficient inside PauliTerm.__hash__ is a constant-hash placeholder: set membership falls through to the real __eq__")
    try:
        if kind == "eqground":
            _w_eqground(res, p)
        else:
            with _patched():
                (_w_eq if kind == "eq" else _w_arith)(res, p)
    except ST.Inconclusive as e:
        res.ob(1)
        res.inconc(str(e))
    return res.as_dict()


def _w_arith(res, p):
    op = p["op"]
    V = Vars()
    records = []

    def fn(ex):
        A = build_operand(p["A"], V)
        B = build_operand(p["B"], V) if p.get("B") else None
        cmA = cm_any(A)
        cmB = cm_any(B) if B is not None else None
        # receiver/argument snapshots (C20 by-product): coefficient maps before/after
        R = apply_op(op, A, B)
        if ST.poisoned([t.coefficient for t in R.terms]):
            raise ST.Inconclusive("NaN poison: a symbolic value was concretised silently")
        cmR = PL.cmap_of(R)
        exp = expected_cm(op, cmA, cmB, (complex(*p["B"][1]) if isinstance(p["B"][1], list) else p["B"][1]) if op == "/" else None)
        tol = pow_tolerance(p["A"], int(op[2:])) if op.startswith("**") else (TOL_SIMPLIFY if op == "simplify" else TOL1)
        claims = []
        for k in sorted(set(cmR) | set(exp), key=lambda kk: sorted(kk)):
            claims.append(_within(cmR.get(k, 0) - exp.get(k, 0), tol))
        # arguments unchanged
        same = []
        for before, obj in ((cmA, A), (cmB, B)):
            if obj is None or not hasattr(obj, "terms"):
                continue
            after = PL.cmap_of(obj)
            if set(after) != set(before):
                same.append(False)
            else:
                for k in before:
                    a_re, a_im = _parts(after[k])
                    b_re, b_im = _parts(before[k])
                    same.append(z3.And(a_re == b_re, a_im == b_im))
        v1, m1 = "holds", None
        for cl in claims:  # one query per Pauli string
            vv, mm = ex.prove(cl)
            if vv == "violated":
                v1, m1 = vv, mm
                break
            if vv == "unknown":
                v1 = "unknown"
        v2, m2 = ex.prove(z3.And(*[s for s in same]) if same else True)
        records.append((v1, m1, v2, m2))
        return R

    ex = ST.Explorer(base=[], timeout_ms=8000, max_paths=600, logic="auto")
    V.cons = []
    # constraints are created on first execution; run once to collect them
    ex.base = _LazyBase(V)
    outs = ex.run(fn)
    res.d["paths"] += ex.npaths
    res.d["solver_queries"] += ex.queries
    res.d["solver_s"] += ex.solver_s
    if V.names:
        res.nontrivial()
    else:
        res.d["ground_instances"] += 1
        res.d["instances"] -= 1
    nexc = 0
    for o in outs:
        if o[0] == "exc":
            nexc += 1
            res.ob(1)
            res.candidate("operation-raises", f"{p['label']} raised {type(o[1]).__name__}: {str(o[1])[:120]}", dict(p, clause="operation-raises", values={}), sub="operation-raises")
    for v1, m1, v2, m2 in records:
        res.ob(2)
        for clause, v, m in (("denotes-matrix-operation", v1, m1), ("arguments-unchanged", v2, m2)):
            if v == "holds":
                res.ob(0, 1, "A:z3")
            elif v == "violated":
                vals = {n: ST.model_value(m, z3.Real(n)) for n in V.names} if m is not None else {}
                res.candidate(clause, f"{p['label']}: {clause} fails", dict(p, clause=clause, values=vals), sub=clause)
            else:
                res.inconc("z3 unknown on the path obligation", clause)
    res.sample({"operation": p["label"], "paths": ex.npaths})
    # typed twins (ground): the same operation with every coefficient a Python int, then a Python float - arithmetic that goes
    # through numpy arrays or integer division depends on the KIND of number, which the symbolic run cannot vary
    if V.names:
        for kind, pool in (("int", [3, -2, 5, 1, -1, 2]), ("float", [0.75, -1.5, 2.25, 0.5, -0.25, 1.0])):
            vals = {nm: pool[i % len(pool)] for i, nm in enumerate(V.names)}
            if kind == "int":
                vals["__kind__"] = "int"
            res.d["ground_instances"] += 1
            for clause in ("denotes-matrix-operation", "arguments-unchanged"):
                res.ob(1)
                bad, detail = replay({"inputs": dict(p, clause=clause, values=vals)})
                if bad:
                    res.candidate(clause, f"{p['label']} with {kind} coefficients {vals}: {clause} fails: {detail}", dict(p, clause=clause, values=vals), sub=f"{clause}:{kind}")
                else:
                    res.ob(0, 1, "ground-numeric")


class _LazyBase(list):
    """base constraints that grow as symbolic variables get created during the first run."""

    def __init__(self, V):
        super().__init__()
        self.V = V

    def __iter__(self):
        return iter(self.V.cons)


def _w_eq(res, p):
    """== between simplified operators: exact-equal denotations => True; >= 1e-3 apart => False."""
    V = Vars(pin=True)
    records = []

    def fn(ex):
        V.npin = 0
        V.cons = [c for c in V.cons if "pin" not in str(c)]
        A = build_operand(p["A"], V).simplify() if p["A"][0] == "sum" else build_operand(p["A"], V)
        B = build_operand(p["B"], V).simplify() if p["B"][0] == "sum" else build_operand(p["B"], V)
        cmA, cmB = cm_any(A), cm_any(B)
        r = A == B
        if isinstance(r, ST.SB):
            r = bool(r)
        keys = set(cmA) | set(cmB)
        exact = z3.And(*[z3.And(*[x == y for x, y in zip(_parts(cmA.get(k, 0)), _parts(cmB.get(k, 0)))]) for k in keys]) if keys else True
        gap = z3.RealVal("1/1000")
        far = z3.Or(*[z3.Or(*[z3.Or(x - y >= gap, y - x >= gap) for x, y in zip(_parts(cmA.get(k, 0)), _parts(cmB.get(k, 0)))]) for k in keys]) if keys else False
        if r:
            v, m = ex.prove(z3.Not(far))  # True is never returned for operators >= 1e-3 apart
        else:
            v, m = ex.prove(z3.Not(exact))  # False is never returned for exactly equal denotations
        records.append((bool(r), v, m))
        return r

    ex = ST.Explorer(base=_LazyBase(V), timeout_ms=8000, max_paths=600, logic="auto")
    outs = ex.run(fn)
    res.d["paths"] += ex.npaths
    res.d["solver_queries"] += ex.queries
    res.d["solver_s"] += ex.solver_s
    res.nontrivial()
    for o in outs:
        if o[0] == "exc":
            res.ob(1)
            res.candidate("eq-raises", f"{p['label']} raised {type(o[1]).__name__}: {str(o[1])[:120]}", dict(p, clause="eq-raises", values={}), sub="eq-raises")
    seen = set()
    for r, v, m in records:
        seen.add(r)
        res.ob(1)
        clause = "eq-true-only-if-close" if r else "eq-false-only-if-different"
        if v == "holds":
            res.ob(0, 1, "A:z3")
        elif v == "violated":
            vals = {n: ST.model_value(m, z3.Real(n)) for n in V.names}
            res.candidate(clause, f"{p['label']}: == returned {r} against the denoted matrices", dict(p, clause=clause, values=vals), sub=clause)
        else:
            res.inconc("z3 unknown", clause)
    res.d["vacuity_twins"] += 1
    if p.get("expect_both") is False or seen == {True, False}:
        res.d["vacuity_ok"] += 1
    else:
        res.herr(f"== harness explored only outcomes {seen}")
    res.sample({"equality": p["label"], "paths": ex.npaths, "outcomes": sorted(seen)})


# ---- ground == instances (real hashing, concrete coefficients) ------------------------------


def _eq_ground_cases():
    from orquestra.quantum.operators import PauliTerm, PauliSum

    cases = []
    coeffs = [0.1, 0.3, 0.7, 1.1, 2.5, -0.45, 1e-3, 0.123456, 3.3, 0.5j, 0.1 + 0.2j, -1.7 + 0.3j]
    for i, c in enumerate(coeffs):
        a = PauliSum([PauliTerm({0: "X", 1: "Y"}, c), PauliTerm({2: "Z"}, 1.0)])
        for k in (7, 3, 0.1, 9.3):
            cases.append((f"(a/{k})*{k} == a, c={c}", (a / k) * k, a, True))
        b = PauliSum([PauliTerm({2: "Z"}, 1.0), PauliTerm({0: "X", 1: "Y"}, c)])
        cases.append((f"term order, c={c}", a, b, True))
        cases.append((f"a + a - a == a, c={c}", a + a - a, a.simplify(), True))
        d = PauliSum([PauliTerm({0: "X", 1: "Y"}, c + 1e-3), PauliTerm({2: "Z"}, 1.0)])
        cases.append((f"differs by 1e-3, c={c}", a, d, False))
        e = PauliSum([PauliTerm({0: "Y", 1: "X"}, c), PauliTerm({2: "Z"}, 1.0)])
        cases.append((f"different string, c={c}", a, e, False))
        t = PauliTerm({0: "Z"}, c)
        cases.append((f"term == term*3/3, c={c}", (t * 3) / 3, t, True))
        cases.append((f"x*(y+z) == x*y + x*z, c={c}", t * (a + t), t * a + t * t, True))
    cases.append(("zero == empty sum", PauliSum([PauliTerm({0: "X"}, 0.0)]).simplify(), PauliSum(), True))
    cases.append(("number == constant term", PauliTerm({}, 2.5), 2.5, True))
    cases.append(("sum == number", PauliSum([PauliTerm({}, 2.5)]), 2.5, True))
    return cases


def _w_eqground(res, p):
    res.d["ground_instances"] += 1
    res.d["instances"] -= 1
    for label, a, b, want in _eq_ground_cases():
        res.ob(1)
        try:
            got = bool(a == b)
        except Exception as e:
            got = f"raised {type(e).__name__}"
        if got is want:
            res.ob(0, 1, "ground-structure")
        else:
            res.candidate("eq-ground", f"{label}: == gave {got}, denoted matrices {'equal to 1e-8' if want else 'differ'}", {"clause": "eq-ground", "case": label, "values": {}}, sub="eq-ground:" + label)


# ---- instances -------------------------------------------------------------------------------


def _ops(d):
    return {str(q): l for q, l in d.items()}


def instances(tier, seed):
    rng = random.Random(seed * 17 + 2)
    items = []
    nq = 2 if tier == "quick" else 3
    strings = PL.all_strings(nq)
    for s1, s2 in itertools.product(strings, repeat=2):
        if tier == "thorough" and nq == 3 and (len(s1) < 1 or len(s2) < 1) and not stable_pick((str(s1), str(s2)), 2, seed):
            continue
        lab = lambda s: "".join(f"{l}{q}" for q, l in sorted(s.items())) or "I"  # noqa: E731
        items.append(("arith", {"op": "*", "A": ["term", _ops(s1), "c0"], "B": ["term", _ops(s2), "c1"], "label": f"(c0*{lab(s1)}) * (c1*{lab(s2)})"}))
    # gapped / higher-index strings
    for s1, s2 in [({0: "X", 3: "Y"}, {3: "Z", 5: "X"}), ({2: "Y", 7: "Y"}, {2: "Z", 7: "X", 1: "Z"}), ({10: "Z"}, {10: "X"})]:
        items.append(("arith", {"op": "*", "A": ["term", _ops(s1), "c0"], "B": ["term", _ops(s2), "c1"], "label": f"gapped {s1} * {s2}"}))
    X0, Y0, Z0, Z1, X0Y1, Z0Z1, C = {0: "X"}, {0: "Y"}, {0: "Z"}, {1: "Z"}, {0: "X", 1: "Y"}, {0: "Z", 1: "Z"}, {}
    sums = {
        "empty": ["sum", []],
        "a*X0+b*Y0": ["sum", [[_ops(X0), "c0"], [_ops(Y0), "c1"]]],
        "c*Z0+2.0": ["sum", [[_ops(Z0), "c2"], [_ops(C), 2.0]]],
        "dup": ["sum", [[_ops(X0), "c0"], [_ops(X0), "c1"], [_ops(Z1), 0.5]]],
        "zero-coeff": ["sum", [[_ops(X0Y1), 0.0], [_ops(Z0Z1), "r0"]]],
        "cancel": ["sum", [[_ops(Z0), "c0"], [_ops(Z0), "c1"]]],
        "three": ["sum", [[_ops(X0Y1), "c0"], [_ops(Z1), [0.0, 0.5]], [_ops(C), "r1"]]],
        "real": ["sum", [[_ops(Z0Z1), "r0"], [_ops(X0), -1.5]]],
    }
    terms = {"tX0": ["term", _ops(X0), "c3"], "tZ0Z1": ["term", _ops(Z0Z1), "r2"], "tY0": ["term", _ops(Y0), [0.5, -1.0]], "tconst": ["term", _ops(C), "c3"]}
    nums = {"2.5": ["num", 2.5], "-3": ["num", -3], "1+2j": ["num", [1.0, 2.0]], "0.5j": ["num", [0.0, 0.5]], "0": ["num", 0]}
    operands = {**sums, **terms}
    pairs = list(itertools.product(operands, repeat=2))
    for a, b in pairs:
        for op in "+-*":
            if not stable_pick((a, b, op), 4 if tier == "quick" else 1, seed) and not (a in ("dup", "cancel", "a*X0+b*Y0") and b in ("c*Z0+2.0", "tX0", "dup") and op == "*"):
                continue
            items.append(("arith", {"op": op, "A": operands[a], "B": operands[b], "label": f"{a} {op} {b}"}))
    for a in operands:
        for nname, n in nums.items():
            for op, left in (("+", False), ("+", True), ("-", False), ("-", True), ("*", False), ("*", True), ("/", False)):
                if op == "/" and nname == "0":
                    continue
                if tier == "quick" and not stable_pick((a, nname, op, left), 3, seed):
                    continue
                A, B = (n, operands[a]) if left else (operands[a], n)
                items.append(("arith", {"op": op, "A": A, "B": B, "label": f"{nname if left else a} {op} {a if left else nname}"}))
    RS0 = {
        "ra*X0+rb*Y0": ["sum", [[_ops(X0), "r5"], [_ops(Y0), "r6"]]],
        "rc*Z0+2.0": ["sum", [[_ops(Z0), "r7"], [_ops(C), 2.0]]],
        "rthree": ["sum", [[_ops(X0Y1), "r5"], [_ops(Z1), 0.5], [_ops(C), "r6"]]],
        # strings that overlap on a qubit with the SAME letter / with different letters / on two qubits: the products
        # commute or anticommute depending on the number of qubits carrying DIFFERENT letters
        "overlapZ": ["sum", [[_ops({0: "Z", 1: "Z"}), "r5"], [_ops({1: "Z", 2: "Z"}), "r6"]]],
        "overlapXZ": ["sum", [[_ops({0: "X", 1: "Z"}), "r5"], [_ops({0: "X", 1: "X"}), "r6"]]],
        "overlap2": ["sum", [[_ops({0: "X", 1: "Y"}), "r5"], [_ops({0: "Y", 1: "X"}), "r6"], [_ops({1: "Y", 2: "Z"}), 0.5]]],
        "overlap3": ["sum", [[_ops({0: "X", 1: "Y", 2: "Z"}), "r5"], [_ops({0: "X", 1: "Z", 2: "Y"}), "r6"], [_ops({0: "Z"}), "r7"]]],
    }
    operands.update(RS0)
    for a in operands:
        items.append(("arith", {"op": "simplify", "A": operands[a] if operands[a][0] == "sum" else ["sum", [[operands[a][1], operands[a][2]]]], "B": None, "label": f"simplify({a})"}))
        for k in ((0, 1, 2, 3) if tier == "quick" else (0, 1, 2, 3, 4)):
            if a in ("three", "dup") and k >= 3 and tier == "quick":
                continue
            if a in ("a*X0+b*Y0", "c*Z0+2.0", "three") and k >= 2 and tier == "quick":
                continue  # complex-coefficient sums: powers >= 2 only in the thorough tier (z3 often unknown)
            items.append(("arith", {"op": f"**{k}", "A": operands[a], "B": None, "label": f"({a})**{k}"}))
    # equality
    RS = {
        "ra*X0+rb*Y0": ["sum", [[_ops(X0), "r5"], [_ops(Y0), "r6"]]],
        "rc*Z0+2.0": ["sum", [[_ops(Z0), "r7"], [_ops(C), 2.0]]],
        "rtX0": ["term", _ops(X0), "r8"],
        "rtconst": ["term", _ops(C), "r8"],
    }
    operands.update(RS)
    eqs = [
        ("ra*X0+rb*Y0", ["sum", [[_ops(Y0), "r3"], [_ops(X0), "r4"]]]),
        ("real", ["sum", [[_ops(X0), "r3"], [_ops(Z0Z1), "r4"]]]),
        ("rtX0", ["term", _ops(X0), "r4"]),
        ("rtX0", ["sum", [[_ops(X0), "r4"]]]),
        ("rtconst", ["num", 1.5]),
        ("rc*Z0+2.0", ["sum", [[_ops(C), "r3"], [_ops(Z0), "r4"]]]),
        ("empty", ["term", _ops(Z1), "r4"]),
        ("tZ0Z1", ["term", _ops(Z0), "r3"]),
        ("dup", ["sum", [[_ops(Z1), "r3"], [_ops(X0), "r4"]]]) if False else ("rtX0", ["term", _ops(X0), "r8"]),
    ]
    if tier == "thorough":
        eqs += [("tX0", ["term", _ops(X0), "c4"]), ("a*X0+b*Y0", ["sum", [[_ops(Y0), "c4"], [_ops(X0), "c5"]]])]
    for a, B in eqs:
        items.append(("eq", {"A": operands[a], "B": B, "expect_both": not (a == "tZ0Z1" or (a == "rtX0" and B[2:] == ["r8"])), "label": f"{a} == {json.dumps(B)[:60]}"}))
    items.append(("eqground", {"label": "ground == cases"}))
    return items


def run(ctx):
    items = instances(ctx.tier, ctx.seed)
    if getattr(ctx, "only", None):
        items = [it for it in items if ctx.only in it[1]["label"] or ctx.only == it[0]]
    ctx.bounds = {
        "term_x_term": "every ordered pair of Pauli strings on <= %d qubits (plus gapped strings), both coefficients symbolic complex" % (2 if ctx.tier == "quick" else 3),
        "sums": "operands: 8 sums (empty, duplicates, zero coefficient, cancelling pair, constants; <= 3 terms) and 4 terms, symbolic complex/real coefficients; + - * between all sampled pairs, scalars {2.5,-3,1+2j,0.5j,0} on either side, / by scalars, simplify, powers 0..%d" % (3 if ctx.tier == "quick" else 4),
        "coefficients": f"|Re c|, |Im c| <= {BOUND}",
        "tolerance": f"{TOL_SIMPLIFY} per Pauli string for simplify() itself (one drop decision per string), {TOL1} per Pauli string for one arithmetic operation (operands and result may each be simplified); for powers the compounded bound pow_tolerance(A, k) derived from the library's drop-after-every-product rule and the coefficient bound",
    }
    ctx.assume(
        "floats are modelled as exact reals: rounding of Python complex multiplication is outside the claim",
        "scalars on either side are concrete Python numbers (the library applies complex() to them)",
        "symbolic == is decided outside the fuzzy band (exactly equal => True, >= 1e-3 apart => False); hashing of symbolic coefficients is a constant placeholder; real hashing is exercised by the ground == instances",
    )
    for it, out in pmap(work, items):
        ctx.merge(out)
    ctx.extra["explanation"] = (
        "Pauli terms/sums carrying symbolic (z3) real and imaginary coefficient parts are pushed through the real + - * / ** simplify ==; every "
        "tolerance branch forks the path explorer (feasibility by z3); on each path the resulting coefficient map is compared, string by string, with the "
        "verifier's own Pauli algebra (derived from the 2x2 matrices) applied to the operands' coefficient maps; linear independence of Pauli strings "
        "makes this equivalent to comparing the denoted matrices."
    )


def replay(data):
    inp = data["inputs"]
    clause = inp["clause"]
    vals = inp.get("values") or {}
    try:
        if clause == "eq-ground":
            for label, a, b, want in _eq_ground_cases():
                if label == inp["case"]:
                    try:
                        got = bool(a == b)
                    except Exception as e:
                        return True, f"raised {type(e).__name__}: {e}"
                    return got is not want, f"== gave {got}, want {want}"
            return False, "case not found"
        V = Vars()
        A = build_operand(inp["A"], V, concrete=vals)
        B = build_operand(inp["B"], V, concrete=vals) if inp.get("B") else None
        if clause.startswith("eq-"):
            A = A.simplify() if inp["A"][0] == "sum" else A
            B = B.simplify() if inp["B"][0] == "sum" else B
            try:
                r = bool(A == B)
            except Exception as e:
                return clause == "eq-raises", f"raised {type(e).__name__}: {e}"
            cmA, cmB = cm_any(A), cm_any(B)
            dist = max([abs(complex(cmA.get(k, 0)) - complex(cmB.get(k, 0))) for k in set(cmA) | set(cmB)] or [0.0])
            if clause == "eq-true-only-if-close":
                return (r and dist >= 9e-4), f"== {r}, coefficient distance {dist:.3g}"
            if clause == "eq-false-only-if-different":
                return ((not r) and dist == 0.0), f"== {r}, coefficient distance {dist:.3g}"
            return False, "no exception on replay"
        op = inp["op"]
        cmA = cm_any(A)
        cmB = cm_any(B) if B is not None else None
        try:
            R = apply_op(op, A, B)
        except Exception as e:
            return clause == "operation-raises", f"raised {type(e).__name__}: {e}"
        if clause == "arguments-unchanged":
            bad = cm_any(A) != cmA or (B is not None and hasattr(B, "terms") and cm_any(B) != cmB)
            return bad, "argument changed" if bad else "unchanged"
        exp = expected_cm(op, cmA, cmB, (complex(*inp["B"][1]) if isinstance(inp["B"][1], list) else inp["B"][1]) if op == "/" else None)
        cmR = PL.cmap_of(R)
        dist = max([abs(complex(cmR.get(k, 0)) - complex(exp.get(k, 0))) for k in set(cmR) | set(exp)] or [0.0])
        tol = pow_tolerance(inp["A"], int(op[2:])) / 2 if op.startswith("**") else (REPLAY_TOL_SIMPLIFY if op == "simplify" else REPLAY_TOL1)
        return bool(dist > tol), f"max coefficient difference {dist:.3g} (tolerance {tol}) at {vals}"
    except Exception:
        import traceback

        return False, "replay raised: " + traceback.format_exc()[-600:]
