"""C02 - every built-in gate is a valid unitary that keeps its textbook identities.

E1: the gate table is read from orquestra.quantum.circuits._builtin_gates at run time; each
gate's real matrix factory is executed on sympy symbols; identities are decided by z3 over
circle points (all real angles), cross-checked by the exact Fourier form.
"""
import inspect
import math

import numpy as np
import sympy

from ..core import Result, pmap
from ..front import install_numpy_sympy_shim, mmul, mdag, meye, embed, Refuse
from ..solve import Prover, first_violation

LEVEL = "model_checking"
GROUP_GATES = ["RX", "RY", "RZ", "PHASE", "CPHASE", "XX", "YY", "ZZ", "XY", "RH"]


def gate_table():
    from orquestra.quantum.circuits import _builtin_gates as B, _gates as G

    table = {}
    for name, obj in vars(B).items():
        if isinstance(obj, G.MatrixFactoryGate):
            table[name] = ("const", obj, 0)
        elif callable(obj) and getattr(obj, "__name__", "") == "_factory":
            # the number of parameters is read from the matrix factory of a gate built by the prototype; the prototype is tried
            # with 0..4 placeholder symbols (a prototype may legitimately look at its arguments)
            npar = None
            for n in range(5):
                try:
                    g = obj(*[sympy.Symbol(f"probe{i}") for i in range(n)])
                    npar = len(inspect.signature(g.matrix_factory).parameters)
                    break
                except Exception:
                    continue
            if npar is None:
                continue
            table[name] = ("param", obj, npar)
    return table


def make_gate(name, params):
    kind, obj, npar = gate_table()[name]
    return obj if kind == "const" else obj(*params)


def syms(prefix, n):
    return [sympy.Symbol(f"{prefix}{i}") for i in range(n)]


def _mat_delta(A, X, Y):
    out = []
    for i in range(len(X)):
        for j in range(len(X[0])):
            out.append((f"[{i},{j}]", A.sub(X[i][j], Y[i][j])))
    return out


def _report(res, prover, name, build, clause, gate, symbols):
    results = prover.prove_zero(name, build, clause, sub=clause)
    fv = first_violation(results)
    if fv:
        label, w = fv
        res.candidate(clause, f"{gate}: {clause} fails at entry {label}", {"gate": gate, "values": w, "clause": clause}, sub=clause)
    return results


RELATIONS = ["S*S=Z", "T*T=S", "SX*SX=X", "H*Z*H=X", "CNOT=cX", "CZ=cZ", "SWAP", "Delay=I", "I=I"]


def work(key):
    install_numpy_sympy_shim()
    res = Result(key)
    kind, name = key.split(":", 1)
    from orquestra.quantum.circuits import _builtin_gates as B, _matrices, _gates as G

    if kind == "gate":
        tkind, obj, npar = gate_table()[name]
        th = syms("th", npar)
        g = make_gate(name, th)
        try:  # evidence only: a renamed private helper must not break the check
            res.fn(g.matrix_factory, G.MatrixFactoryGate.matrix.fget, G.MatrixFactoryGate.dagger.fget)
        except AttributeError:
            pass
        P = Prover(res)
        try:
            M = g.matrix
        except Exception as e:
            res.ob(1)
            res.candidate("computable", f"{name}.matrix raises {type(e).__name__} on symbolic parameters", {"gate": name, "values": {str(s): 0.3 for s in th}, "clause": "computable"}, sub="computable")
            return res.as_dict()
        n = 2**g.num_qubits
        res.ob(1)
        if tuple(M.shape) != (n, n):
            res.candidate("shape", f"{name}: shape {M.shape} != {n}", {"gate": name, "values": {str(s): 0.3 for s in th}, "clause": "shape"}, sub="shape")
        else:
            res.ob(0, 1, "concrete-structure")
        res.sample({"gate": name, "params": [str(s) for s in th], "matrix": str(M)[:200]})

        def unitary(F):
            A = F.alg
            U = F.mat(M)
            return _mat_delta(A, mmul(A, mdag(A, U), U), meye(A, n))

        _report(res, P, "unitary", unitary, "unitary", name, th)
        if g.is_hermitian:

            def herm(F):
                A = F.alg
                U = F.mat(M)
                return _mat_delta(A, U, mdag(A, U))

            _report(res, P, "selfadjoint", herm, "selfadjoint", name, th)
        D = g.dagger.matrix

        def dag(F):
            A = F.alg
            return _mat_delta(A, F.mat(D), mdag(A, F.mat(M)))

        _report(res, P, "dagger", dag, "dagger-is-adjoint", name, th)
        if npar:
            res.nontrivial()
        # vacuity twin: U != I somewhere (except identity-like gates)
        if name not in ("I", "Delay"):
            res.d["vacuity_twins"] += 1

            def notid(F):
                A = F.alg
                return _mat_delta(A, F.mat(M), meye(A, n))

            tw = prover_twin(res, notid)
            if tw:
                res.d["vacuity_ok"] += 1
            else:
                res.herr("vacuity twin U != I came back without a violation")
    elif kind == "group":
        a, b = sympy.Symbol("a"), sympy.Symbol("b")
        try:  # evidence only: a renamed private helper must not break the check
            res.fn(gate_table()[name][1]().matrix_factory)
        except AttributeError:
            pass
        P = Prover(res)
        Ma, Mb, Mab = make_gate(name, [a]).matrix, make_gate(name, [b]).matrix, make_gate(name, [a + b]).matrix
        n = Ma.shape[0]

        def law(F):
            A = F.alg
            return _mat_delta(A, mmul(A, F.mat(Mb), F.mat(Ma)), F.mat(Mab))

        results = P.prove_zero("group", law, "group-law")
        fv = first_violation(results)
        if fv:
            res.candidate("group-law", f"{name}(a) then {name}(b) != {name}(a+b) at {fv[0]}", {"gate": name, "values": fv[1], "clause": "group-law"}, sub="group-law")
        M0 = make_gate(name, [0]).matrix

        def zero(F):
            A = F.alg
            return _mat_delta(A, F.mat(M0), meye(A, n))

        P2 = Prover(res)
        results = P2.prove_zero("zero", zero, "angle-zero")
        if first_violation(results):
            res.candidate("angle-zero", f"{name}(0) != I", {"gate": name, "values": {}, "clause": "angle-zero"}, sub="angle-zero")
        res.nontrivial()
        res.sample({"group_law": name, "obligation": f"{name}(b).matrix @ {name}(a).matrix == {name}(a+b).matrix for all a,b"})
    elif kind == "rel":
        P = Prover(res)
        res.d["ground_instances"] += 1
        res.d["instances"] -= 1

        def rel(F):
            A = F.alg
            m = lambda gname: F.mat(getattr(B, gname).matrix)  # noqa: E731
            if name == "S*S=Z":
                return _mat_delta(A, mmul(A, m("S"), m("S")), m("Z"))
            if name == "T*T=S":
                return _mat_delta(A, mmul(A, m("T"), m("T")), m("S"))
            if name == "SX*SX=X":
                return _mat_delta(A, mmul(A, m("SX"), m("SX")), m("X"))
            if name == "H*Z*H=X":
                return _mat_delta(A, mmul(A, m("H"), mmul(A, m("Z"), m("H"))), m("X"))
            if name == "CNOT=cX":
                from ..front import mdiag_blocks

                return _mat_delta(A, m("CNOT"), mdiag_blocks(A, [meye(A, 2), m("X")]))
            if name == "CZ=cZ":
                from ..front import mdiag_blocks

                return _mat_delta(A, m("CZ"), mdiag_blocks(A, [meye(A, 2), m("Z")]))
            if name == "SWAP":
                # SWAP|ab> = |ba>
                want = [[A.one if (r >> 1) == (c & 1) and (r & 1) == (c >> 1) else A.zero for c in range(4)] for r in range(4)]
                return _mat_delta(A, m("SWAP"), want)
            if name == "Delay=I":
                return _mat_delta(A, F.mat(B.Delay(sympy.Symbol("d")).matrix), meye(A, 2))
            if name == "I=I":
                return _mat_delta(A, m("I"), meye(A, 2))
            raise AssertionError(name)

        results = P.prove_zero("rel", rel, "relation")
        if first_violation(results):
            res.candidate("relation", f"defining relation {name} fails", {"gate": name, "values": {}, "clause": "relation:" + name}, sub="relation")
        res.sample({"relation": name})
    elif kind == "alias":
        res.d["ground_instances"] += 1
        res.d["instances"] -= 1
        res.ob(1)
        bad = _ground_alias()
        if bad:
            res.candidate("matrix-independent-of-history", f"after a caller overwrote matrix objects obtained earlier, these gates report a different matrix: {bad[:6]}", {"gate": "all", "values": {}, "clause": "matrix-independent-of-history"}, sub="alias")
        else:
            res.ob(0, 1, "ground-structure")
    elif kind == "ground":
        # computable without the sympy/numpy shim, at concrete Python-float parameters
        res.d["ground_instances"] += 1
        res.d["instances"] -= 1
        ok, detail = _ground_computable(name)
        res.ob(1)
        if not ok:
            res.candidate("computable", detail, {"gate": name, "values": {}, "clause": "computable"}, sub="computable")
        else:
            res.ob(0, 1, "ground-numeric")
        res.ob(1)
        bad = _ground_numeric_path(name)
        if bad:
            what, pv, d = bad[0]
            res.candidate(what, f"{name}{pv}: {what} (delta {d:.3g})", {"gate": name, "values": {}, "clause": what}, sub=what)
        else:
            res.ob(0, 1, "ground-numeric")
    return res.as_dict()


def prover_twin(res, build):
    P = Prover(res)
    results = P.prove_zero("twin", build, "twin", expect_violation=True)
    return first_violation(results) is not None


def _ground_vals(npar):
    return [0.3 + 0.41 * i for i in range(npar)]


GROUND_ANGLE_SETS = [[4.0, 8.0, -7.0], [13.5, -0.125, 6.5], [-9.25, 2.5, 7.1], [7, -13, 2], [0.0, 6.283185307179586, 12.566370614359172]]
# values that look alike to a dictionary (hash(-1) == hash(-2) in CPython for ints, floats and sympy Integers; 0 == 0.0 == -0.0)
# evaluated one after the other in ONE process, and every kind of zero (all-zero parameters are where "this is the identity"
# short cuts live: GPi2(0) and MS(0,0) are neither the identity nor self-adjoint)
GROUND_ANGLE_SETS += [[-1, -1, -2], [-2, -2, -1], [-1.0, -2.0, -1.0], [-2.0, -1.0, -2.0], [0, 0, 0], [0.0, 0.0, 0.0], [-0.0, 0.0, -0.0]]


def _ground_numeric_path(name):
    """Plain Python numbers as parameters (the branch a symbolic run cannot take): the matrix must equal the
    symbolic matrix evaluated at the same numbers, be unitary, and obey the group law. Ground instance."""
    install_numpy_sympy_shim()
    kind, obj, npar = gate_table()[name]
    if kind == "const":
        return []
    th = syms("th", npar)
    Msym = obj(*th).matrix
    bad = []
    for vs in GROUND_ANGLE_SETS:
        pv = vs[:npar]
        M = np.array(obj(*pv).matrix.evalf(), dtype=complex)
        W = np.array(Msym.subs(dict(zip(th, pv))).evalf(), dtype=complex)
        dim = 2 ** obj(*pv).num_qubits
        if M.shape != (dim, dim) or M.shape != W.shape:
            bad.append(("numeric-vs-symbolic", pv, float(max(M.shape + W.shape))))
            continue
        if np.abs(M - W).max() > 1e-9:
            bad.append(("numeric-vs-symbolic", pv, float(np.abs(M - W).max())))
        if np.abs(M.conj().T @ M - np.eye(M.shape[0])).max() > 1e-9:
            bad.append(("unitary-numeric", pv, 0.0))
        # what the gate hands out as its adjoint (a gate treated as self-adjoint hands out itself) really is the adjoint
        g = obj(*pv)
        D = np.array(g.dagger.matrix.evalf(), dtype=complex)
        if D.shape != M.shape or np.abs(D - M.conj().T).max() > 1e-9:
            bad.append(("dagger-numeric", pv, 0.0))
        if g.is_hermitian and np.abs(M - M.conj().T).max() > 1e-9:
            bad.append(("selfadjoint-numeric", pv, 0.0))
        # the same gate reached by RE-PARAMETRISING a gate that was created at special angles (0, whole turns as float and as
        # exact multiples of sympy.pi - where the matrix happens to be self-adjoint or the identity): whatever was decided about
        # the gate at creation must not survive the move to other angles
        for start in ([0] * npar, [0.0] * npar, [2 * sympy.pi] * npar, [4 * sympy.pi] * npar, [sympy.pi] * npar):
            try:
                h = obj(*start).replace_params(tuple(pv))
            except Exception as e:
                bad.append(("replace-params-numeric", pv, 0.0))
                break
            Mh = np.array(h.matrix.evalf(), dtype=complex)
            Dh = np.array(h.dagger.matrix.evalf(), dtype=complex)
            if Mh.shape != M.shape or np.abs(Mh - M).max() > 1e-9 or Dh.shape != M.shape or np.abs(Dh - M.conj().T).max() > 1e-9 or (h.is_hermitian and np.abs(M - M.conj().T).max() > 1e-9):
                bad.append(("replace-params-numeric", pv, float(np.abs(Dh - M.conj().T).max()) if Dh.shape == M.shape else 0.0))
                break
        if name in GROUP_GATES:
            a, b = vs[0], vs[1]
            Ma, Mb, Mab = (np.array(obj(x).matrix.evalf(), dtype=complex) for x in (a, b, a + b))
            if not (Ma.shape == Mb.shape == Mab.shape == M.shape):
                bad.append(("group-law-numeric", [a, b], 0.0))
                continue
            d = Mb @ Ma - Mab
            if np.abs(d).max() > 1e-9:
                bad.append(("group-law-numeric", [a, b], float(np.abs(d).max())))
    return bad


def _ground_alias():
    """The matrix a gate reports must not depend on what a caller did to a matrix object obtained earlier: take every
    gate's matrix (concrete and symbolic parameters), overwrite the returned objects in place where they are mutable, ask
    again (same gate objects and freshly built ones) and compare with copies taken before. Ground scenario."""
    install_numpy_sympy_shim()
    table = gate_table()
    first, snaps, gates = {}, {}, {}
    for name in sorted(table):
        kind, obj, npar = table[name]
        for tag, params in (("num", _ground_vals(npar)), ("sym", syms("th", npar))):
            if kind == "const" and tag == "sym":
                continue
            g = obj if kind == "const" else obj(*params)
            M = g.matrix
            gates[(name, tag)] = (g, kind, obj, params)
            first[(name, tag)] = M
            snaps[(name, tag)] = sympy.ImmutableMatrix(M)
    for key, M in first.items():
        try:
            for i in range(M.shape[0]):
                for j in range(M.shape[1]):
                    M[i, j] = sympy.Symbol("overwritten") + i - j
        except TypeError:
            pass  # immutable result: nothing a caller could have changed
    bad = []
    for key, (g, kind, obj, params) in gates.items():
        again = [g.matrix] + ([obj(*params).matrix] if kind != "const" else [])
        for M in again:
            if sympy.ImmutableMatrix(M) != snaps[key]:
                bad.append(f"{key[0]}[{key[1]}]")
                break
    return bad


def _ground_computable(name):
    import subprocess, sys, json, os
    from ..core import VERIF, REPO

    code = (
        "import sys,json; sys.path.insert(0, %r);\n"
        "import warnings; warnings.simplefilter('ignore')\n"
        "import numpy as np\n"
        "from orquestra.quantum.circuits import _builtin_gates as B\n"
        "import inspect\n"
        "o = getattr(B, %r)\n"
        "g = o if not callable(o) or hasattr(o,'matrix_factory') else o(*%r)\n"
        "m = np.array(g.matrix, dtype=complex)\n"
        "assert m.shape == (2**g.num_qubits,)*2, m.shape\n"
        "assert np.allclose(m.conj().T @ m, np.eye(m.shape[0]), atol=1e-9)\n"
        "print('ok')\n"
    ) % (os.path.join(REPO, "src"), name, _ground_vals(gate_table()[name][2]))
    p = subprocess.run([sys.executable, "-c", code], capture_output=True, text=True, timeout=120)
    if p.returncode == 0 and "ok" in p.stdout:
        return True, "ok"
    return False, f"{name}.matrix at concrete parameters (no sympy/numpy shim): " + (p.stderr.strip().splitlines() or ["?"])[-1][:200]


def run(ctx):
    table = gate_table()
    ctx.bounds = {
        "gates": sorted(table),
        "n_gates": len(table),
        "parameters": "every real value of every parameter (circle points, unit 1/2 angle)",
        "tolerance": "1e-9 absolute on entries when a float constant occurs, exact otherwise",
    }
    ctx.assume(
        "A-ENV-1: numpy-scalar -> sympy converters installed for symbolic runs (sympy 1.9 / numpy 2); 'computable' is checked without it",
        "symbols range over the reals (conjugate(symbol) = symbol)",
        "float constants taken as the exact rational value of the double; number**number evaluated to a double",
    )
    keys = [f"gate:{n}" for n in sorted(table)]
    keys += [f"group:{n}" for n in GROUP_GATES if n in table]
    keys += [f"rel:{r}" for r in RELATIONS]
    keys += [f"ground:{n}" for n in sorted(table)]
    keys += ["alias:all"]
    if getattr(ctx, "only", None):
        keys = [k for k in keys if ctx.only in k]
    for k, out in pmap(work, keys):
        ctx.merge(out)
    ctx.extra["explanation"] = (
        "Each built-in gate's real matrix factory is executed on sympy symbols; unitarity, self-adjointness "
        "(when flagged), dagger=adjoint, the additive group law and the fixed relations are each asserted negated "
        "over circle points (c,s) with c^2+s^2=1 per half-angle and decided by z3 QF_NRA (cvc5, then an exact "
        "Fourier certificate as fall-backs); every solver verdict is cross-checked against the exact Laurent form."
    )


def replay(data):
    """Concrete replay on the real library, Python-float parameters, no shim."""
    from orquestra.quantum.circuits import _builtin_gates as B

    inp = data["inputs"]
    name, clause, vals = inp["gate"], inp["clause"], inp.get("values") or {}
    table = gate_table()
    if clause == "matrix-independent-of-history":
        bad = _ground_alias()
        return bool(bad), f"gates whose matrix changed after earlier results were overwritten in place: {bad[:8]}"

    def npm(g):
        return np.array(g.matrix, dtype=complex)

    tol = 1e-7
    if clause.startswith("relation:"):
        rel = clause.split(":", 1)[1]
        m = lambda n: npm(getattr(B, n))  # noqa: E731
        try:
            if rel == "S*S=Z":
                d = m("S") @ m("S") - m("Z")
            elif rel == "T*T=S":
                d = m("T") @ m("T") - m("S")
            elif rel == "SX*SX=X":
                d = m("SX") @ m("SX") - m("X")
            elif rel == "H*Z*H=X":
                d = m("H") @ m("Z") @ m("H") - m("X")
            elif rel == "CNOT=cX":
                w = np.eye(4, dtype=complex); w[2:, 2:] = m("X"); d = m("CNOT") - w
            elif rel == "CZ=cZ":
                w = np.eye(4, dtype=complex); w[2:, 2:] = m("Z"); d = m("CZ") - w
            elif rel == "SWAP":
                w = np.array([[1, 0, 0, 0], [0, 0, 1, 0], [0, 1, 0, 0], [0, 0, 0, 1]], dtype=complex); d = m("SWAP") - w
            elif rel == "Delay=I":
                d = npm(B.Delay(0.7)) - np.eye(2)
            elif rel == "I=I":
                d = m("I") - np.eye(2)
        except Exception as e:
            return True, f"{rel}: raises {type(e).__name__}: {e}"
        return bool(np.abs(d).max() > tol), f"{rel}: max|delta|={np.abs(d).max():.3g}"
    kind, obj, npar = table[name]
    if clause == "computable":
        ok, detail = _ground_computable(name)
        return (not ok), detail
    if clause in ("numeric-vs-symbolic", "unitary-numeric", "group-law-numeric", "dagger-numeric", "selfadjoint-numeric", "replace-params-numeric"):
        bad = [b for b in _ground_numeric_path(name) if b[0] == clause]
        return bool(bad), str(bad[:2])
    if clause in ("group-law",):
        a, b = float(vals.get("a", 0.3)), float(vals.get("b", 0.5))
        d = npm(obj(b)) @ npm(obj(a)) - npm(obj(a + b))
        return bool(np.abs(d).max() > tol), f"max|delta|={np.abs(d).max():.3g} at a={a}, b={b}"
    if clause == "angle-zero":
        d = npm(obj(0)) - np.eye(2 ** obj(0).num_qubits)
        return bool(np.abs(d).max() > tol), f"max|delta|={np.abs(d).max():.3g}"
    pv = [float(vals.get(f"th{i}", 0.3)) for i in range(npar)]
    g = obj if kind == "const" else obj(*pv)
    try:
        M = npm(g)
    except Exception as e:
        return True, f"{name}{pv}.matrix raises {type(e).__name__}: {e}"
    n = 2**g.num_qubits
    if clause == "shape":
        return M.shape != (n, n), f"shape {M.shape}"
    if clause == "unitary":
        d = M.conj().T @ M - np.eye(n)
    elif clause == "selfadjoint":
        d = M - M.conj().T
    elif clause == "dagger-is-adjoint":
        d = npm(g.dagger) - M.conj().T
    else:
        return False, f"unknown clause {clause}"
    return bool(np.abs(d).max() > tol), f"{name}{pv}: max|delta|={np.abs(d).max():.3g}"
