"""C05 - circuits survive JSON serialisation unchanged in structure and meaning. E1 for meaning."""
import io
import itertools
import json
import os
import random
import tempfile

import numpy as np
import sympy

from ..core import Result, pmap, stable_pick
from ..front import install_numpy_sympy_shim, Refuse
from ..solve import Prover, first_violation
from .. import circ as CS
from .c01 import mat_delta
from .c02 import gate_table

LEVEL = "model_checking"
S = sympy.Symbol

NAMESETS = {
    "plain": ["theta", "phi", "lam"],
    "indexed": ["x[3]", "x[0]", "y[12]"],
    "mixed": ["x[1]", "alpha", "w"],
    "sympyns1": ["beta", "gamma", "zeta"],
    "sympyns2": ["S", "N", "Q"],
    "sympyns3": ["E", "O", "I"],
    "sympyns4": ["pi", "re", "im"],
    "underscore": ["lambda_", "_t", "theta_10"],
    "same_base": ["x", "x[0]", "x[1]"],
    # identifiers that also read as numbers or constants in some parser
    "numberlike": ["nan", "inf", "e"],
    "numberlike2": ["Infinity", "j", "NaN"],
    "numberlike3": ["oo", "zoo", "true"],
    # indexed names of which one is a suffix / prefix / digit-prefix of another
    "indexed_suffix": ["a[0]", "beta[0]", "theta[0]"],
    "indexed_suffix2": ["t[1]", "wt[1]", "dwt[1]"],
    "indexed_digits": ["x[1]", "x[11]", "x[111]"],
    "indexed_under": ["p_1[2]", "p_12[2]", "p[12]"],
}
EXPR_SHAPES = ["a", "2*a", "a+b", "a*b", "a/2", "a**2", "0.5*a", "-a+0.25", "a**2+b", "a-b", "3"]


def mk_expr(shape, names):
    a, b = S(names[0]), S(names[1])
    return {
        "a": a, "2*a": 2 * a, "a+b": a + b, "a*b": a * b, "a/2": a / 2, "a**2": a**2, "0.5*a": 0.5 * a,
        "-a+0.25": -a + 0.25, "cos(a)": sympy.cos(a), "a**2+b": a**2 + b, "a-b": a - b, "3": 3,
    }[shape]


def custom_defs():
    from orquestra.quantum.circuits import CustomGateDefinition

    p, q = S("p"), S("q")
    U = CustomGateDefinition("U_custom", sympy.Matrix([[sympy.cos(p / 2), -sympy.exp(sympy.I * q) * sympy.sin(p / 2)], [sympy.exp(-sympy.I * q) * sympy.sin(p / 2), sympy.cos(p / 2)]]), (p, q))
    g = S("gamma")
    V = CustomGateDefinition("V_custom", sympy.Matrix([[1, 0, 0, 0], [0, sympy.cos(g), -sympy.sin(g), 0], [0, sympy.sin(g), sympy.cos(g), 0], [0, 0, 0, sympy.exp(sympy.I * g)]]), (g,))
    K = CustomGateDefinition("K_const", sympy.Matrix([[0, sympy.I], [1, 0]]), ())
    return {"U_custom": U, "V_custom": V, "K_const": K}


def wrap(g, mods):
    from orquestra.quantum.circuits import _gates as G

    for m in mods:
        if m.endswith("!"):
            # the wrapper CLASS applied directly (public constructors): nestings the fluent API never produces
            m = m[:-1]
            if m == "dagger":
                g = G.Dagger(g)
            elif m.startswith("c"):
                g = G.ControlledGate(g, int(m[1:]))
            elif m.startswith("pow("):
                g = G.Power(g, CS.parse_number(m[4:-1]))
            elif m == "exp":
                g = G.Exponential(g)
            continue
        if m == "dagger":
            g = g.dagger
        elif m.startswith("c"):
            g = g.controlled(int(m[1:]))
        elif m.startswith("pow("):
            g = g.power(CS.parse_number(m[4:-1]))
        elif m == "exp":
            g = g.exp
    return g


def build_circuit(p):
    """p['ops']: list of (base, params(list of [shape, nameset]) or numbers, mods, qubits)."""
    from orquestra.quantum.circuits import Circuit

    table = gate_table()
    defs = custom_defs()
    ops = []
    for base, params, mods, qubits in p["ops"]:
        ps = []
        for prm in params:
            if isinstance(prm, list):
                ps.append(mk_expr(prm[0], NAMESETS[prm[1]][prm[2]:] + NAMESETS[prm[1]][: prm[2]]))
            else:
                ps.append(prm)
        if base in defs:
            g = defs[base](*ps)
        else:
            kind, obj, npar = table[base]
            g = obj(*ps) if kind == "param" else obj
        ops.append(wrap(g, mods)(*qubits))
    return Circuit(ops, n_qubits=p.get("n"))


def shape_of(g):
    from orquestra.quantum.circuits import _gates as G

    if isinstance(g, G.ControlledGate):
        return ("C", g.num_control_qubits, shape_of(g.wrapped_gate))
    if isinstance(g, G.Dagger):
        return ("D", shape_of(g.wrapped_gate))
    if isinstance(g, G.Power):
        return ("P", float(g.exponent), shape_of(g.wrapped_gate))
    if isinstance(g, G.Exponential):
        return ("E", shape_of(g.wrapped_gate))
    if isinstance(g, G.MatrixFactoryGate):
        custom = isinstance(g.matrix_factory, G.CustomGateMatrixFactory)
        return ("M", g.name, len(g.params), custom, g.num_qubits, bool(g.is_hermitian))
    return ("?", type(g).__name__)


def params_equal(p1, p2):
    """exactly for Python numbers and bare symbols; 1e-12 relative for sympy float coefficients."""
    if isinstance(p1, (int, float)) and not isinstance(p1, bool):
        try:
            return float(p2) == float(p1) and not getattr(p2, "free_symbols", set())
        except Exception:
            return False
    p1, p2 = sympy.sympify(p1), sympy.sympify(p2)
    if p1 == p2:
        return True
    if p1.is_Symbol or p2.is_Symbol:
        return False
    d = sympy.expand(p1 - p2)
    if d == 0:
        return True
    if d.free_symbols != set() or True:
        # compare coefficient-wise with relative tolerance
        try:
            t1 = sympy.expand(p1).as_coefficients_dict()
            t2 = sympy.expand(p2).as_coefficients_dict()
            if set(t1) != set(t2):
                return False
            return all(abs(complex(t1[k]) - complex(t2[k])) <= 1e-12 * max(1.0, abs(complex(t1[k]))) for k in t1)
        except Exception:
            return False


def roundtrips(c):
    """All routes: dict, real JSON text, StringIO, a real file. Returns list of (route, circuit)."""
    from orquestra.quantum.circuits import to_dict, circuit_from_dict, save_circuit, load_circuit, save_circuitset, load_circuitset, circuitset_from_dict

    out = []
    d = to_dict(c)
    out.append(("dict", circuit_from_dict(d)))
    out.append(("json-text", circuit_from_dict(json.loads(json.dumps(d)))))
    buf = io.StringIO()
    save_circuit(c, buf)
    buf.seek(0)
    out.append(("stringio", load_circuit(buf)))
    fd, path = tempfile.mkstemp(prefix="vf-c05-", suffix=".json", dir="/var/tmp")
    os.close(fd)
    try:
        save_circuit(c, path)
        out.append(("file", load_circuit(path)))
        save_circuitset([c, c], path)
        cs = load_circuitset(path)
        out.append(("circuitset-file", cs[1] if len(cs) == 2 else None))
    finally:
        os.unlink(path)
    cs = circuitset_from_dict(json.loads(json.dumps(to_dict([c]))))
    out.append(("circuitset-json", cs[0] if len(cs) == 1 else None))
    return out


def compare_structure(c, c2):
    probs = []
    if c2 is None:
        return ["circuit set length changed"]
    if c2.n_qubits != c.n_qubits:
        probs.append(f"n_qubits {c.n_qubits} -> {c2.n_qubits}")
    if len(c2.operations) != len(c.operations):
        probs.append(f"{len(c.operations)} operations -> {len(c2.operations)}")
        return probs
    for i, (o1, o2) in enumerate(zip(c.operations, c2.operations)):
        if tuple(o1.qubit_indices) != tuple(o2.qubit_indices):
            probs.append(f"op{i}: qubits {o1.qubit_indices} -> {o2.qubit_indices}")
        if shape_of(o1.gate) != shape_of(o2.gate):
            probs.append(f"op{i}: wrapper/gate structure {shape_of(o1.gate)} -> {shape_of(o2.gate)}")
        if len(o1.params) != len(o2.params) or not all(params_equal(a, b) for a, b in zip(o1.params, o2.params)):
            probs.append(f"op{i}: params {o1.params} -> {o2.params}")
        if [str(s) for s in o1.free_symbols] != [str(s) for s in o2.free_symbols] or any(type(s) is not sympy.Symbol for s in o2.free_symbols):
            probs.append(f"op{i}: free symbols {list(o1.free_symbols)} -> {list(o2.free_symbols)}")
    if [str(s) for s in c.free_symbols] != [str(s) for s in c2.free_symbols]:
        probs.append(f"circuit free symbols {c.free_symbols} -> {c2.free_symbols}")
    d1 = list(c.collect_custom_gate_definitions())
    d2 = list(c2.collect_custom_gate_definitions())
    if d1 != d2:
        probs.append("custom gate definitions differ")
    if not (c2 == c):
        probs.append("deserialised circuit does not compare equal")
    return probs


def _cand(res, clause, what, p, w=None):
    res.candidate(clause, what, dict(p, clause=clause, values=w or {}), sub=clause)


def work(item):
    install_numpy_sympy_shim()
    p = item
    res = Result(f"rt|{p['label']}")
    from orquestra.quantum.circuits import _serde as SD

    try:  # evidence only: a renamed private helper must not break the check
        res.fn(SD._circuit_to_dict, SD._basic_gate_to_dict, SD._controlled_gate_to_dict, SD._dagger_gate_to_dict, SD._power_gate_to_dict, SD._exponential_gate_to_dict, SD._custom_gate_def_to_dict, SD.circuit_from_dict, SD._gate_from_dict, SD._builtin_gate_from_dict, SD._special_gate_from_dict, SD._custom_gate_instance_from_dict, SD.custom_gate_def_from_dict, SD.deserialize_expr, SD._make_symbols_map)
    except AttributeError:
        pass
    try:
        _work(res, p)
    except Refuse as e:
        res.ob(1)
        res.inconc(f"translation refused: {e}")
    return res.as_dict()


def _work(res, p):
    c = build_circuit(p)
    sym = bool(c.free_symbols)
    if sym:
        res.nontrivial()
    else:
        res.d["ground_instances"] += 1
        res.d["instances"] -= 1
    res.ob(1)
    try:
        rts = roundtrips(c)
    except Exception as e:
        _cand(res, "roundtrip-raises", f"serialise/deserialise raised {type(e).__name__}: {str(e)[:150]}", p)
        return
    allp = []
    for route, c2 in rts:
        for pr in compare_structure(c, c2):
            allp.append(f"[{route}] {pr}")
    if allp:
        _cand(res, "roundtrip-structure", "; ".join(allp)[:400], p)
    else:
        res.ob(0, 1, "concrete-structure")
    # a second sequence step: deserialise another circuit first (state kept between calls must not leak)
    # meaning: same matrix for every assignment of the symbols
    c2 = rts[1][1]
    if c2 is None or c2.n_qubits != c.n_qubits or not c.operations or p.get("skip_unitary"):
        return
    try:
        U, U2 = c.to_unitary(), c2.to_unitary()
    except Exception as e:
        res.ob(1)
        res.inconc(f"to_unitary raised {type(e).__name__}: {str(e)[:100]}")
        return
    from fractions import Fraction

    P = Prover(res, unit=Fraction(1, 4))
    r = P.prove_zero("meaning", lambda F: mat_delta(F.alg, F.mat(U2), F.mat(U)), "same-matrix", sub="same-matrix")
    fv = first_violation(r)
    if fv:
        _cand(res, "same-matrix", f"deserialised circuit acts differently ({fv[0]})", p, fv[1])
    res.sample({"circuit": p["label"], "json": json.dumps(__import__("orquestra.quantum.circuits", fromlist=["to_dict"]).to_dict(c))[:300]})


def work_seq(item):
    """Two different circuits deserialised one after another in the same process (and in one circuit set):
    custom gates sharing a name across circuits must not leak between them."""
    install_numpy_sympy_shim()
    from orquestra.quantum.circuits import CustomGateDefinition, Circuit, to_dict, circuit_from_dict, circuitset_from_dict

    res = Result("seq|" + item["label"])
    res.d["ground_instances"] += 1
    res.d["instances"] -= 1
    a = S("a")
    d1 = CustomGateDefinition("Shared", sympy.Matrix([[sympy.cos(a), -sympy.sin(a)], [sympy.sin(a), sympy.cos(a)]]), (a,))
    d2 = CustomGateDefinition("Shared", sympy.Matrix([[sympy.exp(sympy.I * a), 0], [0, 1]]), (a,))
    c1 = Circuit([d1(S("theta"))(0)])
    c2 = Circuit([d2(S("theta"))(0), d2(0.5)(1)])
    t1, t2 = json.dumps(to_dict(c1)), json.dumps(to_dict(c2))
    res.ob(1)
    probs = []
    r1 = circuit_from_dict(json.loads(t1))
    r2 = circuit_from_dict(json.loads(t2))
    r1b = circuit_from_dict(json.loads(t1))
    if not (r1 == c1 and r2 == c2 and r1b == c1):
        probs.append("sequential deserialisation of circuits sharing a custom gate name returned unequal circuits")
    if r2.operations[0].gate.matrix != c2.operations[0].gate.matrix or r1b.operations[0].gate.matrix != c1.operations[0].gate.matrix:
        probs.append("custom gate matrix leaked between circuits")
    cs = circuitset_from_dict(json.loads(json.dumps(to_dict([c1, c2, c1]))))
    if len(cs) != 3 or not (cs[0] == c1 and cs[1] == c2 and cs[2] == c1) or cs[1].operations[0].gate.matrix != c2.operations[0].gate.matrix:
        probs.append("circuit set with a custom gate name reused across circuits not restored")
    if probs:
        res.candidate("sequence", "; ".join(probs), {"seq": True, "clause": "sequence", "values": {}, "label": item["label"]}, sub="sequence")
    else:
        res.ob(0, 1, "concrete-structure")
    return res.as_dict()


def _prm(shape, ns, rot=0):
    return [shape, ns, rot]


def instances(tier, seed):
    rng = random.Random(seed * 13 + 1)
    table = gate_table()
    items = []

    def add(ops, n=None, label=None, **kw):
        items.append(dict(ops=ops, n=n, label=label or str(ops)[:150], **kw))

    namesets = list(NAMESETS)
    # every built-in gate, parameters of every expression shape / name set (rotating)
    k = 0
    for name in sorted(table):
        kind, obj, npar = table[name]
        nq = obj.num_qubits if kind == "const" else obj(*[sympy.Symbol(f"probe{i}") for i in range(npar)]).num_qubits
        for rep in range(1 if tier == "quick" else 4):
            ns = namesets[(k + rep) % len(namesets)]
            params = [_prm(EXPR_SHAPES[(k + j + 3 * rep) % len(EXPR_SHAPES)], ns if ns != "same_base" else "plain", j) for j in range(npar)]
            add([[name, params, [], list(range(nq))]], label=f"{name} {[(q[0], q[1]) for q in params]}")
            k += 1
    # name sets x expression shapes on RX / U3 / custom gates
    for ns in namesets:
        for sh in EXPR_SHAPES:
            if tier == "quick" and not stable_pick((ns, sh), 3, seed) and not (ns.startswith("sympyns") and sh in ("a", "2*a")):
                continue
            if ns == "same_base":
                continue
            add([["RX", [_prm(sh, ns)], [], [0]], ["U_custom", [_prm(sh, ns, 1), _prm("a", ns, 2)], [], [1]]], label=f"RX+U_custom {sh} names={ns}")
    # all three names of a name set in ONE gate (one bare symbol per parameter) and pairwise in one expression
    for ns in namesets:
        if ns == "same_base":
            continue
        add([["U3", [_prm("a", ns, 0), _prm("a", ns, 1), _prm("a", ns, 2)], [], [0]]], label=f"U3 of the three names of {ns}")
        if ns.startswith("indexed"):
            for sh in ("a+b", "a*b", "a-b"):
                for rot in (0, 1, 2):
                    add([["RX", [_prm(sh, ns, rot)], [], [0]], ["U_custom", [_prm("a", ns, rot), _prm("2*a", ns, (rot + 1) % 3)], ["c1"], [1, 0]]], label=f"RX+U_custom|c1 {sh} names={ns} rot={rot}")
    add([["RX", [_prm("a+b", "same_base")], [], [0]]], label="RX(x + x[0]) same base name plain and indexed")
    add([["RX", [_prm("cos(a)", "plain")], [], [0]], ["U_custom", [_prm("cos(a)", "sympyns1"), _prm("a", "indexed")], ["c1"], [1, 0]]], label="function-valued parameters cos(theta), cos(beta) (structure only)", skip_unitary=True)
    add([["U3", [_prm("a", "same_base", 1), _prm("a", "same_base", 2), _prm("a", "indexed")], [], [0]]], label="U3(x[0], x[1], x[3]) indexed only")
    # wrapper nestings
    sym_mods = ["c1", "c2", "dagger"]
    depth = 2 if tier == "quick" else 3
    for d in range(1, depth + 1):
        for mods in itertools.product(sym_mods, repeat=d):
            if tier == "quick" and d == 2 and not stable_pick(mods, 2, seed):
                continue
            if tier == "thorough" and d == 3 and not stable_pick(mods, 2, seed):
                continue
            nctl = sum(int(m[1:]) for m in mods if m.startswith("c"))
            if nctl > 3:
                continue
            base = rng.choice(["RY", "PHASE", "U_custom", "T", "V_custom", "XX"])
            npar = {"RY": 1, "PHASE": 1, "U_custom": 2, "T": 0, "V_custom": 1, "XX": 1}[base]
            nq = {"V_custom": 2, "XX": 2}.get(base, 1)
            if nq + nctl > 4:
                base, npar, nq = "RY", 1, 1
            params = [_prm(rng.choice(["a", "2*a", "a+b"]), rng.choice(["plain", "sympyns1", "indexed"]), j) for j in range(npar)]
            add([[base, params, list(mods), list(range(nq + nctl))]], label=f"{base}|{'|'.join(mods)}")
    const_mods = ["pow(2)", "pow(-1)", "pow(0.5)", "exp", "dagger", "c1", "pow(0)", "pow(1)", "pow(-2)"]
    for d in (1, 2):
        for mods in itertools.product(const_mods, repeat=d):
            if sum(m in ("exp", "pow(0.5)") for m in mods) > 1:
                continue
            if d == 2 and tier == "quick" and not stable_pick(mods, 2, seed):
                continue
            base = rng.choice(["X", "S", "SX", "K_const", "Z"])
            nctl = sum(1 for m in mods if m == "c1")
            add([[base, [], list(mods), list(range(1 + nctl))], ["RX", [_prm("a", "plain")], [], [0]]], label=f"{base}|{'|'.join(mods)} (const) + RX(theta)", skip_unitary=("exp" in mods and "pow(0.5)" in mods))
    # wrapper classes applied directly, in orders the fluent API never produces (it simplifies: dagger of a self-adjoint gate is
    # the gate, dagger of a dagger is the gate, controls are merged, dagger is pushed inside controls and powers)
    direct = [
        ("X", ["dagger!"]), ("T", ["dagger!", "dagger!"]), ("T", ["c1!", "dagger!"]), ("S", ["exp!", "dagger!"]), ("T", ["c1!", "c2!"]), ("Z", ["pow(0.5)!", "dagger!"]),
        ("SX", ["dagger!", "pow(2)!"]), ("S", ["dagger!", "exp!"]), ("K_const", ["dagger!", "c1!", "dagger!"]), ("X", ["c1!", "c1!", "dagger!"]), ("S", ["pow(2)!", "c1!", "pow(-1)!"]), ("H", ["dagger!", "c1"]),
        ("Z", ["pow(0.5)", "dagger!", "c1!"]), ("T", ["dagger", "dagger!"]),
    ]
    for base, mods in direct:
        nctl = sum(int(m.rstrip("!")[1:]) for m in mods if m.startswith("c"))
        add([[base, [], list(mods), list(range(1 + nctl))], ["RX", [_prm("a", "plain")], [], [0]]], label=f"{base}|{'|'.join(mods)} (wrapper classes applied directly) + RX(theta)", skip_unitary=any(m.startswith("exp") for m in mods))
    for base, mods in [("RY", ["dagger!", "dagger!"]), ("PHASE", ["c1!", "dagger!"]), ("U_custom", ["c1!", "c1!"]), ("RY", ["c1!", "dagger!", "c1!"])]:
        npar = {"RY": 1, "PHASE": 1, "U_custom": 2}[base]
        nctl = sum(int(m.rstrip("!")[1:]) for m in mods if m.startswith("c"))
        add([[base, [_prm(["a", "2*a"][j % 2], "plain", j) for j in range(npar)], list(mods), list(range(1 + nctl))]], label=f"{base}|{'|'.join(mods)} (wrapper classes applied directly, symbolic)")
    # numbers as parameters (ground): exactness of Python numbers
    nums = [0.1, 1 / 3, 1e-7, 1e20, -2.5e-3, 3.141592653589793, 5, 0, -7, 0.30000000000000004, 123456.789, -0.0]
    for i in range(0, len(nums), 3):
        ch = nums[i : i + 3] + [0.5] * (3 - len(nums[i : i + 3]))
        add([["U3", ch, [], [0]], ["RZ", [ch[0]], ["c1"], [1, 0]], ["U_custom", [ch[1], ch[2]], ["dagger"], [2]]], label=f"numbers {ch}")
    # integers that are not doubles: exact as parameters; their matrices are not compared (an angle of 2^53+1 reaches the
    # trigonometric functions through a float conversion on one evaluation path and exactly on the other)
    big = [2**53 + 1, 10**23, -(2**64) - 3]
    add([["U3", big, [], [0]], ["RZ", [big[0]], ["c1"], [1, 0]]], label=f"numbers {big} (integers beyond 2^53, structure only)", skip_unitary=True)
    # structure: empty circuits, idle qubits, several custom gates, mixed
    add([], n=None, label="empty circuit")
    add([], n=3, label="empty circuit with 3 idle qubits")
    add([["H", [], [], [1]]], n=5, label="H(1) on 5 qubits (idle)")
    add([["U_custom", [_prm("a", "plain"), _prm("a", "plain", 1)], [], [0]], ["V_custom", [_prm("2*a", "sympyns1", 1)], [], [2, 0]], ["K_const", [], ["c1"], [1, 2]], ["U_custom", [0.25, _prm("a/2", "indexed")], ["dagger", "c1"], [2, 1]]], n=4, label="three custom gates mixed with wrappers")
    add([["CNOT", [], [], [0, 1]], ["MS", [_prm("a", "plain"), _prm("a-b", "plain", 1)], [], [1, 0]], ["Delay", [_prm("a", "underscore")], [], [0]], ["GPi2", [_prm("0.5*a", "plain")], ["dagger"], [1]]], label="CNOT MS Delay GPi2|dagger")
    return items


def run(ctx):
    items = instances(ctx.tier, ctx.seed)
    if getattr(ctx, "only", None):
        items = [it for it in items if ctx.only in it["label"]]
    ctx.bounds = {
        "gates": "every built-in gate; custom gates with symbolic matrices (1- and 2-qubit, constant); wrapper nestings to depth %d over controlled(1,2)/dagger on symbolic bases and depth 2 over power/exp/dagger/controlled on constant bases" % (2 if ctx.tier == "quick" else 3),
        "parameter_expressions": EXPR_SHAPES,
        "symbol_names": NAMESETS,
        "routes": "to_dict/from_dict, real JSON text, StringIO, a real file, circuit sets",
    }
    ctx.assume("A-ENV-1 shim", "number literals travel through str(float)/sympify concretely: 'exact for Python numbers' is a ground comparison", "symbols are real")
    for it, out in pmap(work, items):
        ctx.merge(out)
    for it, out in pmap(work_seq, [{"label": "shared custom gate name across circuits"}], procs=1):
        ctx.merge(out)
    ctx.extra["explanation"] = (
        "Every instance circuit is serialised and deserialised through dict, JSON text, StringIO, a file and circuit sets; structure "
        "(width, wrapper nesting, control counts, exponents, qubits, parameters, free symbols, custom definitions, ==) is compared concretely, "
        "and 'same matrix for every assignment of its symbols' is the identity U_orig(theta)=U_deser(theta) decided by z3."
    )


def replay(data):
    install_numpy_sympy_shim()
    inp = data["inputs"]
    clause = inp["clause"]
    vals = {k: float(v) for k, v in (inp.get("values") or {}).items()}
    p = {k: v for k, v in inp.items() if k not in ("clause", "values")}
    try:
        if clause == "sequence":
            r = work_seq({"label": "replay"})
            c = [c for c in r["candidates"] if c["clause"] == clause]
            return bool(c), (c[0]["what"] if c else "no violation on re-execution")
        if clause in ("roundtrip-raises", "roundtrip-structure"):
            r = Result("replay")
            _work(r, dict(p, skip_unitary=True))
            c = [c for c in r.d["candidates"] if c["clause"] == clause]
            return bool(c), (c[0]["what"] if c else "no violation on re-execution")
        c = build_circuit(p)
        from orquestra.quantum.circuits import to_dict, circuit_from_dict

        c2 = circuit_from_dict(json.loads(json.dumps(to_dict(c))))
        A, B = CS.np_matrix(c2.to_unitary(), vals), CS.np_matrix(c.to_unitary(), vals)
        if A.shape != B.shape:
            return True, f"shape {A.shape} vs {B.shape}"
        d = np.abs(A - B).max()
        return bool(d > 1e-6 * (1 + np.abs(B).max())), f"max|delta|={d:.3g} at {vals}"
    except Exception:
        import traceback

        return False, "replay raised: " + traceback.format_exc()[-500:]
