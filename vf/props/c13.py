"""C13 - splitting, batching and recombining shots never loses or invents a shot.
E3 (CrossHair) for the integer/list logic, E2 (SymTrace) for the real-valued parts."""
import ast
import collections
import itertools
import random

import numpy as np
import z3

from ..core import Result, pmap
from .. import symtrace as ST
from .. import xhair as XH

LEVEL = "model_checking"

HARNESS = '''
IT = load_cut("orquestra.quantum.circuits._itertools", "vf_cut_itertools")
import copy


def h_expand_single(n: int, m: int) -> bool:
    """
    pre: 1 <= n and 1 <= m and n <= 4 * m
    post: _
    """
    new, mult = IT._expand_sample_size(n, m)
    return mult == len(new) and all(1 <= x <= m for x in new) and sum(new) == n


def h_expand_single_twin(n: int, m: int) -> bool:
    """
    pre: 1 <= n and 1 <= m and n <= 4 * m
    post: _
    """
    new, mult = IT._expand_sample_size(n, m)
    return sum(new) != n or mult != 2   # reachability: must be refuted (n = 2m)


def h_expand_lists(ns: List[int], m: int) -> bool:
    """
    pre: 1 <= len(ns) <= 2 and 1 <= m and all(1 <= n <= 2 * m for n in ns)
    post: _
    """
    circuits = [100 + i for i in range(len(ns))]
    before = (list(circuits), list(ns))
    new_c, new_n, mult = IT.expand_sample_sizes(circuits, ns, m)
    if (list(circuits), list(ns)) != before:
        return False
    if len(mult) != len(ns) or len(new_c) != len(new_n) or sum(mult) != len(new_c):
        return False
    pos = 0
    for i, k in enumerate(mult):
        if k < 1:
            return False
        if list(new_c[pos:pos + k]) != [circuits[i]] * k:
            return False
        chunk = new_n[pos:pos + k]
        if sum(chunk) != ns[i] or not all(1 <= x <= m for x in chunk):
            return False
        pos += k
    return True


def h_expand_run_combine(ns: List[int], m: int) -> bool:
    """
    pre: 1 <= len(ns) <= 2 and 1 <= m and all(1 <= n <= 2 * m for n in ns)
    post: _
    """
    circuits = [100 + i for i in range(len(ns))]
    new_c, new_n, mult = IT.expand_sample_sizes(circuits, ns, m)
    # stub runner: every copy returns exactly the number of shots it was asked for
    results = [{"0": size} for size in new_n]
    combined = IT.combine_measurement_counts(results, mult)
    if results != [{"0": size} for size in new_n]:
        return False
    return len(combined) == len(ns) and all(sum(c.values()) == n for c, n in zip(combined, ns))


def h_combine_counts_structure(mult: List[int], vals: List[int]) -> bool:
    """
    pre: 1 <= len(mult) <= 2 and all(1 <= k <= 2 for k in mult) and len(vals) == 4 and all(0 <= v for v in vals)
    post: _
    """
    total = sum(mult)
    ms = [{"00": vals[j], "1" + str(j % 2): 1} for j in range(total)]
    out = IT.combine_measurement_counts(ms, mult)
    pos = 0
    for i, k in enumerate(mult):
        want = {}
        for d in ms[pos:pos + k]:
            for key, c in d.items():
                want[key] = want.get(key, 0) + c
        if out[i] != want:
            return False
        pos += k
    return len(out) == len(mult)


def h_combine_counts_counter(mult: List[int], vals: List[int], alias: bool) -> bool:
    """
    pre: 1 <= len(mult) <= 2 and all(1 <= k <= 3 for k in mult) and len(vals) == 6 and all(0 <= v for v in vals)
    post: _
    """
    return _combine_counts_kinds(mult, vals, 1, alias)


def h_combine_counts_ordered(mult: List[int], vals: List[int], alias: bool) -> bool:
    """
    pre: 1 <= len(mult) <= 2 and all(1 <= k <= 3 for k in mult) and len(vals) == 6 and all(0 <= v for v in vals)
    post: _
    """
    return _combine_counts_kinds(mult, vals, 2, alias)


def _combine_counts_kinds(mult, vals, kind, alias):
    # per-copy results of every mapping kind a runner may hand back (dict, collections.Counter, OrderedDict); with `alias` a
    # memoising runner returns ONE object for the identical copies of a circuit; the same results are combined twice
    import collections
    make = [dict, collections.Counter, collections.OrderedDict][kind]
    ms = []
    pos = 0
    for i, k in enumerate(mult):
        if alias:
            shared = make({"00": vals[i], "1" + str(i % 2): 1})
            ms += [shared] * k
        else:
            ms += [make({"00": vals[pos + j], "1" + str(j % 2): 1}) for j in range(k)]
        pos += k
    snapshot = [dict(d) for d in ms]
    out = IT.combine_measurement_counts(ms, mult)
    if [dict(d) for d in ms] != snapshot:
        return False          # the runner's results must not change
    pos = 0
    for i, k in enumerate(mult):
        want = {}
        for d in snapshot[pos:pos + k]:
            for key, c in d.items():
                want[key] = want.get(key, 0) + c
        if dict(out[i]) != want:
            return False
        pos += k
    out2 = IT.combine_measurement_counts(ms, mult)
    return [dict(o) for o in out2] == [dict(o) for o in out] and len(out) == len(mult)


def h_combine_bitstrings(mult: List[int], lens: List[int], alias: bool) -> bool:
    """
    pre: 1 <= len(mult) <= 2 and all(1 <= k <= 2 for k in mult) and len(lens) == 4 and all(0 <= v <= 2 for v in lens)
    post: _
    """
    total = sum(mult)
    groups = []
    pos = 0
    all_bs = []
    for i, k in enumerate(mult):
        if alias:
            shared = ["0" * (i + 1)] * lens[i]      # a caching runner returns ONE list object for identical copies
            all_bs += [shared] * k
        else:
            all_bs += [[str(j % 2) * (i + 1)] * lens[pos + j] for j in range(k)]
        pos += k
    snapshot = [list(b) for b in all_bs]
    out = IT.combine_bitstrings(all_bs, mult)
    if [list(b) for b in all_bs] != snapshot:
        return False          # inputs must not grow
    pos = 0
    for i, k in enumerate(mult):
        want = []
        for b in snapshot[pos:pos + k]:
            want += b
        if out[i] != want:
            return False
        pos += k
    out2 = IT.combine_bitstrings(all_bs, mult)
    return out2 == out and len(out) == len(mult)


def h_combine_rejects_mismatch(mult: List[int], extra: int) -> bool:
    """
    pre: 1 <= len(mult) <= 3 and all(1 <= k <= 3 for k in mult) and extra != 0 and -1 <= extra <= 2
    post: _
    """
    total = sum(mult) + extra
    try:
        IT.combine_measurement_counts([{"0": 1}] * total, mult)
        return False
    except ValueError:
        pass
    try:
        IT.combine_bitstrings([["0"]] * total, mult)
        return False
    except ValueError:
        return True


def h_batches(ns: List[int], b: int) -> bool:
    """
    pre: len(ns) <= 4 and 1 <= b <= 5 and all(1 <= n for n in ns)
    post: _
    """
    circuits = [100 + i for i in range(len(ns))]
    batches = list(IT.split_into_batches(circuits, ns, b))
    flat = []
    pos = 0
    for chunk, n_samples in batches:
        chunk = list(chunk)
        if not (1 <= len(chunk) <= b):
            return False
        req = ns[pos:pos + len(chunk)]
        if any(n_samples < r for r in req) or n_samples not in req:
            return False
        flat += chunk
        pos += len(chunk)
    return flat == circuits


def h_batches_twin(ns: List[int], b: int) -> bool:
    """
    pre: len(ns) <= 4 and 1 <= b <= 5 and all(1 <= n for n in ns)
    post: _
    """
    batches = list(IT.split_into_batches([100 + i for i in range(len(ns))], ns, b))
    return len(batches) != 2     # reachability: must be refuted


def h_batches_rejects(ns: List[int], k: int, b: int) -> bool:
    """
    pre: len(ns) <= 3 and 0 <= k <= 4 and -2 <= b <= 3 and (k != len(ns) or b <= 0)
    post: _
    """
    try:
        IT.split_into_batches(list(range(k)), ns, b)
        return False
    except ValueError:
        return True
'''

EXPECT_REFUTED = {"h_expand_single_twin", "h_batches_twin"}


def parse_call_args(detail, name):
    """'... calling h_x([2], [1, 1], False) (which returns False)' -> {"pos": [...], "kw": {...}}"""
    i = detail.find(name + "(")
    if i < 0:
        return None
    j = i + len(name)
    depth, k = 0, j
    while k < len(detail):
        depth += detail[k] in "([{"
        depth -= detail[k] in ")]}"
        if depth == 0:
            break
        k += 1
    try:
        call = ast.parse("f" + detail[j : k + 1], mode="eval").body
        return {"pos": [ast.literal_eval(a) for a in call.args], "kw": {kw.arg: ast.literal_eval(kw.value) for kw in call.keywords}}
    except Exception:
        return None


def re_search(pat, text):
    import re

    m = re.search(pat, text)
    return m.group(1) if m else None


def harness_namespace():
    ns = {}
    src = XH.HEADER.format(verif=XH.VERIF, repo=XH.REPO) + HARNESS
    exec(compile(src, "<c13-harness>", "exec"), ns)
    return ns


# ---------------------------------------------------------------------------
# E2 parts


def _w_scale(res, p):
    """scale_and_discretize with symbolic positive weights."""
    import numpy
    from orquestra.quantum import utils as U

    k, total = p["k"], p["total"]
    names = {f"w{i}": z3.Real(f"w{i}") for i in range(k)}
    base = [z3.And(z > 0, z <= 4) for z in names.values()]
    records = []
    res.nontrivial()
    try:  # evidence only: a renamed private helper must not break the check
        res.fn(U.scale_and_discretize)
    except AttributeError:
        pass

    def fn(ex):
        ws = [ST.SV(names[f"w{i}"]) for i in range(k)]
        before = list(ws)
        out = U.scale_and_discretize(ws, total)
        S = sum(names.values())
        ok_int = all(isinstance(x, int) and not isinstance(x, bool) for x in out)
        records.append(("integers-summing-to-total",) + ex.prove(z3.BoolVal(ok_int and sum(out) == total and len(out) == k)))
        claims = []
        for i, x in enumerate(out):
            share = names[f"w{i}"] * total / S
            claims.append(z3.And(x - share < 1, share - x < 1))
        records.append(("within-one-of-share",) + ex.prove(z3.And(*claims)))
        records.append(("arguments-unchanged",) + ex.prove(z3.BoolVal(all(a is b for a, b in zip(ws, before)))))
        return out

    class P(ST.NpProxy):
        pass

    with ST.patched((U, "np", P(numpy)), (U, "round", _sym_round), (U, "int", _sym_int)):
        ex = ST.Explorer(base=base, timeout_ms=8000, logic="auto", max_paths=3000, int_bounds=(0, total + 1))
        outs = ex.run(fn)
    _collect(res, ex, outs, records, names, p)
    res.sample({"scale_and_discretize": f"{k} weights, total {total}", "paths": ex.npaths})


def _sym_round(x, *a):
    import builtins

    return builtins.round(x, *a)


def _sym_int(x, *a):
    import builtins

    return builtins.int(x, *a)


def _collect(res, ex, outs, records, names, p):
    res.d["paths"] += ex.npaths
    res.d["solver_queries"] += ex.queries
    res.d["solver_s"] += ex.solver_s
    for o in outs:
        if o[0] == "exc":
            res.ob(1)
            vals = {k: ST.model_value(o[2], z) for k, z in names.items()} if len(o) > 2 and o[2] is not None else {}
            res.candidate("raises", f"{p['label']} raised {type(o[1]).__name__}: {str(o[1])[:120]}", dict(p, clause="raises", values=vals), sub="raises")
    for clause, v, m in records:
        res.ob(1)
        if v == "holds":
            res.ob(0, 1, "A:z3")
        elif v == "violated":
            vals = {k: ST.model_value(m, z) for k, z in names.items()} if m is not None else {}
            res.candidate(clause, f"{p['label']}: {clause} fails", dict(p, clause=clause, values=vals), sub=clause)
        else:
            res.inconc("z3 unknown", clause)


class ChoiceStub:
    """Nondeterministic stub of sample_from_probability_distribution: any multiset of n outcomes drawn
    from keys whose probability the path condition does not force to 0 (forked, smallest-index-first)."""

    def __call__(self, dist, n):
        keys = list(dist.keys())
        out = collections.Counter()
        remaining = int(n)
        for idx, k in enumerate(keys):
            if remaining == 0:
                break
            pk = dist[k]
            possible = bool(pk > 0) if ST.is_sym(pk) else pk > 0
            if not possible:
                continue
            last = idx == len(keys) - 1
            # how many of the remaining draws land on k: fork over 0..remaining
            take = None
            for c in range(remaining, -1, -1):
                if last and c != remaining:
                    continue
                if ST._EX.decide(z3.Bool(f"choice_{ST._EX.choice_counter()}_{idx}_{c}")):
                    take = c
                    break
            if take is None:
                take = 0
            if take:
                out[k] += take
                remaining -= take
        if remaining:
            raise ST.PathAbort()
        return out


def _w_represent(res, p):
    """get_measurements_representing_distribution with symbolic probabilities."""
    import copy
    import math
    import numpy
    from orquestra.quantum.measurements import measurements as MM
    from orquestra.quantum.distributions import _measurement_outcome_distribution as MD
    from orquestra.quantum.distributions import MeasurementOutcomeDistribution as MOD

    keys = [tuple(k) for k in p["keys"]]
    N = p["N"]
    names = {f"p{i}": z3.Real(f"p{i}") for i in range(len(keys))}
    base = [z >= 0 for z in names.values()] + [sum(names.values()) == 1]
    if p.get("fixed"):
        # concrete probabilities chosen so that rounding overshoots by several shots; what stays nondeterministic (and is
        # explored exhaustively, every draw a forked choice) is the random top-up / elimination
        names, base = {}, []
    if p.get("unnormalised"):
        # an unnormalised distribution object (built with normalize=False) is a legal argument; only the
        # "argument unchanged" clause is examined for it (C20)
        base = [z >= 0 for z in names.values()] + [sum(names.values()) >= z3.RealVal("1/2"), sum(names.values()) <= z3.RealVal("3/2")]
    records = []
    res.nontrivial()
    try:  # evidence only: a renamed private helper must not break the check
        res.fn(MM.Measurements.get_measurements_representing_distribution, MM._check_sample_elimination)
    except AttributeError:
        pass
    stub = ChoiceStub()

    def fn(ex):
        ex._choice = 0
        ps = [ST.SV(names[f"p{i}"]) for i in range(len(keys))] if not p.get("fixed") else [float(x) for x in p["fixed"]]
        d = MOD(dict(zip(keys, ps)), normalize=False)
        before = list(d.distribution_dict.items())
        m = MM.Measurements.get_measurements_representing_distribution(d, N)
        shots = m.bitstrings
        if p.get("unnormalised"):
            after = list(d.distribution_dict.items())
            same = len(after) == len(before) and all(a[0] == b[0] for a, b in zip(after, before))
            claim = z3.And(*[ST.zr_real(a[1]) == ST.zr_real(b[1]) for a, b in zip(after, before)]) if same else z3.BoolVal(False)
            records.append(("distribution-unchanged",) + ex.prove(claim))
            return len(shots)
        records.append(("exactly-N-shots",) + ex.prove(z3.BoolVal(len(shots) == N)))
        supp = []
        for s in shots:
            if tuple(s) not in keys:
                supp.append(z3.BoolVal(False))
            elif p.get("fixed"):
                supp.append(z3.BoolVal(p["fixed"][keys.index(tuple(s))] > 0))
            else:
                supp.append(names[f"p{keys.index(tuple(s))}"] > 0)
        records.append(("shots-on-support",) + ex.prove(z3.And(*supp) if supp else True))
        after = list(d.distribution_dict.items())
        records.append(("distribution-unchanged",) + ex.prove(z3.BoolVal(len(after) == len(before) and all(a[0] == b[0] and a[1] is b[1] for a, b in zip(after, before)))))
        return len(shots)

    ST.Explorer.choice_counter = _choice_counter
    with ST.patched((MM, "sample_from_probability_distribution", stub), (MD, "math", ST.MathProxy(math)), (MM, "round", _sym_round), (MM, "int", _sym_int), (MM, "abs", abs)):
        ex = ST.Explorer(base=base, timeout_ms=8000, logic=None, max_paths=p.get("max_paths", 2500), int_bounds=(0, N + 1))
        outs = ex.run(fn)
    _collect(res, ex, outs, records, names, p)
    res.sample({"represent": p["keys"], "N": N, "paths": ex.npaths})


def _choice_counter(self):
    self._choice = getattr(self, "_choice", 0) + 1
    return self._choice


def work(item):
    kind, p = item
    res = Result(f"{kind}|{p['label']}")
    try:
        if kind == "scale":
            _w_scale(res, p)
        elif kind == "represent":
            _w_represent(res, p)
        elif kind == "represent-ground":
            _w_represent_ground(res, p)
        elif kind == "scale-typed":
            res.d["ground_instances"] += 1
            res.d["instances"] -= 1
            res.ob(1)
            bad = scale_typed_bad(p["ws"], p["total"])
            if bad:
                res.candidate("scale-typed", f"{p['label']}: {bad}", dict(p, clause="scale-typed", values={}), sub="scale-typed")
            else:
                res.ob(0, 1, "ground-numeric")
        elif kind == "expand-big":
            res.d["ground_instances"] += 1
            res.d["instances"] -= 1
            res.ob(1)
            bad = expand_big_bad(p["n"], p["m"])
            if bad:
                res.candidate("expand-big", f"{p['label']}: {bad}", dict(p, clause="expand-big", values={}), sub="expand-big")
            else:
                res.ob(0, 1, "ground-structure")
    except ST.Inconclusive as e:
        res.ob(1)
        res.inconc(str(e))
    return res.as_dict()


def expand_big_bad(n, m):
    """Ground: operands beyond 2^53, where a float quotient would lose shots."""
    from orquestra.quantum.circuits._itertools import _expand_sample_size, expand_sample_sizes

    new, mult = _expand_sample_size(n, m)
    if mult != len(new) or sum(new) != n or not all(1 <= x <= m for x in new):
        return f"{mult} copies summing to {sum(new)} (requested {n}, maximum {m})"
    c, nn, mm = expand_sample_sizes(["c"], [n], m)
    if sum(nn) != n or len(c) != mm[0]:
        return "expand_sample_sizes loses shots"
    return None


def scale_typed_bad(ws, total):
    """ground: scale_and_discretize on weights of one Python kind (ints, floats, mixed, big ints), list or tuple"""
    from fractions import Fraction
    from orquestra.quantum.utils import scale_and_discretize

    args = [list(ws), tuple(ws)]
    if all(abs(w) < 2**53 for w in ws):
        # the same weights as numpy arrays (float64, and int64 when all are ints) - another kind of Iterable the signature allows
        args.append(np.array(ws, dtype=float))
        if all(isinstance(w, int) for w in ws):
            args.append(np.array(ws, dtype=np.int64))
    for arg in args:
        snap = list(arg)
        out = scale_and_discretize(arg, total)
        if list(arg) != snap or any(type(a) is not type(b) for a, b in zip(arg, snap)):
            return f"argument changed: {snap} -> {list(arg)}"
        if isinstance(arg, np.ndarray):
            out = [int(x) if float(x) == int(x) else x for x in list(out)]  # an array argument may come back as numpy integers
        if not isinstance(out, list) or len(out) != len(ws) or not all(isinstance(x, int) and not isinstance(x, bool) for x in out):
            return f"result {out!r} for {type(arg).__name__} weights is not a list of {len(ws)} ints"
        if sum(out) != total:
            return f"{out} sums to {sum(out)}, not {total}"
        S = sum(Fraction(w) for w in ws)
        for x, w in zip(out, ws):
            if abs(x - Fraction(w) * total / S) >= 1:
                return f"{ws} total {total} -> {out}: entry {x} is not within one of its share {float(Fraction(w) * total / S):.6g}"
    return None


def represent_ground_bad(dist, N, seed):
    from orquestra.quantum.measurements import Measurements
    from orquestra.quantum.distributions import MeasurementOutcomeDistribution as MOD

    np.random.seed(seed)
    d = MOD(dict(dist))
    before = dict(d.distribution_dict)
    m = Measurements.get_measurements_representing_distribution(d, N)
    if len(m.bitstrings) != N:
        return f"{len(m.bitstrings)} shots for N={N}"
    if any(d.distribution_dict.get(tuple(s), 0) <= 0 for s in m.bitstrings):
        return "shot outside the support"
    if d.distribution_dict != before:
        return "distribution modified"
    return None


GROUND_DISTS = {
    "uniform5": {(0, 0, 0): 0.2, (0, 0, 1): 0.2, (0, 1, 0): 0.2, (1, 0, 0): 0.2, (1, 1, 1): 0.2},
    "thirteen": {tuple(int(c) for c in format(i, "04b")): w for i, w in zip(range(13), [0.09, 0.01, 0.13, 0.07, 0.11, 0.03, 0.17, 0.05, 0.08, 0.02, 0.12, 0.06, 0.06])},
    "halves": {(0,): 0.5, (1,): 0.5},
    "skewed": {(0, 0): 0.001, (0, 1): 0.333, (1, 0): 0.333, (1, 1): 0.333},
    "with-zero": {(0, 0): 0.0, (0, 1): 0.25, (1, 0): 0.75},
    # outcomes that are tuples of integers beyond one digit (legal keys; two of them collide when written as text: "110")
    "multi-digit": {(0, 12): 0.25, (1, 10): 0.25, (11, 0): 0.3, (3, 7): 0.2},
    # rounding overshoots by 2 / 3 shots (halves round to even), two / three outcomes hold no shot but may be drawn for elimination
    "overshoot2": {tuple(int(c) for c in format(i, "03b")): w for i, w in enumerate([0.1875] * 5 + [0.03125] * 2)},
    "overshoot3": {tuple(int(c) for c in format(i, "04b")): w for i, w in enumerate([0.15] * 6 + [0.025] * 4)},
}
MANY_SEEDS = {"overshoot2": {8: 60}, "overshoot3": {10: 60}}


def _w_represent_ground(res, p):
    res.d["ground_instances"] += 1
    res.d["instances"] -= 1
    res.ob(1)
    bad = represent_ground_bad(GROUND_DISTS[p["dist"]], p["N"], p["seed"])
    if bad:
        res.candidate("represent-ground", f"{p['label']}: {bad}", dict(p, clause="represent-ground", values={}), sub="represent-ground")
    else:
        res.ob(0, 1, "ground-structure")


def instances(tier, seed):
    items = []
    for k, total in ([(1, 3), (2, 1), (2, 3), (3, 2), (3, 4)] if tier == "quick" else [(1, 3), (2, 1), (2, 3), (2, 5), (3, 2), (3, 4), (3, 6), (4, 3)]):
        items.append(("scale", {"k": k, "total": total, "label": f"scale {k} weights total {total}"}))
    for ws in ([3, 1, 2], [1, 1, 1], [5], [2, 2], [7, 1, 1, 1], [1.0, 1.0, 2.0], [1, 1, 2], [4.0], [0.25, 0.25, 0.5], [2, 3, 5], [0.5, 0.25, 0.25], [0.1, 0.2, 0.3, 0.4], [1, 0.5, 2.5], [10**18, 1, 10**18], [3, 3, 3, 1], [1e-9, 1.0, 2.0], [1, 2, 3, 4, 5, 6, 7]):
        for total in (1, 2, 7, 8, 10, 100, 1001):
            items.append(("scale-typed", {"ws": ws, "total": total, "label": f"scale_and_discretize({ws}, {total})"}))
    reps = [([[0], [1]], 1), ([[0], [1]], 2), ([[0], [1]], 3), ([[0, 0], [0, 1], [1, 1]], 1), ([[0, 0], [0, 1], [1, 1]], 2)]
    for n, m in [(2**60 + 1, 2**59), (2**64 + 3, 2**63), (7, 7), (8, 7), (1, 10**18), (3 * 10**18 + 1, 10**18)]:
        items.append(("expand-big", {"n": n, "m": m, "label": f"expand n={n} m={m}"}))
    if tier == "thorough":
        reps += [([[0, 0], [0, 1], [1, 0], [1, 1]], 1), ([[0, 0], [0, 1], [1, 0], [1, 1]], 2), ([[0], [1]], 4)]
    else:
        reps += [([[0, 0], [0, 1], [1, 0], [1, 1]], 1)]
    for keys, N in reps:
        items.append(("represent", {"keys": keys, "N": N, "label": f"represent keys={keys} N={N}"}))
    # rounding that overshoots / undershoots by SEVERAL shots (Python rounds halves to even: 1.5 -> 2, 0.5 -> 0, 2.5 -> 2), with
    # outcomes that hold no shot at all among the candidates for elimination; every random draw is a forked choice
    k3 = [[int(c) for c in format(i, "03b")] for i in range(8)]
    # (the overshooting counterpart - 5 x 3/16 + 2 x 1/32 with N = 8 - exceeds 6000 forked paths in the elimination loop; it is
    # run as a ground instance with seeded numpy randomness below: "overshoot2", "overshoot3")
    items.append(("represent", {"keys": k3[:6], "N": 10, "fixed": [0.25, 0.25, 0.25, 0.05, 0.05, 0.15], "max_paths": 6000, "label": "represent 6 outcomes 3x0.25 + 2x0.05 + 0.15, N=10 (rounding undershoots by 2)"}))
    if tier == "thorough":
        items.append(("represent", {"keys": k3, "N": 10, "fixed": [0.15] * 5 + [0.05] * 3, "max_paths": 20000, "label": "represent 8 outcomes 5x0.15 + 3x0.05 (unnormalised 0.9), N=10"}))
    rng = random.Random(seed + 5)
    for name in GROUND_DISTS:
        for N in sorted(set(([1, 3, 7, 100] if tier == "quick" else [1, 2, 3, 5, 7, 10, 33, 100, 1000]) + list(MANY_SEEDS.get(name, {})))):
            for s in range(MANY_SEEDS.get(name, {}).get(N, 10) * (1 if tier == "quick" else 4)):
                items.append(("represent-ground", {"dist": name, "N": N, "seed": rng.randrange(10**6), "label": f"represent-ground {name} N={N} #{s}"}))
    return items


def run(ctx):
    from orquestra.quantum.circuits import _itertools as IT

    try:  # evidence only: a renamed private helper must not break the check
        ctx.fn(IT._expand_sample_size, IT.expand_sample_sizes, IT.combine_measurement_counts, IT.combine_bitstrings, IT._combine_measurements, IT.split_into_batches, IT._iterate_in_batches)
    except AttributeError:
        pass
    tmo = 40 if ctx.tier == "quick" else 240
    only = getattr(ctx, "only", None)
    if not only or only.startswith("h_") or only == "xh":
        results = XH.run_crosshair(HARNESS, per_condition_timeout=tmo, only=(only if only and only.startswith("h_") else None))
        ctx.cuts.append("CUT-FMT: f-strings inside raise statements of _itertools.py replaced by a constant (re-applied to the current source on every run)")
        for name, (verdict, detail, secs) in sorted(results.items()):
            ctx.instances += 1
            ctx.solver_s += secs
            ctx.solver_queries += 1
            twin = name in EXPECT_REFUTED
            if twin:
                ctx.vacuity_twins += 1
                if verdict == "refuted":
                    ctx.vacuity_ok += 1
                else:
                    ctx.harness_errors.append(f"reachability twin {name} was not refuted ({verdict}): {detail[:200]}")
                continue
            ctx.obligations += 1
            ctx.nontrivial.add(name)
            ctx.sample({"crosshair_harness": name, "verdict": verdict, "seconds": round(secs, 1)})
            if verdict == "confirmed":
                ctx.discharged += 1
                ctx.stage("E3:crosshair-confirmed-over-all-paths")
            elif verdict == "refuted":
                args = parse_call_args(detail, name)
                ctx.candidates.append({"key": f"xh|{name}", "clause": name, "what": f"CrossHair counterexample: {detail[:250]}", "inputs": {"harness": name, "args": args, "clause": name, "detail": detail[:400]}})
            else:
                ctx.inconc(f"xh|{name}", f"CrossHair: {verdict} within {tmo}s per condition (bug-hunting only): {detail[:150]}")
    items = instances(ctx.tier, ctx.seed)
    if only:
        items = [it for it in items if only in it[1]["label"] or only == it[0]]
    for it, out in pmap(work, items):
        ctx.merge(out)
    ctx.bounds = {
        "crosshair": "expand: n <= 4m (single), lists <= 3 with n <= 3m, n and m otherwise unbounded ints; expand->stub run->combine: lists <= 2; combine: <= 3 groups of multiplicity <= 3 (incl. one shared list object per group); batches: lists <= 4, batch size <= 5; per-condition timeout %ds" % tmo,
        "scale_and_discretize": "<= 3 (4 thorough) symbolic positive weights in (0,4], totals <= 4 (6)",
        "representing_distribution": "symbolic probabilities on 2-3 outcomes (4 thorough), N <= 3 (4); plus ground runs on 5 fixed distributions with seeded numpy randomness",
    }
    ctx.assume(
        "E3: CrossHair 'Confirmed over all paths' within the harness preconditions; anything else is inconclusive",
        "E2: floats are exact reals (rounding of value*scale_factor outside); np.random choice replaced by a forked nondeterministic stub that may return any multiset on outcomes of non-zero probability",
    )
    ctx.extra["explanation"] = (
        "expand_sample_sizes/_expand_sample_size/combine_*/split_into_batches are explored by CrossHair over symbolic ints and lists (postconditions = the conservation laws, "
        "plus reachability twins); scale_and_discretize and get_measurements_representing_distribution run on z3-symbolic weights with every rounding and random choice forked."
    )


def replay(data):
    inp = data["inputs"]
    clause = inp["clause"]
    try:
        if "harness" in inp:
            if not inp.get("args"):
                return False, "could not parse the counterexample arguments"
            ns = harness_namespace()
            try:
                r = ns[inp["harness"]](*inp["args"].get("pos", []), **inp["args"].get("kw", {}))
            except Exception as e:
                return True, f"harness raised {type(e).__name__}: {e} for {inp['args']}"
            return (r is False), f"{inp['harness']}({inp['args']}) returned {r}"
        p = {k: v for k, v in inp.items() if k not in ("clause", "values")}
        vals = inp.get("values") or {}
        if clause == "expand-big":
            bad = expand_big_bad(p["n"], p["m"])
            return bool(bad), bad or "ok"
        if clause == "represent-ground":
            bad = represent_ground_bad(GROUND_DISTS[p["dist"]], p["N"], p["seed"])
            return bool(bad), bad or "ok"
        if clause == "scale-typed":
            bad = scale_typed_bad(p["ws"], p["total"])
            return bool(bad), bad or "ok"
        if "k" in p:
            from orquestra.quantum.utils import scale_and_discretize

            ws = [float(vals.get(f"w{i}", 1.0)) for i in range(p["k"])]
            try:
                out = scale_and_discretize(list(ws), p["total"])
            except Exception as e:
                return True, f"raised {type(e).__name__}: {e} for {ws}"
            S = sum(ws)
            bad = sum(out) != p["total"] or any(abs(x - w * p["total"] / S) >= 1 + 1e-9 for x, w in zip(out, ws)) or not all(isinstance(x, int) for x in out)
            return bad, f"{ws} -> {out}"
        if "keys" in p:
            # try the witness probabilities with many seeds: the stub over-approximates numpy's sampler
            from orquestra.quantum.measurements import Measurements
            from orquestra.quantum.distributions import MeasurementOutcomeDistribution as MOD

            keys = [tuple(k) for k in p["keys"]]
            ps = [max(0.0, float(vals.get(f"p{i}", 1 / len(keys)))) for i in range(len(keys))]
            if p.get("fixed"):
                ps = [float(x) for x in p["fixed"]]
            for seed in range(200 if not p.get("fixed") else 1500):
                np.random.seed(seed)
                d = MOD(dict(zip(keys, ps)), normalize=False)
                try:
                    m = Measurements.get_measurements_representing_distribution(d, p["N"])
                except Exception as e:
                    return True, f"raised {type(e).__name__}: {e} for {ps}"
                if len(m.bitstrings) != p["N"] or any(ps[keys.index(tuple(s))] <= 0 for s in m.bitstrings):
                    return True, f"{ps}, seed {seed}: shots {m.bitstrings}"
            return False, "not reproduced in 200 seeded runs"
    except Exception:
        import traceback

        return False, "replay raised: " + traceback.format_exc()[-600:]
    return False, "unknown"
