"""C04 - every view of a simulated state agrees on which qubit is which. E1 + E2.

E1 (sympy symbols through the real simulator, z3 over the circle):
  exact    sim.get_exact_expectation_values(circuit, op)  ==  <psi| op |psi>  with psi and op built by a
           bit-level oracle (qubit 0 = most significant bit); scipy's sparse mat-vec is stubbed by the dense one
  dist     sim.get_measurement_outcome_distribution(circuit, None)[key] == |psi_idx(key)|^2 and, with no oracle
           at all, exact expectation of every Z-type operator == eigenvalue average under that distribution
  sample   sim.run_and_measure(circuit, N) in both sampling regimes with numpy's Generator.choice replaced by a
           recording stub: the probability attached to each returned tuple t is |psi_idx(t)|^2
E2 (shadow values, path explorer):
  wfsample sample_from_wavefunction on a wavefunction whose amplitudes are all symbolic, both regimes
  probdist create_bitstring_distribution_from_probability_distribution on a generic probability vector
  freq     expectation from frequencies with every count symbolic; single-shot estimates with symbolic coefficient
ground (no free variable; stub-free cross-check of the same chain on basis states and seeded angles):
  pipeline / counts
"""
import builtins
from fractions import Fraction
import itertools
import math
import random

import numpy as np
import sympy
import z3

from ..core import Result, pmap, stable_pick
from ..front import install_numpy_sympy_shim, Refuse, embed, mmul
from ..solve import Prover, first_violation
from .. import circ as CS
from .. import symtrace as ST

LEVEL = "model_checking"


# ---------------------------------------------------------------------------
# verifier-side conventions (bit level; qubit 0 = most significant bit of the basis index)


def bit(i, q, n):
    return (i >> (n - 1 - q)) & 1


def idx_of(t):
    v = 0
    for b in t:
        v = (v << 1) | int(b)
    return v


def eig(bits, qubits):
    return -1 if sum(int(bits[q]) for q in qubits) % 2 else 1


def pauli_action(factors, i, n):
    """P|i> = phase * |j> for P = product of single-qubit Paulis (q, letter).  returns (j, phase)."""
    j, ph = i, 1
    for q, l in factors:
        b = bit(i, q, n)
        if l == "X":
            j ^= 1 << (n - 1 - q)
        elif l == "Y":
            j ^= 1 << (n - 1 - q)
            ph *= 1j if b == 0 else -1j
        elif l == "Z":
            ph *= -1 if b else 1
    return j, ph


def op_from_terms(terms):
    from orquestra.quantum.operators import PauliSum, PauliTerm

    ts = [PauliTerm({int(q): l for q, l in fs}, c) for c, fs in terms]
    return ts[0] if len(ts) == 1 else PauliSum(ts)


def oracle_state(F, ops, n):
    A = F.alg
    psi = [[A.one if i == 0 else A.zero] for i in range(2**n)]
    for op in ops:
        M = F.mat(op.gate.matrix)
        psi = mmul(A, embed(A, M, list(op.qubit_indices), n), psi)
    return [r[0] for r in psi]


def oracle_expectation(F, psi, terms, n):
    A = F.alg
    tot = A.zero
    for c, fs in terms:
        acc = A.zero
        for i in range(2**n):
            j, ph = pauli_action(fs, i, n)
            # <psi|P|psi> = sum_i conj(psi_j) * ph * psi_i
            acc = A.add(acc, A.mul(A.mul(A.conj(psi[j]), psi[i]), A.const(ph.real if isinstance(ph, complex) else ph, ph.imag if isinstance(ph, complex) else 0)))
        tot = A.add(tot, A.mul(F.t(c), acc))
    return tot


# ---------------------------------------------------------------------------
# environment stubs


class DenseOp:
    """Stands in for the scipy.sparse matrix returned by the REAL get_sparse_operator (computed
    concretely): only `operator * state` is offered, as the dense matrix-vector product."""

    def __init__(self, sp):
        self.M = np.asarray(sp.toarray())
        self.shape = self.M.shape

    def __mul__(self, state):
        out = np.empty(self.M.shape[0], dtype=object)
        for i in range(self.M.shape[0]):
            acc = 0
            for j in range(self.M.shape[1]):
                m = self.M[i, j]
                if m != 0:
                    acc = acc + (m.real if m.imag == 0 else complex(m)) * state[j]
            out[i] = acc
        return out


class SymScalar:
    """numpy.dot of object arrays returns the bare sympy expression, which has no `.real`."""

    def __init__(self, e):
        self.e = e

    @property
    def real(self):
        return RealPart(self.e)


class RealPart:
    """real part of a sympy expression, kept outside sympy (sympy.re would rewrite it assuming complex symbols)."""

    def __init__(self, e):
        self.e = e


def tr(F, v):
    if isinstance(v, RealPart):
        x = F.t(v.e)
        return F.alg.mul(F.alg.add(x, F.alg.conj(x)), F.alg.const(Fraction(1, 2)))
    return F.t(v)


class DotProxy:
    def __init__(self, real_np):
        self._np = real_np

    def __getattr__(self, name):
        return getattr(self._np, name)

    def dot(self, a, b):
        r = self._np.dot(a, b)
        return SymScalar(r) if isinstance(r, sympy.Basic) else r


class StubGen:
    """numpy Generator whose choice() returns the offered outcomes cyclically (skipping those whose
    probability is literally the number 0) and records which probability came with which outcome."""

    def __init__(self):
        self.calls = []

    def choice(self, a, size=None, p=None, **kw):
        # numpy's contract: an int a means arange(a); size None means one draw (a scalar)
        a = list(range(int(a))) if isinstance(a, (int, np.integer)) else list(a)
        scalar = size is None
        size = 1 if scalar else int(size)
        p = [1.0 / len(a)] * len(a) if p is None else list(p)
        live = [k for k in range(len(a)) if not (isinstance(p[k], (int, float)) and not ST.is_sym(p[k]) and p[k] == 0)]
        picks = [live[i % len(live)] for i in range(size)]
        self.calls.append({"a": a, "p": p, "picks": picks})
        if scalar:
            return a[picks[0]]
        if all(isinstance(x, (str, int, np.integer)) and not isinstance(x, bool) for x in a):
            return self._np_array([a[k] for k in picks])
        out = np.empty(size, dtype=object)
        for i, k in enumerate(picks):
            out[i] = a[k]
        return out

    @staticmethod
    def _np_array(xs):
        return np.array(xs)


class RngNp(ST.NpProxy):
    def __init__(self, real_np, gen):
        super().__init__(real_np)
        object.__setattr__(self, "gen", gen)
        object.__setattr__(self, "random", self)

    def default_rng(self, seed=None):
        return self.gen


class PlainRngNp:
    """numpy proxy that only replaces random.default_rng (E1 runs: sympy values need no other help)."""

    def __init__(self, real_np, gen):
        self._np, self.gen, self.random = real_np, gen, self

    def default_rng(self, seed=None):
        return self.gen

    def __getattr__(self, name):
        return getattr(self._np, name)


def frozen_circuit(c):
    """A Circuit that reports no free symbols, so the sampling glue (which refuses unbound circuits)
    runs on the symbolic state. Stated stub."""
    from orquestra.quantum.circuits import Circuit

    class NoFreeSymbols(Circuit):
        @property
        def free_symbols(self):
            return []

    return NoFreeSymbols(c.operations, n_qubits=c.n_qubits)


def _sym_patches():
    from orquestra.quantum.operators import _utils as OU
    from orquestra.quantum.operators._openfermion_utils import sparse_tools as SP
    from orquestra.quantum.distributions import _measurement_outcome_distribution as MD

    real_gso = OU.get_sparse_operator
    return ST.patched(
        (OU, "get_sparse_operator", lambda *a, **k: DenseOp(real_gso(*a, **k))),
        (SP, "numpy", DotProxy(np)),
        (MD, "float", lambda x: x if isinstance(x, sympy.Basic) else builtins.float(x)),
        (MD, "is_normalized", lambda d: True),
    )


SYM_STUBS = [
    "scipy.sparse mat-vec inside expectation(): the matrix returned by the REAL get_sparse_operator (concrete operator) is wrapped so that `operator * state` is the dense product; numpy.dot's bare result gets a `.real`",
    "distributions module: float() is the identity on sympy expressions; is_normalized() answers True for the symbolic state of a unitary circuit (norm clause is C02/C12/C17)",
    "sampling: numpy Generator.choice replaced by a recording stub that returns the offered outcomes cyclically, never one whose probability is the literal 0 (numpy's contract: outcomes are drawn only where p > 0)",
    "run_and_measure on a symbolic circuit: a Circuit subclass reporting no free symbols bypasses the unbound-circuit guard",
]


# ---------------------------------------------------------------------------


def work(item):
    install_numpy_sympy_shim()
    kind, p = item
    res = Result(f"{kind}|{p['label']}")
    from orquestra.quantum import wavefunction as WF, utils as UT
    from orquestra.quantum.api import wavefunction_simulator as WS
    from orquestra.quantum.runners.symbolic_simulator import SymbolicSimulator
    from orquestra.quantum.distributions import _measurement_outcome_distribution as MD
    from orquestra.quantum.operators import _utils as OU
    from orquestra.quantum.operators._openfermion_utils import sparse_tools as SP
    from orquestra.quantum.measurements import measurements as MM
    from orquestra.quantum.circuits import _unitary_tools as UTL

    try:  # evidence only: a renamed private helper must not break the check
        res.fn(
            WF.Wavefunction.get_outcome_probs, WF.Wavefunction.get_probabilities, WF.sample_from_wavefunction, UT.bitstring_to_tuple,
            UT.convert_bitstrings_to_tuples, UT.convert_tuples_to_bitstrings, WS.BaseWavefunctionSimulator.get_wavefunction,
            WS.BaseWavefunctionSimulator._run_and_measure, WS.BaseWavefunctionSimulator.run_and_measure,
            WS.BaseWavefunctionSimulator.get_exact_expectation_values, WS.BaseWavefunctionSimulator.get_measurement_outcome_distribution,
            SymbolicSimulator._get_wavefunction_from_native_circuit, MD.create_bitstring_distribution_from_probability_distribution,
            OU.get_expectation_value, SP.get_sparse_operator, SP.expectation, MM.get_expectation_value_from_frequencies,
            MM.Measurements.get_counts, MM.Measurements.get_expectation_values, UTL._lift_matrix_numpy, UTL._lift_matrix_sympy,
        )
    except AttributeError:
        pass
    try:
        {
            "exact": _w_exact, "dist": _w_dist, "sample": _w_sample, "wfsample": _w_wfsample, "probdist": _w_probdist,
            "freq": _w_freq, "shot": _w_shot, "pipeline": _w_pipeline, "counts": _w_counts, "batch": _w_batch,
        }[kind](res, p)
    except ST.Inconclusive as e:
        res.ob(1)
        res.inconc(str(e))
    except Refuse as e:
        res.ob(1)
        res.inconc(f"translation refused: {e}")
    return res.as_dict()


def _cand(res, clause, what, p, w=None):
    res.candidate(clause, what, dict(p, clause=clause, values=w or {}), sub=clause)


def batch_bad(widths, ones, n_samples):
    """ground: a BATCH of circuits of different register widths, circuit i flipping the qubits ones[i] of |0..0>: result i must
    be the shots of circuit i - tuples of length widths[i], all equal to that basis state (batch order is part of numbering:
    position i of the result speaks about circuit i)"""
    from orquestra.quantum.circuits import Circuit, X
    from orquestra.quantum.runners.symbolic_simulator import SymbolicSimulator

    circs = [Circuit([X(q) for q in qs], n_qubits=w) for w, qs in zip(widths, ones)]
    for ns in (n_samples, [n_samples + i for i in range(len(circs))]):
        out = SymbolicSimulator(seed=7).run_batch_and_measure(circs, ns)
        if len(out) != len(circs):
            return f"{len(out)} results for {len(circs)} circuits"
        for i, (m, w, qs) in enumerate(zip(out, widths, ones)):
            want = tuple(1 if q in qs else 0 for q in range(w))
            want_n = ns if isinstance(ns, int) else ns[i]
            if len(m.bitstrings) < want_n or any(tuple(b) != want for b in m.bitstrings):
                return f"result {i} of a batch with widths {widths} (samples {ns}): shots {sorted(set(map(tuple, m.bitstrings)))[:3]} x{len(m.bitstrings)}, want {want_n} x {want}"
    return None


def _w_batch(res, p):
    res.d["ground_instances"] += 1
    res.d["instances"] -= 1
    res.ob(1)
    bad = batch_bad(p["widths"], p["ones"], p["n_samples"])
    if bad:
        _cand(res, "batch-result-numbering", f"{p['label']}: {bad}", p)
    else:
        res.ob(0, 1, "ground-structure")


def _circuit(p):
    return CS.circuit_from_spec([tuple(s) for s in p["specs"]], p["n"])


def _w_exact(res, p):
    from orquestra.quantum.runners.symbolic_simulator import SymbolicSimulator

    c, n, terms = _circuit(p), p["n"], [(t[0], [tuple(f) for f in t[1]]) for t in p["terms"]]
    op = op_from_terms(terms)
    sim = SymbolicSimulator()
    res.d["cuts"] += SYM_STUBS[:1]
    with _sym_patches():
        val = sim.get_exact_expectation_values(c, op)
        wf = sim.get_wavefunction(c).amplitudes
    res.nontrivial()
    P = Prover(res)

    def build(F):
        psi = oracle_state(F, c.operations, n)
        return [("value", F.alg.sub(tr(F, val), oracle_expectation(F, psi, terms, n)))]

    def build_wf(F):
        psi = oracle_state(F, c.operations, n)
        got = F.mat(wf)
        return [(f"amp[{i}]", F.alg.sub(got[i][0], psi[i])) for i in range(2**n)]

    fv = first_violation(P.prove_zero("wavefunction", build_wf, "state-vector-numbering", sub="state-vector-numbering"))
    if fv:
        _cand(res, "state-vector-numbering", f"[{CS.spec_str(p['specs'])}] amplitude {fv[0]} differs from the ordered product of embedded gates", p, fv[1])
    fv = first_violation(P.prove_zero("exact", build, "exact-expectation-numbering", sub="exact-expectation-numbering"))
    if fv:
        _cand(res, "exact-expectation-numbering", f"exact expectation of {p['oplabel']} on [{CS.spec_str(p['specs'])}] differs from <psi|P|psi> with qubit q of the operator = qubit q of the circuit", p, fv[1])
    # vacuity twin: against the operator with every qubit index mirrored the identity must fail (when mirroring changes it)
    mirrored = [(cf, [(n - 1 - q, l) for q, l in fs]) for cf, fs in terms]
    # (only where mirroring provably changes the value: a single Z_q with q off the centre; <Z_q> = cos t_q on these circuits' RY layer)
    if len(terms) == 1 and len(terms[0][1]) == 1 and terms[0][1][0][1] == "Z" and terms[0][1][0][0] != n - 1 - terms[0][1][0][0] and p.get("cname") == "product":
        res.d["vacuity_twins"] += 1

        def twin(F):
            psi = oracle_state(F, c.operations, n)
            return [("twin", F.alg.sub(tr(F, val), oracle_expectation(F, psi, mirrored, n)))]

        if first_violation(P.prove_zero("twin", twin, "twin", expect_violation=True)):
            res.d["vacuity_ok"] += 1
        else:
            res.herr("vacuity twin (mirrored qubit order) was not refuted")
    res.sample({"circuit": CS.spec_str(p["specs"]), "operator": p["oplabel"]})


def _w_dist(res, p):
    from orquestra.quantum.runners.symbolic_simulator import SymbolicSimulator

    c, n = _circuit(p), p["n"]
    sim = SymbolicSimulator()
    res.d["cuts"] += SYM_STUBS[:2]
    subsets = [list(s) for r in range(1, n + 1) for s in itertools.combinations(range(n), r)]
    with _sym_patches():
        d = sim.get_measurement_outcome_distribution(c, None).distribution_dict
        exact = {tuple(s): sim.get_exact_expectation_values(c, op_from_terms([(1.0, [(q, "Z") for q in s])])) for s in subsets}
    res.nontrivial()
    keys = list(itertools.product((0, 1), repeat=n))
    res.ob(1)
    if sorted(d.keys()) != sorted(keys):
        _cand(res, "distribution-keys", f"exact distribution has keys {sorted(d.keys())[:6]}.. for width {n}", p)
        return
    res.ob(0, 1, "concrete-structure")
    P = Prover(res)

    def build(F):
        psi = oracle_state(F, c.operations, n)
        A = F.alg
        return [(f"key{k}", A.sub(F.t(d[k]), A.mul(psi[idx_of(k)], A.conj(psi[idx_of(k)])))) for k in keys]

    fv = first_violation(P.prove_zero("dist", build, "exact-distribution-numbering", sub="exact-distribution-numbering"))
    if fv:
        _cand(res, "exact-distribution-numbering", f"exact distribution entry {fv[0]} of [{CS.spec_str(p['specs'])}] is not |amplitude|^2 of the basis state with those bits", p, fv[1])

    def build2(F):
        A = F.alg
        out = []
        for s in subsets:
            avg = A.zero
            for k in keys:
                avg = A.add(avg, A.mul(F.t(d[k]), A.const(eig(k, s))))
            out.append((f"Z{s}", A.sub(tr(F, exact[tuple(s)]), avg)))
        return out

    fv = first_violation(P.prove_zero("zavg", build2, "z-expectation-is-eigenvalue-average", sub="z-expectation-is-eigenvalue-average"))
    if fv:
        _cand(res, "z-expectation-is-eigenvalue-average", f"exact expectation of {fv[0]} on [{CS.spec_str(p['specs'])}] is not the eigenvalue average under the exact outcome distribution", p, fv[1])
    res.sample({"circuit": CS.spec_str(p["specs"]), "distribution_keys": len(keys), "z_operators": len(subsets)})


def _padding(a, n):
    """positions of alternatives that cannot be outcomes (the tuple branch appends a non-tuple so that numpy keeps
    tuples whole); a list of plain indices has none."""
    if not any(isinstance(x, (tuple, str)) for x in a):
        return []
    return [k for k, x in enumerate(a) if not (isinstance(x, (tuple, str)) and len(x) == n)]


def _check_sample_call(gen, samples, n, nsamp):
    """structural part shared by E1/E2 sampling harnesses; returns (problems, pairs) where pairs are
    (returned tuple, probability object the stub drew it with)."""
    probs = []
    if len(gen.calls) != 1:
        return [f"choice called {len(gen.calls)} times"], []
    call = gen.calls[0]
    if len(samples) != nsamp:
        probs.append(f"{len(samples)} samples returned for {nsamp} requested")
    pairs = []
    for pos, t in enumerate(samples[:nsamp]):
        if not (isinstance(t, tuple) and len(t) == n and all(isinstance(b, (int, np.integer)) and b in (0, 1) for b in t)):
            probs.append(f"sample {pos} is {t!r}, not a tuple of {n} bits")
            continue
        pairs.append((t, call["p"][call["picks"][pos]]))
    return probs, pairs


def _w_sample(res, p):
    from orquestra.quantum.runners.symbolic_simulator import SymbolicSimulator
    from orquestra.quantum import wavefunction as WF

    c, n, nsamp = _circuit(p), p["n"], p["n_samples"]
    res.d["cuts"] += SYM_STUBS[2:]
    gen = StubGen()
    sim = SymbolicSimulator(seed=p.get("seed"))
    with ST.patched((WF, "np", PlainRngNp(np, gen))):
        m = sim.run_and_measure(frozen_circuit(c), nsamp)
    res.nontrivial()
    samples = list(m.bitstrings)
    res.ob(1)
    probs, pairs = _check_sample_call(gen, samples, n, nsamp)
    regime = "more samples than basis states" if 2**n < nsamp else "at most as many samples as basis states"
    if probs:
        _cand(res, "sample-shape", f"[{CS.spec_str(p['specs'])}] N={nsamp} ({regime}): " + "; ".join(probs)[:300], p)
        return
    res.ob(0, 1, "concrete-structure")
    P = Prover(res)

    def build(F):
        A = F.alg
        psi = oracle_state(F, c.operations, n)
        return [(f"sample{pos}={t}", A.sub(F.t(pr), A.mul(psi[idx_of(t)], A.conj(psi[idx_of(t)])))) for pos, (t, pr) in enumerate(pairs)]

    fv = first_violation(P.prove_zero("sample", build, "sampled-outcome-numbering", sub="sampled-outcome-numbering"))
    if fv:
        _cand(res, "sampled-outcome-numbering", f"[{CS.spec_str(p['specs'])}] N={nsamp} ({regime}): {fv[0]} was drawn with a probability that is not |amplitude|^2 of the basis state with those bits", p, fv[1])
    # counts strings of the returned measurements
    res.ob(1)
    cnt = m.get_counts()
    want = {}
    for t in samples:
        want["".join(str(b) for b in t)] = want.get("".join(str(b) for b in t), 0) + 1
    if dict(cnt) != want:
        _cand(res, "count-strings", f"get_counts() {dict(cnt)} differs from position-wise strings {want}", p)
    else:
        res.ob(0, 1, "concrete-structure")
    res.sample({"circuit": CS.spec_str(p["specs"]), "n_samples": nsamp, "regime": regime})


def _w_wfsample(res, p):
    """E2: sample_from_wavefunction on a numeric-mode wavefunction whose amplitudes are all symbolic."""
    from orquestra.quantum import wavefunction as WF

    n, nsamp = p["n"], p["n_samples"]
    N = 2**n
    names = {}
    for i in range(N):
        names[f"a{i}_re"], names[f"a{i}_im"] = z3.Real(f"a{i}_re"), z3.Real(f"a{i}_im")
    base = [z3.And(z <= 2, z >= -2) for z in names.values()]
    records, reached = [], set()
    res.nontrivial()
    res.d["cuts"] += [SYM_STUBS[2], "numpy proxy in wavefunction.py (object arrays for symbolic amplitudes; abs/sum/isclose exact-real)"]

    def fn(ex):
        amps = [ST.CV(ST.SV(names[f"a{i}_re"]), ST.SV(names[f"a{i}_im"])) for i in range(N)]
        try:
            wf = WF.Wavefunction(list(amps))
        except ValueError:
            reached.add("rejected")
            return "rejected"
        reached.add("accepted")
        gen.calls.clear()
        samples = WF.sample_from_wavefunction(wf, nsamp, p.get("seed"))
        probs, pairs = _check_sample_call(gen, samples, n, nsamp)
        records.append(("sample-shape", "holds" if not probs else "violated", None, "; ".join(probs)))
        claims = []
        for t, pr in pairs:
            i = idx_of(t)
            claims.append(ST.zr_real(pr) == names[f"a{i}_re"] * names[f"a{i}_re"] + names[f"a{i}_im"] * names[f"a{i}_im"])
        if claims:
            v, m = ex.prove(z3.And(*claims))
            records.append(("sampled-outcome-numbering", v, m, ""))
        # every offered alternative that is not a valid outcome must have probability exactly 0
        call = gen.calls[0]
        junk = [ST.zr_real(call["p"][k]) == 0 for k in _padding(call["a"], n)]
        if junk:
            v, m = ex.prove(z3.And(*junk))
            records.append(("padding-has-zero-probability", v, m, ""))
        return "ok"

    gen = StubGen()
    with ST.patched((WF, "np", RngNp(np, gen))):
        ex = ST.Explorer(base=base, timeout_ms=10000, logic="smt", max_paths=50)
        outs = ex.run(fn)
    _e2_finish(res, ex, outs, records, names, p)
    res.d["vacuity_twins"] += 1
    if {"accepted", "rejected"} <= reached:
        res.d["vacuity_ok"] += 1
    else:
        res.herr(f"wfsample harness reached only {sorted(reached)}")
    res.sample({"width": n, "n_samples": nsamp, "paths": ex.npaths})


def _e2_finish(res, ex, outs, records, names, p):
    res.d["paths"] += ex.npaths
    res.d["solver_queries"] += ex.queries
    res.d["solver_s"] += ex.solver_s
    for o in outs:
        if o[0] == "exc":
            res.ob(1)
            vals = {k: ST.model_value(o[2], z) for k, z in names.items()} if len(o) > 2 and o[2] is not None else {}
            _cand(res, "raises", f"{p['label']} raised {type(o[1]).__name__}: {str(o[1])[:150]}", p, vals)
    for clause, v, m, note in records:
        res.ob(1)
        if v == "holds":
            res.ob(0, 1, "A:z3")
        elif v == "violated":
            vals = {k: ST.model_value(m, z) for k, z in names.items()} if m is not None else {}
            _cand(res, clause, f"{p['label']}: {clause} fails {note}"[:300], p, vals)
        else:
            res.inconc("z3 unknown", clause)


def _w_probdist(res, p):
    """E2: create_bitstring_distribution_from_probability_distribution on a generic probability vector."""
    from orquestra.quantum.distributions import _measurement_outcome_distribution as MD

    n = p["n"]
    N = 2**n
    names = {f"p{i}": z3.Real(f"p{i}") for i in range(N)}
    base = [z >= 0 for z in names.values()]
    if p.get("normalised", True):
        base.append(sum(names.values()) == 1)
    else:
        base += [sum(names.values()) <= 3, sum(names.values()) >= z3.RealVal("1/4")]
    records = []
    res.nontrivial()
    res.d["cuts"].append("distributions module: float() is the identity on symbolic values; math.isclose exact-real")
    keys = list(itertools.product((0, 1), repeat=n))

    def fn(ex):
        vec = np.empty(N, dtype=object)
        for i in range(N):
            vec[i] = ST.SV(names[f"p{i}"])
        d = MD.create_bitstring_distribution_from_probability_distribution(vec).distribution_dict
        ok_keys = sorted(d.keys()) == sorted(keys)
        records.append(("distribution-keys", "holds" if ok_keys else "violated", None, f"keys {sorted(d.keys())[:5]}"))
        if ok_keys:
            tot = sum(names.values())
            # proportional to p at the basis index with those bits (normalisation may rescale)
            # (an input inside the normalisation band is stored as it is)
            claims = [z3.Or(ST.zr_real(d[k]) * tot == names[f"p{idx_of(k)}"], ST.zr_real(d[k]) == names[f"p{idx_of(k)}"]) for k in keys]
            v, m = ex.prove(z3.And(*claims))
            records.append(("exact-distribution-numbering", v, m, ""))
        return "ok"

    with ST.patched((MD, "float", lambda x: x if ST.is_sym(x) else builtins.float(x)), (MD, "math", ST.MathProxy(math))):
        ex = ST.Explorer(base=base, timeout_ms=10000, max_paths=200)
        outs = ex.run(fn)
    _e2_finish(res, ex, outs, records, names, p)
    res.sample({"width": n, "normalised_input": p.get("normalised", True), "paths": ex.npaths})


def _w_freq(res, p):
    from . import c10

    c10._w_freq(res, p)


def _w_shot(res, p):
    """Measurements([shot]).get_expectation_values(Z-type operator with symbolic coefficient) = coefficient * eigenvalue."""
    from . import c10

    c10._w_stats(res, p)


def _w_counts(res, p):
    """ground, exhaustive over all tuples of the width: get_counts strings are position-wise."""
    from orquestra.quantum.measurements import Measurements

    res.d["ground_instances"] += 1
    res.d["instances"] -= 1
    n = p["n"]
    res.ob(1)
    bad = counts_bad(n)
    if bad:
        _cand(res, "count-strings", bad, p)
    else:
        res.ob(0, 1, "ground-structure")


def counts_bad(n):
    from orquestra.quantum.measurements import Measurements

    for t in itertools.product((0, 1), repeat=n):
        m = Measurements([t, t])
        s = "".join(str(b) for b in t)
        if dict(m.get_counts()) != {s: 2}:
            return f"get_counts of {t} gives {dict(m.get_counts())}, want {{{s!r}: 2}}"
        back = Measurements.from_counts({s: 1})
        if list(back.bitstrings) != [t]:
            return f"from_counts({s!r}) gives {back.bitstrings}"
        d = m.get_distribution().distribution_dict
        if list(d.keys()) != [t]:
            return f"get_distribution of {t} has keys {list(d.keys())}"
    return None


def _w_pipeline(res, p):
    """ground, stub-free: the whole chain with real scipy / real numpy sampling at concrete angles."""
    res.d["ground_instances"] += 1
    res.d["instances"] -= 1
    res.ob(1)
    bad = pipeline_bad(p)
    if bad:
        _cand(res, "pipeline-agreement", bad, p)
    else:
        res.ob(0, 1, "ground-numeric")


def pipeline_bad(p):
    from orquestra.quantum.runners.symbolic_simulator import SymbolicSimulator
    from orquestra.quantum.circuits import Circuit, RY, RX, CNOT, X

    n = p["n"]
    ang = p["angles"]
    # an angle of None leaves that qubit without any gate (register wider than the gates need)
    ops = [RY(float(a))(q) for q, a in enumerate(ang) if a is not None]
    if p.get("entangle") and n > 1:
        ops += [CNOT(n - 1, 0), RX(0.37)(n - 1)]
    c = Circuit(ops, n_qubits=n)
    sim = SymbolicSimulator(seed=p.get("seed", 7))
    psi = np.asarray(sim.get_wavefunction(c).amplitudes, dtype=complex)
    dist = sim.get_measurement_outcome_distribution(c, None).distribution_dict
    for k, v in dist.items():
        if abs(v - abs(psi[idx_of(k)]) ** 2) > 1e-9:
            return f"exact distribution {k}: {v} vs |amplitude|^2 {abs(psi[idx_of(k)]) ** 2}"
    subsets = [list(s) for r in range(1, n + 1) for s in itertools.combinations(range(n), r)]
    if n > 4:  # wide registers: singletons, a few pairs and the full string
        subsets = [[0], [n - 9], [1, n - 1], list(range(n))]
    for s in subsets:
        e = sim.get_exact_expectation_values(c, op_from_terms([(1.0, [(q, "Z") for q in s])]))
        avg = sum(v * eig(k, s) for k, v in dist.items())
        if abs(e - avg) > 1e-9:
            return f"exact <Z{s}> = {e} but eigenvalue average under the exact distribution = {avg}"
    for nsamp in ((max(1, 2**n - 1), 2**n, 2**n + 1, 4 * 2**n) if n <= 4 else (3, 2**n + 1)):
        m = sim.run_and_measure(c, nsamp)
        if len(m.bitstrings) != nsamp:
            return f"{len(m.bitstrings)} samples for {nsamp} requested"
        for t in m.bitstrings:
            if len(t) != n:
                return f"sample {t} has length {len(t)} for width {n}"
            if dist.get(tuple(int(b) for b in t), 0.0) <= 1e-12:
                return f"sampled outcome {t} (N={nsamp}) has exact probability {dist.get(tuple(t), 0.0)}"
        if p.get("basis"):
            # deterministic state: every estimate equals the exact value
            for s in subsets:
                est = m.get_expectation_values(op_from_terms([(1.0, [(q, "Z") for q in s])])).values[0]
                e = sim.get_exact_expectation_values(c, op_from_terms([(1.0, [(q, "Z") for q in s])]))
                if abs(est - e) > 1e-9:
                    return f"basis state {p['label']}: estimated <Z{s}> = {est} from samples {m.bitstrings[:2]} but exact = {e}"
            cnt = m.get_counts()
            want = "".join("1" if a is not None and abs(a - math.pi) < 1e-9 else "0" for a in ang)
            if dict(cnt) != {want: nsamp}:
                return f"basis state {want}: counts {dict(cnt)}"
    return None


# ---------------------------------------------------------------------------


def circuits(n):
    ry = [(f"RY(t{q})", (q,)) for q in range(n)]
    out = {"product": ry}
    if n == 1:
        out["phase"] = ry + [("RX(u)", (0,))]
    if n == 2:
        out["entangled"] = ry + [("CNOT", (1, 0)), ("RX(u)", (1,))]
    if n == 3:
        out["entangled"] = ry + [("CNOT", (2, 0)), ("RX(u)", (1,))]
        out["chain"] = ry + [("CNOT", (0, 1)), ("CNOT", (1, 2)), ("RZ(v)", (0,)), ("RX(u)", (2,))]
    if n == 4:
        out["entangled"] = ry + [("CNOT", (3, 1)), ("RX(u)", (2,)), ("SWAP", (0, 3))]
        # three-qubit gates whose qubits are scattered / out of order inside the register (numpy and sympy lifting paths)
        out["scattered3"] = ry + [("X|c2", (0, 3, 2)), ("RX(u)|c2", (1, 3, 2))]
    # circuits that END in qubit-permuting gates (several, overlapping) - a tail a simulator may be tempted to treat by relabelling
    if n == 2:
        out["swap-tail"] = ry + [("RX(u)", (0,)), ("SWAP", (0, 1))]
    if n == 3:
        out["swap-tail"] = ry + [("RX(u)", (1,)), ("SWAP", (0, 1)), ("SWAP", (1, 2))]
        out["perm-tail"] = ry + [("CNOT", (0, 2)), ("SWAP", (2, 0)), ("ISWAP", (0, 1)), ("SWAP", (1, 2)), ("SWAP", (0, 1))]
    # multi-qubit gates whose parameter is still symbolic when the state is computed (sympy lifting path)
    if n == 2:
        out["sym2q"] = ry + [("RY(v)|c1", (0, 1)), ("XX(u)", (1, 0))]
    if n == 3:
        out["sym2q"] = ry + [("RY(v)|c1", (2, 0)), ("RX(u)|c1", (1, 2))]
    # registers declared wider than the gates need: idle qubits after / before / between the used ones
    if n == 2:
        out["idle-tail"] = [("RY(t0)", (0,)), ("RX(u)", (0,))]
        out["idle-head"] = [("RY(t1)", (1,))]
    if n == 3:
        out["idle-tail"] = [("RY(t0)", (0,)), ("RY(t1)", (1,)), ("CNOT", (1, 0))]
        out["idle-middle"] = [("RY(t0)", (0,)), ("RY(t2)", (2,)), ("RX(u)", (2,))]
    return out


def z_ops(n):
    out = []
    for r in range(1, n + 1):
        for s in itertools.combinations(range(n), r):
            out.append((f"Z{list(s)}", [(1.0, [(q, "Z") for q in s])]))
    return out


def other_ops(n):
    out = [(f"{l}{q}", [(1.0, [(q, l)])]) for q in range(n) for l in "XY"]
    if n >= 2:
        out += [
            ("X0*Y1", [(1.0, [(0, "X"), (1, "Y")])]),
            (f"Y0*Z{n - 1}", [(1.0, [(0, "Y"), (n - 1, "Z")])]),
            (f"0.5*Z0*Z{n - 1} - 0.25*X{n - 1} + 2", [(0.5, [(0, "Z"), (n - 1, "Z")]), (-0.25, [(n - 1, "X")]), (2.0, [])]),
        ]
    if n >= 3:
        out += [("X0*Y1*Z2", [(1.0, [(0, "X"), (1, "Y"), (2, "Z")])]), ("Z2*Y0 (unordered)", [(1.0, [(2, "Z"), (0, "Y")])])]
    return out


def instances(tier, seed):
    items = []
    rng = random.Random(seed * 31 + 4)
    widths = (1, 2, 3, 4)
    for n in widths:
        for cname, specs in circuits(n).items():
            if tier == "quick" and (cname in ("chain", "perm-tail") or (n == 4 and cname != "scattered3")):
                continue
            sp = [[g, list(q)] for g, q in specs]
            ops = z_ops(n) + other_ops(n)
            for ol, terms in ops:
                if tier == "quick" and n == 3 and cname in ("entangled", "swap-tail") and not (ol.startswith("Z") or stable_pick((ol, cname), 2, seed)):
                    continue
                if tier == "quick" and n == 4 and not (ol in ("Z[0]", "Z[1]", "Z[2]", "Z[3]", "X2", "Y3") or stable_pick((ol, cname), 6, seed)):
                    continue
                items.append(("exact", {"n": n, "specs": sp, "terms": [[c, [list(f) for f in fs]] for c, fs in terms], "oplabel": ol, "cname": cname, "label": f"n={n} {cname} op={ol}"}))
            items.append(("dist", {"n": n, "specs": sp, "label": f"n={n} {cname}"}))
            for nsamp in (2**n, 2**n + 1) + ((1, 3 * 2**n) if tier == "thorough" else ()):
                items.append(("sample", {"n": n, "specs": sp, "n_samples": nsamp, "label": f"n={n} {cname} N={nsamp}"}))
    for n in ((1, 2) if tier == "quick" else (1, 2, 3)):
        for nsamp in (2**n, 2**n + 1):
            items.append(("wfsample", {"n": n, "n_samples": nsamp, "label": f"generic state n={n} N={nsamp}"}))
    for n in (1, 2, 3):
        items.append(("probdist", {"n": n, "normalised": True, "label": f"generic probabilities n={n}"}))
        if n <= 2 or tier == "thorough":
            items.append(("probdist", {"n": n, "normalised": False, "label": f"generic unnormalised weights n={n}"}))
    for w in (1, 2, 3):
        for r in range(w + 1):
            for marked in itertools.combinations(range(w), r):
                items.append(("freq", {"width": w, "marked": list(marked), "label": f"width={w} marked={list(marked)}"}))
        for t in itertools.product((0, 1), repeat=w):
            for r in range(1, w + 1):
                for s in itertools.combinations(range(w), r):
                    if tier == "quick" and w == 3 and not stable_pick((t, s), 3, seed):
                        continue
                    items.append(("shot", {"shots": [list(t)], "terms": [[list(s), "k0"]], "bessel": False, "label": f"single shot {t} Z{list(s)}"}))
    # wide registers: operators on a strict subset of the measured qubits, indices beyond 8 (symbolic coefficients)
    from . import c10

    for it in c10.instances(tier, seed):
        if it[0] == "stats" and it[1]["label"].startswith("wide register") and not it[1]["bessel"]:
            items.append(("shot", dict(it[1])))
    # batches of circuits of different widths (order of the widths: ascending, descending, every 3-cycle, repeats)
    for widths in ([1, 2, 3], [3, 2, 1], [3, 1, 2], [2, 3, 1], [2, 2, 1], [2, 1, 2, 1], [1, 3, 2], [4, 1, 3, 2], [2]):
        ones = [[q for q in range(w) if (q + k) % 2 == 0] for k, w in enumerate(widths)]
        items.append(("batch", {"widths": widths, "ones": ones, "n_samples": 5, "label": f"batch of basis-state circuits of widths {widths}"}))
    for n in (1, 2, 3):
        items.append(("counts", {"n": n, "label": f"count strings width {n}"}))
        for bits in itertools.product((0, 1), repeat=n):
            items.append(("pipeline", {"n": n, "angles": [math.pi if b else 0.0 for b in bits], "basis": True, "label": f"basis |{''.join(map(str, bits))}>"}))
        for used in range(1, n):  # gates on the first `used` qubits only, and on the last `used` only
            items.append(("pipeline", {"n": n, "angles": [math.pi] * used + [None] * (n - used), "basis": True, "label": f"basis, gates on first {used} of {n} qubits"}))
            items.append(("pipeline", {"n": n, "angles": [None] * (n - used) + [math.pi] * used, "basis": True, "label": f"basis, gates on last {used} of {n} qubits"}))
        for k in range(2 if tier == "quick" else 10):
            items.append(("pipeline", {"n": n, "angles": [round(rng.uniform(0.2, 2.9), 3) for _ in range(n)], "entangle": bool(k % 2), "seed": rng.randrange(1000), "label": f"seeded angles #{k} n={n}"}))
    # wide registers (basis indices beyond one byte): a few basis states and one seeded product state
    for n in ((9,) if tier == "quick" else (9, 10, 11)):
        for ones in (([0], [1, n - 1]) if tier == "quick" else ([0], [1, n - 1], [n - 9], list(range(0, n, 3)))):
            items.append(("pipeline", {"n": n, "angles": [math.pi if q in ones else 0.0 for q in range(n)], "basis": True, "label": f"wide basis n={n} ones at {ones}"}))
        if tier == "thorough":
            items.append(("pipeline", {"n": n, "angles": [round(rng.uniform(0.2, 2.9), 3) for _ in range(n)], "entangle": True, "seed": 11, "label": f"wide seeded angles n={n}"}))
    return items


def run(ctx):
    items = instances(ctx.tier, ctx.seed)
    if getattr(ctx, "only", None):
        items = [it for it in items if ctx.only in it[1]["label"] or ctx.only == it[0]]
    ctx.bounds = {
        "widths": "n = 1, 2, 3 and one 4-qubit circuit with three-qubit gates on scattered, out-of-order qubits (thorough: all 4-qubit circuits, and a 3-qubit CNOT-chain circuit with RZ/RX)",
        "circuits": "asymmetric product state RY(t_q) on every qubit q (independent symbolic angles), optionally followed by CNOT(n-1,0) and RX(u)(1 or n-1): all angles symbolic",
        "operators": "every Z-type operator on every non-empty qubit subset; X_q, Y_q on every qubit, mixed strings X0*Y1, Y0*Z(n-1), X0*Y1*Z2, an unordered string and a 3-term sum with a constant",
        "sampling": "N = 2^n (string branch) and N = 2^n + 1 (tuple branch); thorough also N = 1 and 3*2^n; generic symbolic states for n <= 2 (3 in thorough)",
        "frequencies": "all 2^w keys, w <= 3, every marked subset, every count a symbolic integer",
        "ground": "all 2^n basis states and seeded random angles through the unmodified pipeline (real scipy, real numpy sampling)",
    }
    ctx.assume("A-ENV-1 shim in symbolic runs", "angles real", "floats exact reals in E2", *SYM_STUBS)
    for it, out in pmap(work, items):
        ctx.merge(out)
    ctx.extra["explanation"] = (
        "The real simulator, exact-distribution, exact-expectation, sampling and estimation code runs on symbolic angles / amplitudes / "
        "probabilities / counts; z3 decides, for all values, that every view indexes qubits like the circuit does (bit-level oracle, qubit 0 = most "
        "significant bit), that exact Z-expectations equal eigenvalue averages under the exact distribution (no oracle), and that in both sampling "
        "branches each returned tuple is drawn with the probability of the basis state carrying those bits."
    )


# ---------------------------------------------------------------------------
# replay


def replay(data):
    install_numpy_sympy_shim()
    inp = data["inputs"]
    clause = inp["clause"]
    vals = {k: float(v) for k, v in (inp.get("values") or {}).items()}
    p = {k: v for k, v in inp.items() if k not in ("clause", "values")}
    try:
        if clause == "batch-result-numbering":
            bad = batch_bad(p["widths"], p["ones"], p["n_samples"])
            return bool(bad), bad or "ok"
        if clause == "pipeline-agreement":
            bad = pipeline_bad(p)
            return bool(bad), bad or "ok"
        if clause == "count-strings" and "specs" not in p:
            bad = counts_bad(p["n"])
            return bool(bad), bad or "ok"
        if "width" in p or "shots" in p:
            from . import c10

            return c10.replay(data)
        if "specs" in p:
            return _replay_circuit(p, clause, vals)
        # E2 harnesses: re-execute at the model's values
        r = Result("replay")
        if "n_samples" in p:
            return _replay_wfsample(p, clause, vals)
        return _replay_probdist(p, clause, vals)
    except Exception:
        import traceback

        return False, "replay raised: " + traceback.format_exc()[-600:]


def _bound_circuit(p, vals):
    c = _circuit(p)
    m = {s: vals.get(str(s), 0.37) for s in c.free_symbols}
    return c.bind(m)


def _np_state(c, n):
    psi = np.zeros(2**n, dtype=complex)
    psi[0] = 1
    for op in c.operations:
        psi = CS.np_embed(np.array(op.gate.matrix.evalf(), dtype=complex) if isinstance(op.gate.matrix, sympy.MatrixBase) else op.gate.matrix, list(op.qubit_indices), n) @ psi
    return psi


def _replay_circuit(p, clause, vals):
    from orquestra.quantum.runners.symbolic_simulator import SymbolicSimulator
    from orquestra.quantum import wavefunction as WF

    n = p["n"]
    c = _bound_circuit(p, vals)
    psi = _np_state(c, n)
    sim = SymbolicSimulator(seed=3)
    if clause == "state-vector-numbering":
        got = np.asarray(sim.get_wavefunction(c).amplitudes, dtype=complex)
        d = np.abs(got - psi).max()
        return bool(d > 1e-6), f"max amplitude difference {d:.3g} at {vals}"
    if clause == "exact-expectation-numbering":
        terms = [(t[0], [tuple(f) for f in t[1]]) for t in p["terms"]]
        got = sim.get_exact_expectation_values(c, op_from_terms(terms))
        want = 0
        for cf, fs in terms:
            for i in range(2**n):
                j, ph = pauli_action(fs, i, n)
                want += cf * np.conj(psi[j]) * ph * psi[i]
        return bool(abs(got - want.real) > 1e-6), f"real pipeline gives {got}, <psi|P|psi> = {want.real} at {vals}"
    if clause in ("exact-distribution-numbering", "distribution-keys", "z-expectation-is-eigenvalue-average"):
        dist = sim.get_measurement_outcome_distribution(c, None).distribution_dict
        if clause == "distribution-keys":
            return sorted(dist) != sorted(itertools.product((0, 1), repeat=n)), f"keys {sorted(dist)[:6]}"
        if clause == "exact-distribution-numbering":
            d = max(abs(v - abs(psi[idx_of(k)]) ** 2) for k, v in dist.items())
            return bool(d > 1e-6), f"max |dist[key] - |amp|^2| = {d:.3g} at {vals}"
        worst = 0.0
        for r in range(1, n + 1):
            for s in itertools.combinations(range(n), r):
                e = sim.get_exact_expectation_values(c, op_from_terms([(1.0, [(q, "Z") for q in s])]))
                worst = max(worst, abs(e - sum(v * eig(k, s) for k, v in dist.items())))
        return bool(worst > 1e-6), f"max |exact - eigenvalue average| = {worst:.3g} at {vals}"
    # sampling clauses: the same recording stub, numeric state
    gen = StubGen()
    with ST.patched((WF, "np", PlainRngNp(np, gen))):
        m = sim.run_and_measure(c, p["n_samples"])
    samples = list(m.bitstrings)
    probs, pairs = _check_sample_call(gen, samples, n, p["n_samples"])
    if clause == "sample-shape":
        return bool(probs), "; ".join(probs) or "ok"
    if clause == "count-strings":
        want = {}
        for t in samples:
            want["".join(str(b) for b in t)] = want.get("".join(str(b) for b in t), 0) + 1
        return dict(m.get_counts()) != want, f"{dict(m.get_counts())} vs {want}"
    d = max((abs(float(pr) - abs(psi[idx_of(t)]) ** 2) for t, pr in pairs), default=0.0)
    return bool(d > 1e-6 or probs), f"max |drawn probability - |amp|^2 of the returned bits| = {d:.3g} at {vals} {probs}"


def _replay_wfsample(p, clause, vals):
    from orquestra.quantum import wavefunction as WF

    n = p["n"]
    N = 2**n
    amps = np.array([complex(vals.get(f"a{i}_re", 0.0), vals.get(f"a{i}_im", 0.0)) for i in range(N)])
    nrm = np.linalg.norm(amps)
    if nrm == 0:
        return False, "zero vector"
    amps = amps / nrm  # the model satisfies the norm band; renormalise exactly for the float run
    gen = StubGen()
    with ST.patched((WF, "np", PlainRngNp(np, gen))):
        try:
            samples = WF.sample_from_wavefunction(WF.Wavefunction(amps), p["n_samples"], p.get("seed"))
        except Exception as e:
            return clause == "raises", f"raised {type(e).__name__}: {e}"
    probs, pairs = _check_sample_call(gen, samples, n, p["n_samples"])
    if clause == "sample-shape":
        return bool(probs), "; ".join(probs) or "ok"
    if clause == "padding-has-zero-probability":
        call = gen.calls[0]
        junk = [float(call["p"][k]) for k in _padding(call["a"], n)]
        return any(j != 0 for j in junk), f"padding probabilities {junk}"
    d = max((abs(float(pr) - abs(amps[idx_of(t)]) ** 2) for t, pr in pairs), default=0.0)
    return bool(d > 1e-6 or probs), f"max |drawn probability - |amp|^2| = {d:.3g} {probs}"


def _replay_probdist(p, clause, vals):
    from orquestra.quantum.distributions import create_bitstring_distribution_from_probability_distribution

    n = p["n"]
    vec = np.array([max(0.0, vals.get(f"p{i}", 1.0 / 2**n)) for i in range(2**n)])
    try:
        d = create_bitstring_distribution_from_probability_distribution(vec).distribution_dict
    except Exception as e:
        return clause == "raises", f"raised {type(e).__name__}: {e}"
    keys = list(itertools.product((0, 1), repeat=n))
    if clause == "distribution-keys":
        return sorted(d) != sorted(keys), f"keys {sorted(d)[:6]}"
    tot = vec.sum()
    worst = max(min(abs(d[k] * tot - vec[idx_of(k)]), abs(d[k] - vec[idx_of(k)])) for k in keys if k in d)
    return bool(worst > 1e-9), f"max |dist[key]*total - p[index of key]| = {worst:.3g} for p={list(vec)}"
