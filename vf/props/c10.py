"""C10 - statistics computed from measurements are the exact sample statistics. E2."""
import itertools
import random

import numpy as np
import z3

from ..core import Result, pmap, stable_pick
from .. import symtrace as ST

LEVEL = "model_checking"


class ZerosObjProxy(ST.NpProxy):
    """numpy proxy whose zeros() gives object arrays (so symbolic entries can be stored)."""

    def zeros(self, shape, dtype=None, **kw):
        a = self._np.empty(shape, dtype=object)
        a.fill(0)
        return a


def _patched():
    import numpy
    from orquestra.quantum.measurements import measurements as MM

    return ST.patched((MM, "np", ZerosObjProxy(numpy)), (MM, "float", ST.float_shadow))


def eig(bits, qubits):
    return -1 if sum(int(bits[q]) for q in qubits) % 2 else 1


TOL = z3.RealVal("1/1000000000")


def _close(a, b):
    """|a-b| <= 1e-9: the library divides concrete counts in floats, the oracle in exact rationals."""
    d = a - b
    return z3.And(d <= TOL, d >= -TOL)


def work(item):
    kind, p = item
    res = Result(f"{kind}|{p['label']}")
    from orquestra.quantum.measurements import measurements as MM, parities as PA

    try:  # evidence only: a renamed private helper must not break the check
        res.fn(MM.get_expectation_value_from_frequencies, MM._convert_bitstrings_to_vector, PA.check_parity_of_vector, MM.Measurements.get_expectation_values, MM.Measurements.get_counts, MM.Measurements.add_counts, MM.Measurements.from_counts, MM.Measurements.get_distribution, PA.get_parities_from_measurements)
    except AttributeError:
        pass
    res.d["cuts"].append("numpy proxy in measurements.py: fromiter/array/zeros give object arrays when an element is symbolic")
    try:
        {"freq": _w_freq, "stats": _w_stats, "counts": _w_counts, "parities": _w_parities, "parities-sym": _w_parities_sym}[kind](res, p)
    except ST.Inconclusive as e:
        res.ob(1)
        res.inconc(str(e))
    return res.as_dict()


def _finish(res, ex, outs, records, names, p):
    res.d["paths"] += ex.npaths
    res.d["solver_queries"] += ex.queries
    res.d["solver_s"] += ex.solver_s
    for o in outs:
        if o[0] == "exc":
            res.ob(1)
            res.candidate("raises", f"{p['label']} raised {type(o[1]).__name__}: {str(o[1])[:150]}", dict(p, clause="raises", values={}), sub="raises")
    for clause, v, m in records:
        res.ob(1)
        if v == "holds":
            res.ob(0, 1, "A:z3")
        elif v == "violated":
            vals = {}
            if m is not None:
                for n, zv in names.items():
                    vals[n] = ST.model_value(m, zv)
            res.candidate(clause, f"{p['label']}: {clause} fails", dict(p, clause=clause, values=vals), sub=clause)
        else:
            res.inconc("z3 unknown", clause)


def _marked_arg(p, marked):
    """the marked qubits in the form the instance asks for: every kind of Iterable[int] the signature allows, the one-shot ones
    included (consumed by whoever walks them first)"""
    form = p.get("marked_form")
    if not form:
        return p["marked_arg"] if "marked_arg" in p else marked
    return {
        "iter": lambda: iter(list(marked)), "gen": lambda: (q for q in marked), "map": lambda: map(int, [str(q) for q in marked]),
        "tuple": lambda: tuple(marked), "frozenset": lambda: frozenset(marked), "dict_keys": lambda: dict.fromkeys(marked).keys(),
        "reversed": lambda: reversed(list(reversed(marked))), "range": lambda: range(marked[0], marked[-1] + 1),
    }[form]()


def _w_freq(res, p):
    """get_expectation_value_from_frequencies with every count symbolic (ints >= 0, total >= 1)."""
    from orquestra.quantum.measurements.measurements import get_expectation_value_from_frequencies

    w, marked = p["width"], p["marked"]
    keys = ["".join(b) for b in itertools.product("01", repeat=w)]
    if p.get("subset"):
        keys = [k for i, k in enumerate(keys) if i in p["subset"]]
    if p.get("subset_range"):
        keys = [keys[i] for i in range(*p["subset_range"])]
    stride = p.get("sym_stride")
    symkeys = keys if not stride else [k for i, k in enumerate(keys) if i % stride == 0 or i >= len(keys) - 2]
    names = {f"n_{k}": z3.Int(f"n_{k}") for k in symkeys}
    conc = {k: 1 + i % 3 for i, k in enumerate(keys) if k not in set(symkeys)}  # large histograms: the other counts are numbers
    base = [z >= 0 for z in names.values()] + [sum(names.values()) + sum(conc.values()) >= 1]
    records = []
    res.nontrivial()

    def fn(ex):
        freqs = {k: (ST.SV(names[f"n_{k}"], True) if f"n_{k}" in names else conc[k]) for k in keys}
        before = dict(freqs)
        marked_arg = _marked_arg(p, marked)
        val = get_expectation_value_from_frequencies(marked_arg, freqs)
        if ST.poisoned(val):
            raise ST.Inconclusive("NaN poison")
        N = sum(names.values()) + sum(conc.values())
        want_num = sum(eig(k, marked) * (names[f"n_{k}"] if f"n_{k}" in names else conc[k]) for k in keys)
        cd = ST.clear_common_den(ST.zr_real(val)) if len(keys) > 16 else None
        if cd is not None:
            # large histograms: all divisions share one denominator D; decide D == N and (value * D) == numerator, both division-free
            claim = z3.And(cd[1] == z3.ToReal(N), cd[0] == z3.ToReal(want_num))
        else:
            claim = ST.zr_real(val) * z3.ToReal(N) == z3.ToReal(want_num)
        records.append(("frequency-expectation",) + ex.prove(claim))
        records.append(("arguments-unchanged",) + ex.prove(z3.BoolVal(list(freqs) == list(before) and all(freqs[k] is before[k] for k in keys))))
        return val

    with _patched():
        ex = ST.Explorer(base=base, timeout_ms=8000)
        outs = ex.run(fn)
    _finish(res, ex, outs, records, names, p)
    res.sample({"frequencies_over": keys, "marked": marked})


def build_operator(terms, coeff_of, bare=False):
    """bare: the operator is handed over as a bare PauliTerm (not wrapped in a PauliSum)."""
    from orquestra.quantum.operators import PauliTerm, PauliSum

    ts = [PauliTerm({int(q): "Z" for q in qs}, coeff_of(c)) for qs, c in terms]
    return ts[0] if len(ts) == 1 and (bare or terms[0][1] == "single") else PauliSum(ts)


def _w_stats(res, p):
    """Measurements.get_expectation_values: concrete shots (enumerated), symbolic real coefficients."""
    from orquestra.quantum.measurements import Measurements

    shots = [tuple(s) for s in p["shots"]]
    terms = p["terms"]
    bessel = p["bessel"]
    names = {}
    for qs, c in terms:
        if isinstance(c, str):
            names[c] = z3.Real(c)
    base = [z3.And(z <= 8, z >= -8) for z in names.values()]
    records = []
    if names:
        res.nontrivial()
    else:
        res.d["ground_instances"] += 1
        res.d["instances"] -= 1
    N = len(shots)

    def fn(ex):
        cf = lambda c: ST.SV(names[c]) if isinstance(c, str) else c  # noqa: E731
        op = build_operator(terms, cf, p.get("bare", False))
        m = Measurements(list(shots))
        before = list(m.bitstrings)
        ev = m.get_expectation_values(op, use_bessel_correction=bessel)
        vals, corr, cov = ev.values, ev.correlations[0], ev.estimator_covariances[0]
        if ST.poisoned([vals, corr, cov]):
            raise ST.Inconclusive("NaN poison")
        from fractions import Fraction

        nt = len(terms)
        shapes_ok = tuple(np.shape(vals)) == (nt,) and tuple(np.shape(corr)) == (nt, nt) and tuple(np.shape(cov)) == (nt, nt) and len(ev.correlations) == 1 and len(ev.estimator_covariances) == 1
        records.append(("one-entry-per-term",) + ex.prove(z3.BoolVal(bool(shapes_ok))))
        if not shapes_ok:
            return ev

        cs = [ST.zr_real(cf(c)) for _, c in terms]
        mean = [Fraction(sum(eig(s, qs) for s in shots), N) for qs, _ in terms]
        claims_v, claims_c, claims_k = [], [], []
        den = N - 1 if bessel else N
        for i, (qi, _) in enumerate(terms):
            wi = cs[i] * ST.zr_real(mean[i])
            claims_v.append(_close(ST.zr_real(ST.CV.lift(vals[i]).re), wi))
            for j, (qj, _) in enumerate(terms):
                mij = Fraction(sum(eig(s, qi) * eig(s, qj) for s in shots), N)
                wij = cs[i] * cs[j] * ST.zr_real(mij)
                got = ST.CV.lift(corr[i, j])
                claims_c.append(z3.And(_close(ST.zr_real(got.re), wij), ST.zr_real(got.im) == 0))
                gk = ST.CV.lift(cov[i, j])
                wk = (wij - cs[i] * ST.zr_real(mean[i]) * cs[j] * ST.zr_real(mean[j])) / den
                claims_k.append(z3.And(_close(ST.zr_real(gk.re), wk), ST.zr_real(gk.im) == 0))
        records.append(("expectation-values",) + ex.prove(z3.And(*claims_v)))
        records.append(("correlations",) + ex.prove(z3.And(*claims_c)))
        records.append(("covariances",) + ex.prove(z3.And(*claims_k)))
        records.append(("arguments-unchanged",) + ex.prove(z3.BoolVal(m.bitstrings == before)))
        return ev

    with _patched():
        ex = ST.Explorer(base=base, timeout_ms=8000)
        outs = ex.run(fn)
    _finish(res, ex, outs, records, names, p)
    res.sample({"shots": p["shots"], "terms": terms, "bessel": bessel})
    # typed twins (ground): the same instance with every coefficient a Python int / a Python float / a mixture - numpy picks
    # array dtypes from the kinds of numbers it is given, which a symbolic run (object arrays) cannot see
    if names:
        order = sorted(names)
        for kind, pick in (("int", lambda i: [3, -2, 5, 7][i % 4]), ("float", lambda i: [0.75, -1.5, 2.25, 0.5][i % 4]), ("mixed", lambda i: [2, -0.5, 3, 1.25][i % 4])):
            vals = {nm: pick(i) for i, nm in enumerate(order)}
            res.d["ground_instances"] += 1
            for cl in ("one-entry-per-term", "expectation-values", "correlations", "covariances"):
                res.ob(1)
                bad, detail = replay({"inputs": dict(p, clause=cl, values=vals, coef_kind=kind)})
                if bad:
                    res.candidate(cl, f"{p['label']} with {kind} coefficients {vals}: {cl} fails: {detail}", dict(p, clause=cl, values=vals, coef_kind=kind), sub=f"{cl}:{kind}")
                    break
                res.ob(0, 1, "ground-numeric")


def _w_counts(res, p):
    """from_counts / add_counts / get_counts / get_distribution with symbolic counts (case split 0..3)."""
    from orquestra.quantum.measurements import Measurements

    keys = p["keys"]
    names = {f"n_{k}": z3.Int(f"n_{k}") for k in keys}
    base = [z3.And(z >= 0, z <= 3) for z in names.values()] + [sum(names.values()) >= 1]
    records = []
    res.nontrivial()

    def fn(ex):
        counts = {k: ST.SV(names[f"n_{k}"], True, 0, 3) for k in keys}
        m = Measurements.from_counts(counts)
        got = m.get_counts()
        w = len(keys[0])
        ok_len = all(len(b) == w for b in m.bitstrings)
        c1 = z3.And(*[names[f"n_{k}"] == got.get(k, 0) for k in keys] + [z3.BoolVal(set(got) <= set(keys) and ok_len)])
        records.append(("from_counts-get_counts-inverse",) + ex.prove(c1))
        records.append(("counts-sum-to-shots",) + ex.prove(sum(names.values()) == len(m.bitstrings)))
        dist = m.get_distribution().distribution_dict
        N = len(m.bitstrings)
        okd = all(abs(dist.get(tuple(int(ch) for ch in k), float('nan')) - got[k] / N) <= 1e-12 for k in got) and len(dist) == len(got)
        records.append(("distribution-is-counts-over-shots",) + ex.prove(z3.BoolVal(okd)))
        m2 = Measurements.from_counts(got)
        records.append(("get_counts-from_counts-inverse",) + ex.prove(z3.BoolVal(m2.get_counts() == got and sorted(m2.bitstrings) == sorted(m.bitstrings))))
        # history: query, then grow the shot list (in place, by assignment, by add_counts), query again: every
        # statistic is a function of the CURRENT shots
        extra = tuple(int(ch) for ch in keys[0])
        grown = {k: names[f"n_{k}"] for k in keys}
        for how in ("in-place", "assignment", "add_counts"):
            if how == "in-place":
                m.bitstrings += [extra]
            elif how == "assignment":
                m.bitstrings = list(m.bitstrings) + [extra]
            else:
                m.add_counts({keys[0]: 1})
            grown[keys[0]] = grown[keys[0]] + 1
            now = m.get_counts()
            cl = z3.And(*[grown[k] == now.get(k, 0) for k in keys] + [z3.BoolVal(set(now) <= set(keys)), sum(grown.values()) == len(m.bitstrings)])
            records.append((f"counts-follow-the-shots-after-{how}-growth",) + ex.prove(cl))
            dn = m.get_distribution().distribution_dict
            Nn = len(m.bitstrings)
            okn = all(abs(dn.get(tuple(int(ch) for ch in k), float('nan')) - now[k] / Nn) <= 1e-12 for k in now) and len(dn) == len(now)
            records.append((f"distribution-follows-the-shots-after-{how}-growth",) + ex.prove(z3.BoolVal(okn)))
        # ... then change the shots WITHOUT making the list longer (one entry overwritten in place, the list replaced by one of
        # the same length, the list shortened), querying after every step: the histogram is that of the shots held now
        import collections

        other = tuple(1 - b for b in extra)
        for how in ("entry-overwritten", "same-length-replacement", "shortening", "caller-side-edit"):
            if how == "entry-overwritten":
                m.bitstrings[0] = other
            elif how == "same-length-replacement":
                m.bitstrings = [other if i % 2 else extra for i in range(len(m.bitstrings))]
            elif how == "shortening":
                m.bitstrings = list(m.bitstrings)[: max(1, len(m.bitstrings) - 2)]
            else:
                mine = [extra, extra, other]
                m = Measurements(mine)
                m.get_counts()
                mine[0] = other  # the caller edits the list it handed over
            want = dict(collections.Counter("".join(str(b) for b in shot) for shot in m.bitstrings))
            now = m.get_counts()
            records.append((f"counts-follow-the-shots-after-{how}",) + ex.prove(z3.BoolVal(dict(now) == want and sum(now.values()) == len(m.bitstrings))))
            dn = m.get_distribution().distribution_dict
            Nn = len(m.bitstrings)
            okn = all(abs(dn.get(tuple(int(ch) for ch in k), float('nan')) - want[k] / Nn) <= 1e-12 for k in want) and len(dn) == len(want)
            records.append((f"distribution-follows-the-shots-after-{how}",) + ex.prove(z3.BoolVal(okn)))
        return got

    ex = ST.Explorer(base=base, timeout_ms=8000, int_bounds=(0, 3))
    outs = ex.run(fn)
    _finish(res, ex, outs, records, names, p)
    res.sample({"count_keys": keys, "paths": ex.npaths})


def _w_parities(res, p):
    """Ground: get_parities_from_measurements on concrete shots."""
    from orquestra.quantum.measurements import get_parities_from_measurements

    res.d["ground_instances"] += 1
    res.d["instances"] -= 1
    shots = [tuple(s) for s in p["shots"]]
    op = build_operator(p["terms"], lambda c: c)
    res.ob(1)
    bad = parities_bad(shots, p["terms"], op)
    if bad:
        res.candidate("parity-tallies", bad, dict(p, clause="parity-tallies", values={}), sub="parity-tallies")
    else:
        res.ob(0, 1, "ground-numeric")
    for bt in (BIT_TYPES if p.get("bit_types") else ()):
        res.d["ground_instances"] += 1
        res.ob(1)
        bad = parities_bad(shots, p["terms"], op, bt)
        if bad:
            res.candidate("parity-tallies", f"bits of type {bt}: {bad}", dict(p, clause="parity-tallies", values={}, bit_type=bt), sub=f"parity-tallies:{bt}")
        else:
            res.ob(0, 1, "ground-numeric")


class _SymMultiset:
    """a measurement list given abstractly: each distinct bitstring with a SYMBOLIC multiplicity. Only the stub of
    collections.Counter can read it; any other use (len, iteration, indexing) has no concrete answer and makes the instance
    inconclusive instead of guessing."""

    def __init__(self, shots, counts):
        self.shots, self.counts = list(shots), counts

    def _no(self, *a, **k):
        raise ST.Inconclusive("the code reads the measurement list directly (len / iteration / indexing); a symbolic multiset only supports Counter()")

    __len__ = __iter__ = __getitem__ = __contains__ = _no


def _counter_stub(real_counter):
    def counter(x=(), *a, **k):
        if isinstance(x, _SymMultiset):
            return dict(zip([tuple(s) for s in x.shots], x.counts))  # Counter's contract: distinct element -> number of occurrences
        return real_counter(x, *a, **k)

    return counter


def _w_parities_sym(res, p):
    """get_parities_from_measurements on a multiset of shots whose multiplicities are symbolic integers >= 0 (total >= 1):
    tallies [even, odd] per term and [equal, unequal] per pair of terms are the exact sums of multiplicities, for ALL counts."""
    import numpy
    import collections
    from orquestra.quantum.measurements import parities as PA

    w = p["width"]
    keys = [tuple(int(b) for b in k) for k in itertools.product("01", repeat=w)]
    if p.get("subset"):
        keys = [k for i, k in enumerate(keys) if i in p["subset"]]
    names = {f"n{i}": z3.Int(f"n{i}") for i in range(len(keys))}
    base = [z >= 0 for z in names.values()] + [sum(names.values()) >= 1]
    terms = p["terms"]
    op = build_operator(terms, lambda c: c)
    records = []
    res.nontrivial()
    res.d["cuts"].append("parities.py: collections.Counter(measurements) replaced by its contract on a symbolic multiset (distinct bitstring -> symbolic multiplicity); numpy proxy with object-array zeros")

    def fn(ex):
        counts = [ST.SV(names[f"n{i}"], True) for i in range(len(keys))]
        shots = _SymMultiset(keys, counts)
        par = PA.get_parities_from_measurements(shots, op)
        if ST.poisoned(par.values) or ST.poisoned(par.correlations[0]):
            raise ST.Inconclusive("NaN poison")
        claims = []
        for i, (qs, _) in enumerate(terms):
            even = sum(names[f"n{k}"] for k, s in enumerate(keys) if eig(s, qs) == 1) if any(eig(s, qs) == 1 for s in keys) else z3.IntVal(0)
            odd = sum(names.values()) - even
            claims += [ST.zr_real(par.values[i][0]) == z3.ToReal(even), ST.zr_real(par.values[i][1]) == z3.ToReal(odd)]
            for j, (qj, _) in enumerate(terms):
                same = sum([names[f"n{k}"] for k, s in enumerate(keys) if eig(s, qs) == eig(s, qj)] or [z3.IntVal(0)])
                got = par.correlations[0][i, j]
                claims += [ST.zr_real(got[0]) == z3.ToReal(same), ST.zr_real(got[1]) == z3.ToReal(sum(names.values()) - same)]
        records.append(("parity-tallies",) + ex.prove(z3.And(*claims)))
        records.append(("arguments-unchanged",) + ex.prove(z3.BoolVal(shots.shots == keys and len(shots.counts) == len(counts) and all(a is b for a, b in zip(shots.counts, counts)))))
        return par

    with ST.patched((PA, "np", ZerosObjProxy(numpy)), (PA, "Counter", _counter_stub(collections.Counter))):
        ex = ST.Explorer(base=base, timeout_ms=8000)
        outs = ex.run(fn)
    _finish(res, ex, outs, records, names, p)
    res.sample({"parities over": len(keys), "terms": terms})


def parities_sym_replay(p, vals):
    keys = [tuple(int(b) for b in k) for k in itertools.product("01", repeat=p["width"])]
    if p.get("subset"):
        keys = [k for i, k in enumerate(keys) if i in p["subset"]]
    shots = []
    for i, k in enumerate(keys):
        shots += [k] * int(vals.get(f"n{i}", 1))
    if not shots:
        return False, "empty multiset"
    bad = parities_bad(shots, [tuple(t) for t in p["terms"]], build_operator(p["terms"], lambda c: c))
    return bool(bad), bad or "ok"


BIT_TYPES = {"bool": bool, "np.bool_": np.bool_, "np.int8": np.int8, "np.int64": np.int64, "np.uint8": np.uint8}


def parities_bad(shots, terms, op, bit_type=None):
    from orquestra.quantum.measurements import get_parities_from_measurements

    if bit_type:
        # the same shots with every bit a bool / numpy scalar: numpy picks its arithmetic from the kinds of numbers it is given
        # (bool @ bool is a logical OR, uint8 sums wrap at 256)
        shots = [tuple(BIT_TYPES[bit_type](b) for b in s) for s in shots]
    before = list(shots)
    par = get_parities_from_measurements(shots, op)
    if shots != before:
        return "measurement list modified"
    for i, (qs, _) in enumerate(terms):
        even = sum(1 for s in shots if eig(s, qs) == 1)
        odd = len(shots) - even
        if [int(par.values[i][0]), int(par.values[i][1])] != [even, odd]:
            return f"term {i}: tallies {list(par.values[i])} want [{even}, {odd}]"
        for j, (qj, _) in enumerate(terms):
            same = sum(1 for s in shots if eig(s, qs) == eig(s, qj))
            got = par.correlations[0][i, j]
            if [int(got[0]), int(got[1])] != [same, len(shots) - same]:
                return f"pair ({i},{j}): tallies {list(got)} want [{same}, {len(shots) - same}]"
    return None


OPERATORS = {
    2: [
        [([0], "k0"), ([1], "k1")],
        [([0, 1], "k0"), ([0], "k1"), ([0, 1], "k2")],
        [([0], "k0"), ([], "k1"), ([0], "k2")],
        [([1], "k0"), ([0, 1], "k1"), ([], "k2")],
        [([], "k0"), ([], "k1")],
        [([0, 1], "single")],
        [([1], "single")],
    ],
    3: [
        [([0, 1], "k0"), ([1, 2], "k1"), ([], "k2")],
        [([0], "k0"), ([1, 2], "k1"), ([0], "k2")],
        [([2], "k0"), ([0, 1, 2], "k1")],
        [([0, 2], 2.0), ([1], "k0"), ([], -15.0)],
        [([0, 1, 2], "single")],
        [([2, 0], "single")],
    ],
}


def instances(tier, seed):
    rng = random.Random(seed * 101 + 9)
    items = []
    for w in (1, 2, 3):
        subsets = [list(s) for r in range(w + 1) for s in itertools.combinations(range(w), r)]
        for marked in subsets:
            items.append(("freq", {"width": w, "marked": marked, "label": f"width={w} marked={marked}"}))
    items.append(("freq", {"width": 3, "marked": [2, 0], "subset": [1, 4, 6], "label": "width=3 marked=[2,0] keys 001,100,110 only"}))
    items.append(("freq", {"width": 2, "marked": [1, 1 - 1][:1], "marked_arg": (1,), "label": "width=2 marked as tuple"}))
    for form in ("iter", "gen", "map", "tuple", "frozenset", "dict_keys", "reversed"):
        items.append(("freq", {"width": 3, "marked": [0, 2], "marked_form": form, "label": f"width=3 marked=[0, 2] handed over as {form}"}))
    items.append(("freq", {"width": 3, "marked": [1, 2], "marked_form": "range", "label": "width=3 marked=[1, 2] handed over as range"}))
    # large histograms (thousands of distinct outcomes, every count symbolic): sizes around powers of two and in between
    wide = [(13, [0, 12], [0, 8192, 2], "4096 keys"), (13, [5], [1, 8192, 2], "4096 keys, odd"), (13, [0, 12], [0, 8191, 1][:3], "8191 keys"), (13, [], [0, 4097, 1], "4097 keys, constant term"), (13, [3, 7, 11], [100, 4197, 1], "4097 keys"), (9, [0, 8], [0, 257, 1], "257 keys")]
    for w, marked, rng_, tag in (wide if tier == "thorough" else [wide[4], wide[5]]):
        items.append(("freq", {"width": w, "marked": marked, "subset_range": rng_, "label": f"width={w} marked={marked} {tag} (range {rng_})"}))
    for w in (2, 3):
        outcomes = list(itertools.product((0, 1), repeat=w))
        multisets = [list(ms) for n in (1, 2, 3) for ms in itertools.combinations_with_replacement(outcomes, n)]
        for ms in multisets:
            for oi, terms in enumerate(OPERATORS[w]):
                for bessel in (False, True):
                    if bessel and len(ms) < 2:
                        continue
                    if w == 3 and not stable_pick((str(ms), oi, bessel), 6 if tier == "quick" else 2, seed):
                        continue
                    if w == 2 and tier == "quick" and not stable_pick((str(ms), oi, bessel), 2, seed) and len(ms) > 1:
                        continue
                    bare = terms[0][1] == "single"
                    t = [(qs, "k0") for qs, c in terms] if bare else terms
                    items.append(("stats", {"shots": [list(s) for s in ms], "terms": [[qs, c] for qs, c in t], "bessel": bessel, "bare": bare, "label": f"shots={ms} op#{oi}w{w}{' bare term' if bare else ''} bessel={bessel}"}))
    # wide registers, operators on a strict subset of the measured qubits (indices beyond 8, subsets whose natural iteration
    # order is not ascending): symbolic coefficients
    def wshot(w, ones):
        return [1 if q in ones else 0 for q in range(w)]

    wides = [
        (9, [[1, 8], [1], [8, 3]], [([1], "k0"), ([8], "k1")]),
        (9, [[1], [8], [1, 8]], [([1], "k0"), ([8], "k1"), ([1, 8], "k2")]),
        (10, [[9], [3, 9], []], [([3], "k0"), ([9], "k1"), ([], "k2")]),
        (12, [[2, 8], [5], [8, 11]], [([8], "k0"), ([2, 5], "k1"), ([11, 2], "k2")]),
        (17, [[16], [7, 16], [7]], [([7], "k0"), ([16], "k1")]),
        (9, [[0], [8]], [([8, 0], "single")]),
    ]
    # registers wider than a machine word (65, 72, 130 qubits): shots that differ only beyond bit 63 / bit 127
    wides += [
        (65, [[64], [], [64, 0], [64]], [([64], "k0"), ([0], "k1"), ([0, 64], "k2")]),
        (72, [[64], [71, 3], [64, 71], [], [3]], [([64], "k0"), ([71, 3], "k1"), ([], "k2")]),
        (130, [[129], [128], [1, 129], [64]], [([129], "k0"), ([128, 64], "k1")]),
    ]
    for w, ones_list, terms in (wides if tier == "thorough" else wides[:4] + wides[5:]):
        for bessel in (False, True):
            bare = terms[0][1] == "single"
            t = [(qs, "k0") for qs, c in terms] if bare else terms
            items.append(("stats", {"shots": [wshot(w, o) for o in ones_list], "terms": [[qs, c] for qs, c in t], "bessel": bessel, "bare": bare, "label": f"wide register w={w} shots with ones at {ones_list} op={[(qs, c) for qs, c in t]} bessel={bessel}"}))
    for keys in (["0", "1"], ["00", "01", "11"], ["101", "010"], ["00", "01", "10", "11"] if tier == "thorough" else ["10", "11"]):
        items.append(("counts", {"keys": keys, "label": f"counts over {keys}"}))
    # parity tallies with symbolic multiplicities of every outcome
    for w in (1, 2, 3):
        for oi, terms in enumerate(OPERATORS.get(w, [[([0], "k0")], [([], "k0"), ([0], "k1")]])):
            t = [[qs, (0.5 * (i + 1) if isinstance(c, str) else c)] for i, (qs, c) in enumerate(terms)]
            items.append(("parities-sym", {"width": w, "terms": t, "label": f"parity tallies, all {2**w} outcomes with symbolic multiplicities, op#{oi}w{w}"}))
    items.append(("parities-sym", {"width": 3, "subset": [1, 4, 6], "terms": [[[2, 0], 1.0], [[1], 2.0]], "label": "parity tallies, outcomes 001,100,110 with symbolic multiplicities"}))
    items.append(("parities-sym", {"width": 10, "subset": [1, 2, 512, 513, 1023], "terms": [[[9], 1.0], [[0, 9], 2.0], [[8], 0.5]], "label": "parity tallies, 5 outcomes of a 10-qubit register with symbolic multiplicities"}))
    # ground: parity tallies on wide registers (beyond 8, 32, 64 and 128 qubits), shots that agree on all low qubits
    for w, ones_list, pterms in [
        (9, [[8], [], [8], [0, 8]], [[[8], 1.0], [[0, 8], 0.5]]),
        (33, [[32], [], [32, 1], [32]], [[[32], 1.0], [[1], 2.0], [[1, 32], 0.5]]),
        (65, [[64], [], [64, 0], [64], []], [[[64], 1.0], [[0], 2.0], [[0, 64], 0.5]]),
        (72, [[64], [71, 3], [64, 71], [], [3], [64]], [[[64], 1.0], [[71, 3], 2.0], [[], 0.25]]),
        (130, [[129], [128], [1, 129], [64], [129]], [[[129], 1.0], [[128, 64], 2.0]]),
    ]:
        items.append(("parities", {"shots": [wshot(w, o) for o in ones_list], "terms": pterms, "label": f"parities on a {w}-qubit register, shots with ones at {ones_list} terms={pterms}"}))
    for w in (2, 3):
        outcomes = list(itertools.product((0, 1), repeat=w))
        for n in (1, 2, 3, 4):
            for _ in range(6 if tier == "quick" else 40):
                ms = [list(rng.choice(outcomes)) for _ in range(n)]
                terms = rng.choice(OPERATORS[w])
                t = [[qs, (0.5 * (i + 1) if isinstance(c, str) else c)] for i, (qs, c) in enumerate(terms)]
                items.append(("parities", {"shots": ms, "terms": t, "label": f"parities shots={ms} terms={t}"}))
    # bits of every scalar kind (bool, numpy bool / int8 / uint8 / int64): shots in which a term has two and three marked ones,
    # and a 300-shot list (sums beyond a byte)
    for w, ms in [(2, [[1, 1], [0, 1], [1, 1], [0, 0]]), (3, [[1, 1, 1], [1, 1, 0], [0, 1, 1], [1, 0, 1], [0, 0, 0]]), (3, [[1, 1, 1]] * 150 + [[1, 1, 0]] * 149 + [[0, 0, 1]])]:
        for terms in OPERATORS[w][:4]:
            t = [[qs, (0.5 * (i + 1) if isinstance(c, str) else c)] for i, (qs, c) in enumerate(terms)]
            items.append(("parities", {"shots": ms, "terms": t, "bit_types": True, "label": f"parities with bits of every scalar kind, {len(ms)} shots of width {w}, terms={t}"}))
    return items


def run(ctx):
    items = instances(ctx.tier, ctx.seed)
    if getattr(ctx, "only", None):
        items = [it for it in items if ctx.only in it[1]["label"] or ctx.only == it[0]]
    ctx.bounds = {
        "frequencies": "all 2^w outcome keys for width w <= 3, every marked subset, every count a symbolic integer >= 0 with total >= 1",
        "statistics": "all multisets of <= 3 shots over width 2 (sampled over width 3), operators of <= 3 Ising terms (overlapping, repeated, constant, constant last), every coefficient a symbolic real in [-8, 8], both denominators",
        "counts": "<= 4 outcome keys, each count split exhaustively over 0..3",
        "parities": "ground: random multisets of <= 4 shots (VERIF_SEED)",
    }
    ctx.assume("floats are exact reals", "the shot list of Measurements.get_expectation_values is concrete (len() needs an int): shots are enumerated, coefficients symbolic", "get_parities_from_measurements runs on numpy integer arrays: ground instances only")
    for it, out in pmap(work, items):
        ctx.merge(out)
    ctx.extra["explanation"] = (
        "The real frequency/expectation/correlation/covariance code runs on symbolic counts and symbolic coefficients (numpy proxied to object arrays); "
        "results are compared by z3 with the sample means of +-1 eigenvalues, their products, and (corr - mean*mean)/N or /(N-1)."
    )


def replay(data):
    inp = data["inputs"]
    clause = inp["clause"]
    vals = inp.get("values") or {}
    p = {k: v for k, v in inp.items() if k not in ("clause", "values")}
    try:
        if "terms" in p and "width" in p and "shots" not in p:
            return parities_sym_replay(p, vals)
        if "width" in p:
            from orquestra.quantum.measurements.measurements import get_expectation_value_from_frequencies

            w, marked = p["width"], p["marked"]
            keys = ["".join(b) for b in itertools.product("01", repeat=w)]
            if p.get("subset"):
                keys = [k for i, k in enumerate(keys) if i in p["subset"]]
            if p.get("subset_range"):
                keys = [keys[i] for i in range(*p["subset_range"])]
            freqs = {k: int(vals.get(f"n_{k}", 1 + i % 3 if p.get("sym_stride") else 1)) for i, k in enumerate(keys)}
            try:
                got = get_expectation_value_from_frequencies(_marked_arg(p, marked), dict(freqs))
            except Exception as e:
                return clause == "raises", f"raised {type(e).__name__}: {e}"
            want = sum(eig(k, marked) * n for k, n in freqs.items()) / sum(freqs.values())
            return bool(abs(got - want) > 1e-9), f"got {got}, want {want} for {freqs}"
        if "keys" in p:
            r = Result("replay")
            _w_counts(r, dict(p, label="replay"))
            c = [c for c in r.d["candidates"] if c["clause"] == clause]
            return bool(c), (c[0]["what"] if c else "no violation on re-execution")
        if clause == "parity-tallies":
            bad = parities_bad([tuple(s) for s in p["shots"]], [tuple(t) for t in p["terms"]], build_operator(p["terms"], lambda c: c), p.get("bit_type"))
            return bool(bad), bad or "ok"
        from orquestra.quantum.measurements import Measurements

        shots = [tuple(s) for s in p["shots"]]
        terms = p["terms"]
        kindf = {"int": int, "float": float}.get(p.get("coef_kind"), float)
        cf = lambda c: (kindf(vals.get(c, 0.5)) if not (p.get("coef_kind") == "mixed" and float(vals.get(c, 0.5)).is_integer()) else int(vals.get(c))) if isinstance(c, str) else c  # noqa: E731
        op = build_operator(terms, cf, p.get("bare", False))
        m = Measurements(list(shots))
        try:
            ev = m.get_expectation_values(op, use_bessel_correction=p["bessel"])
        except Exception as e:
            return clause == "raises", f"raised {type(e).__name__}: {e}"
        N = len(shots)
        if clause == "one-entry-per-term":
            nt = len(terms)
            shp = (np.shape(ev.values), np.shape(ev.correlations[0]), np.shape(ev.estimator_covariances[0]))
            return shp != ((nt,), (nt, nt), (nt, nt)), f"shapes {shp} for {nt} term(s)"
        cs = [cf(c) for _, c in terms]
        mean = [sum(eig(s, qs) for s in shots) / N for qs, _ in terms]
        den = N - 1 if p["bessel"] else N
        worst = 0.0
        for i, (qi, _) in enumerate(terms):
            if clause == "expectation-values":
                worst = max(worst, abs(ev.values[i] - cs[i] * mean[i]))
            for j, (qj, _) in enumerate(terms):
                mij = sum(eig(s, qi) * eig(s, qj) for s in shots) / N
                if clause == "correlations":
                    worst = max(worst, abs(ev.correlations[0][i, j] - cs[i] * cs[j] * mij))
                if clause == "covariances":
                    worst = max(worst, abs(ev.estimator_covariances[0][i, j] - (cs[i] * cs[j] * mij - cs[i] * mean[i] * cs[j] * mean[j]) / den))
        return bool(worst > 1e-9), f"max deviation {worst:.3g} with coefficients {cs}"
    except Exception:
        import traceback

        return False, "replay raised: " + traceback.format_exc()[-600:]
