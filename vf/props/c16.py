"""C16 - time-evolution circuits implement exp(-i t H) term by term, and its derivative. E1."""
from fractions import Fraction
import itertools
import random

import numpy as np
import sympy

from ..core import Result, pmap, stable_pick
from ..front import install_numpy_sympy_shim, mmul, mkron, meye, Refuse
from ..solve import Prover, first_violation
from .. import circ as CS
from .c01 import mat_delta

LEVEL = "model_checking"
T = sympy.Symbol("t")
I = sympy.I
PAULI = {
    "I": sympy.Matrix([[1, 0], [0, 1]]),
    "X": sympy.Matrix([[0, 1], [1, 0]]),
    "Y": sympy.Matrix([[0, -I], [I, 0]]),
    "Z": sympy.Matrix([[1, 0], [0, -1]]),
}
NPP = {k: np.array(v, dtype=complex) for k, v in PAULI.items()}
QUARTER = Fraction(1, 4)


def term_from(ops, coeff):
    from orquestra.quantum.operators import PauliTerm

    return PauliTerm({int(q): o for q, o in ops.items()}, coeff)


def pauli_matrix(ops, n):
    m = sympy.Matrix([[1]])
    for q in range(n):
        m = sympy.kronecker_product(m, PAULI[ops.get(q, ops.get(str(q), "I"))])
    return m


def np_pauli(ops, n):
    m = np.eye(1, dtype=complex)
    for q in range(n):
        m = np.kron(m, NPP[ops.get(q, ops.get(str(q), "I"))])
    return m


def oracle_term(ops, c, n, tsym):
    """cos(t c) I - i sin(t c) P as a sympy matrix (c rational)."""
    P = pauli_matrix(ops, n)
    cr = sympy.Rational(str(c)) if not isinstance(c, sympy.Basic) else c
    return sympy.cos(cr * tsym) * sympy.eye(2**n) - I * sympy.sin(cr * tsym) * P


def width(ops):
    return max(int(q) for q in ops) + 1 if ops else 0


def _cand(res, clause, what, p, w=None):
    res.candidate(clause, what, dict(p, clause=clause, values=w or {}), sub=clause)


def work(item):
    install_numpy_sympy_shim()
    kind, p = item
    res = Result(f"{kind}|{p['label']}")
    from orquestra.quantum import evolution as EV

    try:  # evidence only: a renamed private helper must not break the check
        res.fn(EV.time_evolution, EV.time_evolution_for_term, EV.time_evolution_derivatives, EV._generate_circuit_sequence)
    except AttributeError:
        pass
    try:
        {"term": _w_term, "wide-term": _w_term_wide, "sum": _w_sum, "deriv": _w_deriv, "reject": _w_reject}[kind](res, p)
    except Refuse as e:
        res.ob(1)
        res.inconc(f"translation refused: {e}")
    return res.as_dict()


def _w_term(res, p):
    from orquestra.quantum.evolution import time_evolution_for_term

    ops, c = p["ops"], p["coeff"]
    term = term_from(ops, c)
    res.nontrivial()
    circ = time_evolution_for_term(term, T)
    n = width(ops)
    res.ob(1)
    if circ.n_qubits != n:
        _cand(res, "term-width", f"evolution circuit of {term} has {circ.n_qubits} qubits, operator width {n}", p)
        return
    res.ob(0, 1, "concrete-structure")
    U = circ.to_unitary()
    O = oracle_term(ops, c, n, T)
    P = Prover(res, unit=QUARTER)
    r = P.prove_zero("term", lambda F: mat_delta(F.alg, F.mat(U), F.mat(O)), "term-evolution", sub="term-evolution")
    fv = first_violation(r)
    if fv:
        _cand(res, "term-evolution", f"circuit for {c}*{ops} differs from exp(-i t c P) at {fv[0]}", p, fv[1])
    res.sample({"term": f"{c}*{ops}", "n": n, "gates": len(circ.operations)})
    _ground(res, "term-evolution-numeric", _numeric_term_bad(ops, c), f"circuit for {c}*{ops} at numeric times", p)
    if p.get("twin"):
        res.d["vacuity_twins"] += 1
        O2 = oracle_term(ops, -c if c else 1, n, T)
        P2 = Prover(res, unit=QUARTER)
        if first_violation(P2.prove_zero("twin", lambda F: mat_delta(F.alg, F.mat(U), F.mat(O2)), "twin", expect_violation=True)):
            res.d["vacuity_ok"] += 1
        else:
            res.herr("vacuity twin (opposite sign of the coefficient) was not refuted")


NUM_TIMES = [0.37, -2.5, 0, 3, 12.75, 0.0]


def _np_term(ops, c, n, t):
    return np.cos(t * c) * np.eye(2**n) - 1j * np.sin(t * c) * np_pauli(ops, n)


def _ground(res, clause, bad, what, p):
    res.d["ground_instances"] += 1
    res.ob(1)
    if bad:
        _cand(res, clause, f"{what}: {bad}", p)
    else:
        res.ob(0, 1, "ground-numeric")


def _numeric_term_bad(ops, c):
    """numeric twin (ground): the time a plain Python number (float, int, zero, negative) - the code path a symbolic run never takes"""
    from orquestra.quantum.evolution import time_evolution_for_term

    n = width(ops)
    for t in NUM_TIMES:
        circ = time_evolution_for_term(term_from(ops, c), t)
        if circ.n_qubits != n:
            return f"t={t!r}: circuit width {circ.n_qubits} vs {n}"
        got = np.array(circ.to_unitary(), dtype=complex) if circ.operations else np.eye(2**n)
        d = float(np.abs(got - _np_term(ops, c, n, t)).max())
        if d > 1e-9:
            return f"t={t!r}: differs from exp(-i t c P) by {d:.3g}"
    return None


def _numeric_sum_bad(terms, steps):
    from orquestra.quantum.evolution import time_evolution
    from orquestra.quantum.operators import PauliSum

    n = max([width(ops) for ops, _ in terms] + [0])
    H = PauliSum([term_from(ops, c) for ops, c in terms])
    for t in NUM_TIMES:
        circ = time_evolution(H, steps * t, n_steps=steps)
        if circ.n_qubits != n:
            return f"t={t!r}: circuit width {circ.n_qubits} vs {n}"
        if n == 0:
            continue
        got = np.array(circ.to_unitary(), dtype=complex) if circ.operations else np.eye(2**n)
        want = np.eye(2**n, dtype=complex)
        for _ in range(steps):
            for ops, c in terms:
                if ops:
                    want = _np_term(ops, c, n, t) @ want
        d = float(np.abs(got - want).max())
        if d > 1e-9:
            return f"total time {steps}*{t!r}: differs from the ordered product of per-term evolutions by {d:.3g}"
    return None


def _numeric_deriv_bad(terms, steps):
    """d/dt <psi|U(t)^+ O U(t)|psi> for a fixed dense observable and state, at numeric times: factor-weighted sum over the
    derivative circuits vs the analytic derivative of the ordered product (product rule on closed-form factors)."""
    from orquestra.quantum.evolution import time_evolution_derivatives
    from orquestra.quantum.operators import PauliSum

    n = max(width(ops) for ops, _ in terms)
    N = 2**n
    H = PauliSum([term_from(ops, c) for ops, c in terms])
    j = np.arange(N)
    psi = ((j * 5 + 3) % 7 - 3) / 4.0 + 1j * ((j * 3 + 1) % 5 - 2) / 4.0
    psi = psi / np.linalg.norm(psi)
    A = ((np.add.outer(j * 3, j * 5) % 11) - 5) / 8.0 + 1j * ((np.add.outer(j * 7, j) % 5) - 2) / 8.0
    O = A + A.conj().T
    seq = [(ops, c) for _ in range(steps) for ops, c in terms if ops]
    for T_ in (0.37, -2.5, 3, 12.75):
        t = T_  # per-step time; total time = steps * t
        dcircs, factors = time_evolution_derivatives(H, steps * t, n_steps=steps)
        got = 0.0
        for f, dc in zip(factors, dcircs):
            Uk = np.array(dc.to_unitary(), dtype=complex)
            v = Uk @ psi
            got += float(f) * np.vdot(v, O @ v)
        mats = [_np_term(ops, c, n, t) for ops, c in seq]
        dmats = [(-1j * c) * np_pauli(ops, n) @ _np_term(ops, c, n, t) for ops, c in seq]  # d/dt of each factor (per-step time)
        U = np.eye(N, dtype=complex)
        for M in mats:
            U = M @ U
        dU = np.zeros((N, N), dtype=complex)
        for k in range(len(seq)):
            X = np.eye(N, dtype=complex)
            for i, M in enumerate(mats):
                X = (dmats[i] if i == k else M) @ X
            dU += X
        dU = dU / steps  # d/d(total time)
        v, dv = U @ psi, dU @ psi
        want = np.vdot(dv, O @ v) + np.vdot(v, O @ dv)
        if abs(got - want) > 1e-8 * (1 + abs(want)):
            return f"total time {steps}*{t!r}: weighted sum over derivative circuits {got:.9g} vs d/dt of the expectation {want:.9g}"
    return None


def _w_term_wide(res, p):
    """Terms that reach qubit indices of 8 and more (where the iteration order of a set of small ints stops being the sorted
    order). The 2^n x 2^n matrix of a 9/10-qubit circuit is out of reach symbolically, and not needed: the circuit's operations
    are re-indexed onto the qubits it actually touches (order-preserving), and that small circuit is compared with
    exp(-i t c P') for the equally re-indexed string, for all t. Placement of gates on wide registers is C01's subject."""
    from orquestra.quantum.circuits import Circuit
    from orquestra.quantum.evolution import time_evolution_for_term

    ops, c = p["ops"], p["coeff"]
    term = term_from(ops, c)
    res.nontrivial()
    circ = time_evolution_for_term(term, T)
    res.ob(1)
    if circ.n_qubits != width(ops):
        _cand(res, "term-width", f"evolution circuit of {term} has {circ.n_qubits} qubits, operator width {width(ops)}", p)
        return
    res.ob(0, 1, "concrete-structure")
    used = sorted({int(q) for q in ops} | {q for op in circ.operations for q in op.qubit_indices})
    if len(used) > 4:
        res.ob(1)
        _cand(res, "term-evolution", f"circuit for {c}*{ops} touches {len(used)} qubits {used}", p)
        return
    sigma = {q: i for i, q in enumerate(used)}
    small = Circuit([op.gate(*[sigma[q] for q in op.qubit_indices]) for op in circ.operations], n_qubits=len(used))
    ops_small = {sigma[int(q)]: l for q, l in ops.items()}
    U = small.to_unitary()
    O = oracle_term(ops_small, c, len(used), T)
    P = Prover(res, unit=QUARTER)
    r = P.prove_zero("term", lambda F: mat_delta(F.alg, F.mat(U), F.mat(O)), "term-evolution", sub="term-evolution")
    fv = first_violation(r)
    if fv:
        _cand(res, "term-evolution-wide", f"circuit for {c}*{ops} (re-indexed onto qubits {used}) differs from exp(-i t c P) at {fv[0]}", p, fv[1])
    res.sample({"term": f"{c}*{ops}", "n": circ.n_qubits, "touched": used, "gates": len(circ.operations)})


def _ham(p):
    from orquestra.quantum.operators import PauliSum

    return PauliSum([term_from(ops, c) for ops, c in p["terms"]])


def _sum_oracle(F, terms, n, steps, tsym):
    A = F.alg
    U = meye(A, 2**n)
    for _ in range(steps):
        for ops, c in terms:
            if not ops:
                continue
            U = mmul(A, F.mat(oracle_term(ops, c, n, tsym)), U)
    return U


def _w_sum(res, p):
    from orquestra.quantum.evolution import time_evolution

    H = _ham(p)
    steps = p["steps"]
    res.nontrivial()
    n = max([width(ops) for ops, _ in p["terms"]] + [0])
    circ = time_evolution(H, steps * T, n_steps=steps)
    res.ob(1)
    if circ.n_qubits != n:
        _cand(res, "sum-width", f"evolution circuit has {circ.n_qubits} qubits, operator width {n}", p)
        return
    res.ob(0, 1, "concrete-structure")
    if n == 0:
        return
    U = circ.to_unitary()
    P = Prover(res, unit=QUARTER)
    r = P.prove_zero("sum", lambda F: mat_delta(F.alg, F.mat(U), _sum_oracle(F, p["terms"], n, steps, T)), "sum-evolution", sub="sum-evolution")
    fv = first_violation(r)
    if fv:
        _cand(res, "sum-evolution", f"time_evolution({p['terms']}, steps={steps}) is not the ordered product of per-term evolutions for time/steps ({fv[0]})", p, fv[1])
    res.sample({"hamiltonian": str(p["terms"]), "steps": steps})
    _ground(res, "sum-evolution-numeric", _numeric_sum_bad(p["terms"], steps), f"time_evolution({p['terms']}, steps={steps}) at numeric times", p)


def _w_deriv(res, p):
    from orquestra.quantum.evolution import time_evolution, time_evolution_derivatives

    H = _ham(p)
    steps = p["steps"]
    res.nontrivial()
    n = max(width(ops) for ops, _ in p["terms"])
    circ = time_evolution(H, steps * T, n_steps=steps)
    dcircs, factors = time_evolution_derivatives(H, steps * T, n_steps=steps)
    res.ob(1)
    if len(dcircs) != len(factors) or any(dc.n_qubits != n for dc in dcircs) or circ.n_qubits != n:
        _cand(res, "derivative-structure", f"{len(dcircs)} circuits / {len(factors)} factors, widths {[dc.n_qubits for dc in dcircs]}", p)
        return
    res.ob(0, 1, "concrete-structure")
    U = circ.to_unitary()
    dU = sympy.Matrix(U).diff(T) / steps  # d/d(total time), total time = steps * t
    Uks = [dc.to_unitary() for dc in dcircs]
    N = 2**n
    P = Prover(res, unit=QUARTER)

    def b(F):
        A = F.alg
        Um, dUm = F.mat(U), F.mat(dU)
        Ukm = [F.mat(x) for x in Uks]
        fs = [F.t(f) for f in factors]
        out = []
        for i, a, j, bb in itertools.product(range(N), repeat=4):
            lhs = A.zero
            for f, Uk in zip(fs, Ukm):
                lhs = A.add(lhs, A.mul(f, A.mul(A.conj(Uk[i][a]), Uk[j][bb])))
            rhs = A.add(A.mul(A.conj(dUm[i][a]), Um[j][bb]), A.mul(A.conj(Um[i][a]), dUm[j][bb]))
            out.append((f"[{i}{a}|{j}{bb}]", A.sub(lhs, rhs)))
        return out

    r = P.prove_zero("deriv", b, "derivative", sub="derivative")
    fv = first_violation(r)
    if fv:
        _cand(res, "derivative", f"factor-weighted sum over the derivative circuits is not d/dt of the evolution for {p['terms']} steps={steps} ({fv[0]})", p, fv[1])
    res.sample({"derivative_of": str(p["terms"]), "steps": steps, "circuits": len(dcircs), "factors": [float(f) for f in factors]})
    _ground(res, "derivative-numeric", _numeric_deriv_bad(p["terms"], steps), f"derivative circuits of {p['terms']} steps={steps} at numeric times", p)


def _w_reject(res, p):
    from orquestra.quantum.evolution import time_evolution_for_term

    res.d["ground_instances"] += 1
    res.d["instances"] -= 1
    res.ob(1)
    term = term_from(p["ops"], complex(p["re"], p["im"]))
    try:
        c = time_evolution_for_term(term, 0.7)
        raised = False
    except ValueError:
        raised = True
    if p["expect"] == "reject" and not raised:
        _cand(res, "imaginary-rejected", f"coefficient {complex(p['re'], p['im'])} was accepted (silently truncated)", p)
    elif p["expect"] == "accept" and raised:
        _cand(res, "imaginary-rejected", f"coefficient {complex(p['re'], p['im'])} with negligible imaginary part was rejected", p)
    elif p["expect"] == "empty" and (raised or c.operations):
        _cand(res, "constant-term-empty", "constant term did not give an empty circuit", p)
    else:
        res.ob(0, 1, "ground-structure")


def all_strings(maxq=3):
    out = []
    for n in range(1, maxq + 1):
        for letters in itertools.product("IXYZ", repeat=n):
            if letters[-1] == "I" or all(l == "I" for l in letters):
                continue
            out.append({q: l for q, l in enumerate(letters) if l != "I"})
    return out


def instances(tier, seed):
    items = []
    coeffs = [1, -0.75, 0.5]
    for k, ops in enumerate(all_strings(3)):
        for ci, c in enumerate(coeffs):
            if tier == "quick" and (k + seed) % 3 != ci:
                continue
            items.append(("term", {"ops": {str(q): l for q, l in ops.items()}, "coeff": c, "twin": (k % 7 == 0), "label": f"{c}*{''.join(f'{l}{q}' for q, l in sorted(ops.items()))}"}))
    wide = [{1: "Z", 8: "Z"}, {1: "X", 8: "Y"}, {0: "Z", 3: "X", 8: "Y"}, {7: "X", 8: "X"}, {8: "Y"}, {2: "Y", 9: "Z"}, {8: "Z", 9: "X"}, {0: "X", 9: "Y", 5: "Z"}]
    if tier == "thorough":
        wide += [{16: "Z", 1: "X"}, {8: "X", 16: "Y", 24: "Z"}, {33: "Y", 2: "Z"}, {9: "Z", 8: "Z", 10: "Z"}, {12: "X", 4: "Y", 20: "X"}]
    for k, ops in enumerate(wide):
        c = coeffs[k % 3]
        items.append(("wide-term", {"ops": {str(q): l for q, l in ops.items()}, "coeff": c, "label": f"{c}*{''.join(f'{l}{q}' for q, l in ops.items())} (wide register)"}))
    hams = [
        [({"0": "X"}, 0.5), ({"0": "Z", "1": "Z"}, -0.75)],
        [({"0": "Z"}, 1), ({"0": "X", "1": "Y"}, 0.5), ({"0": "Y"}, -0.75)],
        [({"0": "X"}, 0.5), ({"0": "Z", "1": "Z"}, 0.5), ({"0": "X"}, 0.5)],
        [({}, 0.5), ({"1": "Z"}, 1)],
        # the same string listed twice with DIFFERENT coefficients, a non-commuting term in between
        [({"0": "X"}, 0.5), ({"0": "Z"}, 1), ({"0": "X"}, -0.75)],
        [({"0": "Z", "1": "Z"}, 1), ({"0": "X"}, 0.5), ({"0": "Z", "1": "Z"}, 0.5), ({"0": "X"}, 1)],
        [({"0": "Y", "2": "X"}, 1), ({"1": "Z"}, 0.5)],
        [({"0": "X", "1": "Y", "2": "Z"}, 0.5), ({"0": "Z"}, -0.75)],
        [({}, 2)],
    ]
    for h in hams:
        for steps in ((1, 2) if tier == "quick" else (1, 2, 3)):
            items.append(("sum", {"terms": h, "steps": steps, "label": f"{h} steps={steps}"}))
    dh = [
        ([({"0": "X"}, 0.5), ({"0": "Z"}, -0.75)], (1, 2, 3)),
        ([({"0": "Y"}, 1)], (1, 2, 3)),
        # constant terms in every position (they contribute no circuit and no derivative factor)
        ([({}, 2), ({"0": "X"}, 0.5), ({"0": "Z"}, -0.75)], (1, 2)),
        ([({"0": "X"}, 0.5), ({}, 2), ({"0": "Z"}, 1)], (1, 2)),
        ([({"0": "X"}, 0.5), ({"0": "Z"}, 1), ({}, -0.75)], (1,)),
        ([({}, 0.5), ({}, 1), ({"0": "Y"}, 1)], (1,)),
        ([({"0": "X"}, 0.5), ({"0": "Z"}, 1), ({"0": "X"}, 0.5)], (1, 2)),
        ([({"0": "X"}, 0.5), ({"0": "Z"}, 1), ({"0": "X"}, -0.75)], (1,)),
        ([({"0": "X"}, 0.5), ({"0": "Z", "1": "Z"}, -0.75)], (1, 2) if tier == "thorough" else (1,)),
        ([({"0": "Z", "1": "X"}, 0.5), ({"1": "Y"}, 1), ({"0": "X"}, -0.75)], (1, 2) if tier == "thorough" else ()),
    ]
    for h, stepss in dh:
        for steps in stepss:
            items.append(("deriv", {"terms": h, "steps": steps, "label": f"{h} steps={steps}"}))
    for im, expect in [(0.5, "reject"), (-0.5, "reject"), (1e-3, "reject"), (-1e-3, "reject"), (-1e-6, "reject"), (1e-6, "reject"), (1e-13, "accept"), (-1e-13, "accept"), (0.0, "accept")]:
        items.append(("reject", {"ops": {"0": "Z", "1": "X"}, "re": 1.0, "im": im, "expect": expect, "label": f"imag={im}"}))
    items.append(("reject", {"ops": {}, "re": 0.5, "im": 0.0, "expect": "empty", "label": "constant"}))
    return items


def run(ctx):
    items = instances(ctx.tier, ctx.seed)
    if getattr(ctx, "only", None):
        items = [it for it in items if ctx.only in it[1]["label"] or ctx.only == it[0]]
    ctx.bounds = {
        "terms": "all 63 Pauli strings on <= 3 qubits x coefficients {1, -0.75, 0.5} (quick: one coefficient per string, rotating with VERIF_SEED)",
        "sums": "7 Hamiltonians of <= 3 terms (repeated, constant and gapped terms), steps 1..2 (3 in thorough), driven with time = steps*t",
        "derivatives": "1-qubit Hamiltonians of <= 3 terms with steps 1..3; 2-qubit Hamiltonians steps <= 2 in the thorough tier; identity for every entry quadruple (all observables and states at once)",
        "time": "every real t (circle variable e^{i t/4})",
    }
    ctx.assume("A-ENV-1 shim", "coefficients are dyadic rationals so the library's float arithmetic on angle coefficients is exact", "H and RX(pi/2) constants are doubles: tolerance 1e-9", "parameter-shift offsets pi/(4r) evaluated to doubles", "the imaginary-part guard and the constant-term clause are ground instances")
    for it, out in pmap(work, items):
        ctx.merge(out)
    ctx.extra["explanation"] = (
        "time_evolution_for_term / time_evolution / time_evolution_derivatives are executed with a symbolic time; the circuit matrices are compared "
        "with cos(tc)I - i sin(tc)P, ordered products thereof, and (for derivatives) d/dt of conj(U[i,a])U[j,b] for all index quadruples; decided by z3 over the circle."
    )


def replay(data):
    install_numpy_sympy_shim()
    import scipy.linalg
    from orquestra.quantum.evolution import time_evolution_for_term, time_evolution, time_evolution_derivatives

    inp = data["inputs"]
    clause = inp["clause"]
    vals = {k: float(v) for k, v in (inp.get("values") or {}).items()}
    tv = vals.get("t", 0.37)
    p = {k: v for k, v in inp.items() if k not in ("clause", "values")}
    ev = lambda M: CS.np_matrix(M, {"t": tv})  # noqa: E731
    try:
        if clause in ("term-width", "sum-width", "derivative-structure", "imaginary-rejected", "constant-term-empty"):
            r = Result("replay")
            kind = "reject" if "expect" in p else ("wide-term" if max([int(q) for q in p["ops"]] + [0]) >= 8 else "term") if "coeff" in p else "deriv" if clause.startswith("deriv") else "sum"
            {"term": _w_term, "wide-term": _w_term_wide, "sum": _w_sum, "deriv": _w_deriv, "reject": _w_reject}[kind](r, dict(p, label="replay"))
            c = [c for c in r.d["candidates"] if c["clause"] == clause]
            return bool(c), (c[0]["what"] if c else "no violation on re-execution")
        if clause == "term-evolution-numeric":
            bad = _numeric_term_bad(p["ops"], p["coeff"])
            return bool(bad), bad or "ok"
        if clause == "sum-evolution-numeric":
            bad = _numeric_sum_bad(p["terms"], p["steps"])
            return bool(bad), bad or "ok"
        if clause == "derivative-numeric":
            bad = _numeric_deriv_bad(p["terms"], p["steps"])
            return bool(bad), bad or "ok"
        if clause == "term-evolution-wide":
            ops, c = p["ops"], p["coeff"]
            n = width(ops)
            if n > 11:
                r = Result("replay")
                _w_term_wide(r, dict(p, label="replay"))
                cc = [x for x in r.d["candidates"] if x["clause"] == clause]
                return bool(cc), (cc[0]["what"] if cc else "no violation on re-execution") + " (register too wide for a dense replay: re-indexed circuit re-checked)"
            got = np.array(time_evolution_for_term(term_from(ops, c), tv).to_unitary(), dtype=complex)
            Pm = np_pauli(ops, n)
            want = np.cos(tv * c) * np.eye(2**n) - 1j * np.sin(tv * c) * Pm
            d = np.abs(got - want).max()
            return bool(d > 1e-7), f"max|delta|={d:.3g} at t={tv} on the full {n}-qubit register"
        if clause == "term-evolution":
            ops, c = p["ops"], p["coeff"]
            n = width(ops)
            got = ev(time_evolution_for_term(term_from(ops, c), T).to_unitary())
            want = scipy.linalg.expm(-1j * tv * c * np_pauli(ops, n))
            d = np.abs(got - want).max()
            return bool(d > 1e-7), f"max|delta|={d:.3g} at t={tv}"
        terms, steps = p["terms"], p["steps"]
        n = max(width(ops) for ops, _ in terms)
        H = _ham(p)

        def U_at(tt):
            return CS.np_matrix(time_evolution(H, steps * T, n_steps=steps).to_unitary(), {"t": tt})

        if clause == "sum-evolution":
            want = np.eye(2**n, dtype=complex)
            for _ in range(steps):
                for ops, c in terms:
                    if ops:
                        want = scipy.linalg.expm(-1j * tv * c * np_pauli(ops, n)) @ want
            d = np.abs(U_at(tv) - want).max()
            return bool(d > 1e-7), f"max|delta|={d:.3g} at t={tv}"
        if clause == "derivative":
            dcircs, factors = time_evolution_derivatives(H, steps * T, n_steps=steps)
            h = 1e-5
            U0 = U_at(tv)
            dU = (U_at(tv + h) - U_at(tv - h)) / (2 * h) / steps
            worst = 0.0
            Uks = [CS.np_matrix(dc.to_unitary(), {"t": tv}) for dc in dcircs]
            N = 2**n
            for i, a, j, b in itertools.product(range(N), repeat=4):
                lhs = sum(float(f) * np.conj(Uk[i, a]) * Uk[j, b] for f, Uk in zip(factors, Uks))
                rhs = np.conj(dU[i, a]) * U0[j, b] + np.conj(U0[i, a]) * dU[j, b]
                worst = max(worst, abs(lhs - rhs))
            return bool(worst > 1e-5), f"max|lhs-rhs|={worst:.3g} at t={tv}"
    except Exception:
        import traceback

        return False, "replay raised: " + traceback.format_exc()[-500:]
    return False, f"unknown clause {clause}"
