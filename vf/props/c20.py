"""C20 - value-returning operations never modify their arguments.

One generic harness: every scenario builds fresh argument objects (with symbolic leaves), takes a deep structural
SNAPSHOT of each argument and of the receiver, calls the operation, snapshots again, calls it a second time and
snapshots again.  Obligations per explored path:
    unchanged-after-call   snapshot(pre) == snapshot(after 1st call) == snapshot(after 2nd call)
    same-result-twice      snapshot(result 1) == snapshot(result 2)
Snapshots compare structure concretely and symbolic leaves by a z3 query under the path condition
(`pre != post` unsat), so a mutation that happens only for particular VALUES (a branch on a coefficient, a
normalisation that rescales in place only when the norm is off) is found on the path where it happens.
E2 scenarios run under the SymTrace explorer (all feasible paths of the real code); E1 scenarios run the real
circuit code on sympy symbols (one path; leaves are sympy expressions compared structurally).
"""
import dataclasses
import itertools
import os
import tempfile
import warnings

import numpy as np
import sympy
import z3

from ..core import Result, pmap
from ..front import install_numpy_sympy_shim
from .. import symtrace as ST
from .. import circ as CS

LEVEL = "model_checking"

# lazily filled caches that are not observable state
CACHE_ATTRS = {"_circuit", "_circuits", "_is_ising", "__orig_class__", "_hash"}


class Leaf:
    """a symbolic leaf inside a snapshot; kind records whether the object is real- or complex-typed (the type of a
    coefficient is observable: repr, dictionary form)"""

    __slots__ = ("parts", "kind")

    def __init__(self, parts, kind="real"):
        self.parts = parts  # tuple of z3 terms
        self.kind = kind


def snap(x, depth=0):
    if depth > 12:
        return ("deep", type(x).__name__)
    if isinstance(x, ST.SV):
        return Leaf((ST.zr_real(x),))
    if isinstance(x, ST.CV):
        return Leaf((ST.zr_real(x.re), ST.zr_real(x.im)), "complex")
    if isinstance(x, ST.SB):
        return Leaf((x.z,))
    if x is None or isinstance(x, (bool, int, float, complex, str, bytes)):
        return ("v", type(x).__name__, repr(x))
    if isinstance(x, np.generic):
        return ("v", type(x).__name__, repr(x.item()))
    if isinstance(x, sympy.MatrixBase):
        return ("M", x.shape, tuple(sympy.srepr(e) for e in x))
    if isinstance(x, sympy.Basic):
        return ("s", sympy.srepr(x))
    if isinstance(x, np.ndarray):
        return ("nd", x.shape, str(x.dtype), tuple(snap(e.item() if isinstance(e, np.generic) else e, depth + 1) for e in x.flat))
    if isinstance(x, (list, tuple)):
        return (type(x).__name__, tuple(snap(e, depth + 1) for e in x))
    if isinstance(x, (set, frozenset)):
        return (type(x).__name__, tuple(sorted((snap(e, depth + 1) for e in x), key=repr)))
    if isinstance(x, dict):
        return ("dict", tuple((snap(k, depth + 1), snap(v, depth + 1)) for k, v in x.items()))
    if dataclasses.is_dataclass(x) and not isinstance(x, type):
        return ("dc", type(x).__name__, tuple((f.name, snap(getattr(x, f.name), depth + 1)) for f in dataclasses.fields(x)))
    if callable(x) and not hasattr(x, "__dict__"):
        return ("fn", getattr(x, "__qualname__", repr(type(x))))
    d = getattr(x, "__dict__", None)
    if d is not None:
        return ("obj", type(x).__name__, Attrs((k, snap(v, depth + 1)) for k, v in sorted(d.items()) if k not in CACHE_ATTRS))
    return ("o", type(x).__name__, repr(x)[:80])


class Attrs(tuple):
    """attribute list of an object's __dict__: compared by name. A PRIVATE attribute that appears, or goes from None to a
    value, between two snapshots is a lazily filled cache (not observable state) and is ignored; every other difference -
    a changed or vanished attribute, a new public attribute - is a mismatch."""


_NONE = ("v", "NoneType", "None")


def _compare_attrs(a, b, eqs, path):
    da, db = dict(a), dict(b)
    for k in da:
        if k not in db:
            return f"{path}: attribute {k} vanished"
    for k in db:
        if k not in da:
            if k.startswith("_"):
                continue  # cache filled on demand
            return f"{path}: new attribute {k}"
    for k, va in da.items():
        vb = db[k]
        if k.startswith("_") and va == _NONE and vb != _NONE:
            continue  # private slot initialised to None and filled on demand
        r = compare(va, vb, eqs, f"{path}.{k}")
        if r:
            return r
    return None


def compare(a, b, eqs, path="$"):
    """structural comparison; symbolic leaves contribute z3 equalities to `eqs`. Returns None or a mismatch text."""
    if isinstance(a, Leaf) or isinstance(b, Leaf):
        if not (isinstance(a, Leaf) and isinstance(b, Leaf)) or len(a.parts) != len(b.parts):
            # a concrete number on one side and a symbolic value on the other
            if isinstance(a, Leaf) and isinstance(b, Leaf):
                return f"{path}: a {a.kind}-typed value became {b.kind}-typed"
            try:
                pa = a.parts if isinstance(a, Leaf) else _num_parts(a)
                pb = b.parts if isinstance(b, Leaf) else _num_parts(b)
            except Exception:
                return f"{path}: symbolic vs {str(a if not isinstance(a, Leaf) else b)[:60]}"
            n = max(len(pa), len(pb))
            pa = tuple(pa) + (z3.RealVal(0),) * (n - len(pa))
            pb = tuple(pb) + (z3.RealVal(0),) * (n - len(pb))
            eqs.extend(x == y for x, y in zip(pa, pb))
            return None
        if a.kind != b.kind:
            return f"{path}: a {a.kind}-typed value became {b.kind}-typed"
        for x, y in zip(a.parts, b.parts):
            if not z3.eq(x, y):
                eqs.append(x == y)
        return None
    if isinstance(a, Attrs) and isinstance(b, Attrs):
        return _compare_attrs(a, b, eqs, path)
    if type(a) is not type(b):
        return f"{path}: {str(a)[:60]} vs {str(b)[:60]}"
    if isinstance(a, tuple):
        if len(a) != len(b):
            return f"{path}: length {len(a)} vs {len(b)} ({str(a)[:80]} vs {str(b)[:80]})"
        for i, (x, y) in enumerate(zip(a, b)):
            r = compare(x, y, eqs, f"{path}.{i}")
            if r:
                return r
        return None
    return None if a == b else f"{path}: {str(a)[:80]} vs {str(b)[:80]}"


def _num_parts(t):
    if isinstance(t, tuple) and t and t[0] == "v":
        v = complex(eval(t[2], {"nan": float("nan"), "inf": float("inf")}))  # repr of a Python number
        return (ST.zr_real(v.real), ST.zr_real(v.imag)) if t[1] == "complex" else (ST.zr_real(v.real),)
    raise ValueError


# ---------------------------------------------------------------------------
# scenario tables.  Each scenario: name, engine, build(V) -> dict of named argument objects, call(objs) -> result


def _ops_scenarios():
    from . import c03

    A_specs = {
        "term": ("term", {"0": "X", "2": "Z"}, "c0"),
        "sum2": ("sum", [({"0": "X"}, "c0"), ({"1": "Y", "0": "Z"}, "c1")]),
        "dup": ("sum", [({"0": "X"}, "c0"), ({"0": "X"}, "c1"), ({}, "r2")]),
        "sumR": ("sum", [({"0": "X"}, "r0"), ({"1": "Z", "0": "Y"}, "r1")]),
    }
    B_specs = {"termB": ("term", {"0": "Y"}, "c3"), "sumB": ("sum", [({"0": "X"}, "c3"), ({"2": "Z"}, 0.5)])}
    out = []

    def mk(name, a, b, f):
        def build(V):
            objs = {"A": c03.build_operand(A_specs[a], V)}
            if b:
                objs["B"] = c03.build_operand(B_specs[b], V)
            return objs

        out.append(dict(name=f"operator {name} [{a}{',' + b if b else ''}]", engine="E2-pauli", build=build, call=f))

    for a in A_specs:
        if a == "sumR":  # real-coefficient sum: only for the power scenario (complex-coefficient squares exceed z3's reach, measured)
            mk("A ** 2", a, None, lambda o: o["A"] ** 2)
            mk("A ** 3", a, None, lambda o: o["A"] ** 3)
            continue
        for b in B_specs:
            mk("A + B", a, b, lambda o: o["A"] + o["B"])
            mk("A - B", a, b, lambda o: o["A"] - o["B"])
            mk("A * B", a, b, lambda o: o["A"] * o["B"])
            mk("A == B", a, b, lambda o: o["A"] == o["B"])
        mk("A * 2.5", a, None, lambda o: o["A"] * 2.5)
        mk("(0.5+1j) * A", a, None, lambda o: (0.5 + 1j) * o["A"])
        mk("A / 4", a, None, lambda o: o["A"] / 4)
        if a == "term":
            mk("A ** 2", a, None, lambda o: o["A"] ** 2)
        mk("-1 * A + 3", a, None, lambda o: -1 * o["A"] + 3)
        mk("simplify", a, None, lambda o: o["A"].simplify() if hasattr(o["A"], "simplify") else o["A"].copy())
        mk("hermitian_conjugated", a, None, lambda o: __import__("orquestra.quantum.operators", fromlist=["x"]).hermitian_conjugated(o["A"]))
        mk("is_hermitian", a, None, lambda o: __import__("orquestra.quantum.operators", fromlist=["x"]).is_hermitian(o["A"]))
        mk("reverse_qubit_order", a, None, lambda o: __import__("orquestra.quantum.operators", fromlist=["x"]).reverse_qubit_order(o["A"], 4))
        mk("convert_op_to_dict", a, None, lambda o: __import__("orquestra.quantum.operators", fromlist=["x"]).convert_op_to_dict(o["A"]))
        mk("get_pauli_strings", a, None, lambda o: __import__("orquestra.quantum.operators", fromlist=["x"]).get_pauli_strings(o["A"]))
        mk("str / n_qubits / qubits / is_ising / terms", a, None, lambda o: (str(o["A"]), o["A"].n_qubits, sorted(o["A"].qubits), o["A"].is_ising, len(o["A"].terms)))
    return out


def _meas_scenarios():
    from . import c10

    out = []

    def op_build(V, terms):
        names = V.setdefault("names", {})
        cons = V.setdefault("cons", [])

        def cf(c):
            if isinstance(c, str):
                if c not in names:
                    names[c] = z3.Real(c)
                    cons.extend([names[c] <= 8, names[c] >= -8])
                return ST.SV(names[c])
            return c

        return c10.build_operator(terms, cf)

    shots = [(0, 1), (1, 1), (0, 1)]
    terms = [([0], "k0"), ([0, 1], "k1"), ([], "k2")]

    def build(V):
        from orquestra.quantum.measurements import Measurements

        return {"measurements": Measurements(list(shots)), "operator": op_build(V, terms)}

    for name, f in (
        ("get_expectation_values", lambda o: _ev_tuple(o["measurements"].get_expectation_values(o["operator"]))),
        ("get_expectation_values(bessel)", lambda o: _ev_tuple(o["measurements"].get_expectation_values(o["operator"], use_bessel_correction=True))),
        ("get_counts", lambda o: o["measurements"].get_counts()),
        ("get_distribution", lambda o: o["measurements"].get_distribution().distribution_dict),
    ):
        out.append(dict(name=f"measurements {name}", engine="E2-meas", build=build, call=f))

    def build_freq(V):
        names = V.setdefault("names", {})
        cons = V.setdefault("cons", [])
        keys = ["00", "01", "10", "11"]
        for k in keys:
            names.setdefault(f"n_{k}", z3.Int(f"n_{k}"))
        if not cons:
            cons.extend([names[f"n_{k}"] >= 0 for k in keys] + [sum(names[f"n_{k}"] for k in keys) >= 1])
        return {"marked": [1, 0], "frequencies": {k: ST.SV(names[f"n_{k}"], True) for k in keys}}

    def call_freq(o):
        from orquestra.quantum.measurements.measurements import get_expectation_value_from_frequencies

        return get_expectation_value_from_frequencies(o["marked"], o["frequencies"])

    out.append(dict(name="get_expectation_value_from_frequencies", engine="E2-meas", build=build_freq, call=call_freq))

    def build_counts(V):
        names = V.setdefault("names", {})
        cons = V.setdefault("cons", [])
        keys = ["01", "11", "00"]
        for k in keys:
            names.setdefault(f"n_{k}", z3.Int(f"n_{k}"))
        if not cons:
            cons.extend([z3.And(names[f"n_{k}"] >= 0, names[f"n_{k}"] <= 2) for k in keys] + [sum(names[f"n_{k}"] for k in keys) >= 1])
        return {"counts": {k: ST.SV(names[f"n_{k}"], True, 0, 2) for k in keys}}

    def call_counts(o):
        from orquestra.quantum.measurements import Measurements

        return list(Measurements.from_counts(o["counts"]).bitstrings)

    out.append(dict(name="Measurements.from_counts", engine="E2-meas", build=build_counts, call=call_counts))
    return out


def _ev_tuple(ev):
    return (ev.values, ev.correlations, ev.estimator_covariances)


def _dist_scenarios():
    out = []
    keys = [(0, 0), (0, 1), (1, 1)]

    def weights(V, tag, n, norm):
        names = V.setdefault("names", {})
        cons = V.setdefault("cons", [])
        ws = []
        fresh = f"{tag}0" not in names
        for i in range(n):
            names.setdefault(f"{tag}{i}", z3.Real(f"{tag}{i}"))
            ws.append(ST.SV(names[f"{tag}{i}"]))
        if fresh:
            cons.extend(names[f"{tag}{i}"] >= 0 for i in range(n))
            tot = sum(names[f"{tag}{i}"] for i in range(n))
            cons.append(tot == 1 if norm else z3.And(tot >= z3.RealVal("1/2"), tot <= 3))
        return ws

    def build_ctor(V):
        return {"input_dict": dict(zip(keys, weights(V, "w", 3, False)))}

    def build_ctor_str(V):
        return {"input_dict": dict(zip(["00", "01", "11"], weights(V, "w", 3, False)))}

    def call_ctor(o):
        from orquestra.quantum.distributions import MeasurementOutcomeDistribution as MOD

        with warnings.catch_warnings():
            warnings.simplefilter("ignore")
            return MOD(o["input_dict"]).distribution_dict

    out.append(dict(name="MeasurementOutcomeDistribution(dict with tuple keys, unnormalised)", engine="E2-dist", build=build_ctor, call=call_ctor))
    out.append(dict(name="MeasurementOutcomeDistribution(dict with string keys, unnormalised)", engine="E2-dist", build=build_ctor_str, call=call_ctor))

    def build_d(V, norm=True):
        from orquestra.quantum.distributions import MeasurementOutcomeDistribution as MOD

        with warnings.catch_warnings():
            warnings.simplefilter("ignore")
            return {"distribution": MOD(dict(zip(keys, weights(V, "w", 3, norm))), normalize=False), "qubits": [1, 0]}

    for norm in (True, False):
        out.append(dict(name=f"subdistribution (normalised={norm})", engine="E2-dist", build=(lambda V, n=norm: build_d(V, n)), call=lambda o: o["distribution"].subdistribution(o["qubits"]).distribution_dict))
    out.append(dict(name="get_number_of_subsystems / repr", engine="E2-dist", build=build_d, call=lambda o: (o["distribution"].get_number_of_subsystems(), len(repr(o["distribution"])) > 0)))

    def build_pair(V):
        from orquestra.quantum.distributions import MeasurementOutcomeDistribution as MOD

        t = MOD(dict(zip(keys, weights(V, "t", 3, True))), normalize=False)
        m = MOD(dict(zip([(0, 0), (1, 0), (1, 1)], weights(V, "m", 3, True))), normalize=False)
        return {"target": t, "measured": m, "parameters": {"sigma": 0.5, "epsilon": 1e-6}}

    def dist_call(fname, via_evaluate=False):
        def f(o):
            from orquestra.quantum import distributions as D

            fn = getattr(D, fname)
            if via_evaluate:
                return D.evaluate_distribution_distance(o["target"], o["measured"], fn, distance_measure_parameters=o["parameters"]) if False else D.evaluate_distribution_distance(o["target"], o["measured"], fn, **{"distance_measure_parameters": o["parameters"]})
            return fn(o["target"], o["measured"], o["parameters"])

        return f

    out.append(dict(name="compute_mmd", engine="E2-dist-mmd", build=build_pair, call=dist_call("compute_mmd")))
    out.append(dict(name="compute_clipped_negative_log_likelihood", engine="E2-dist-nll", build=build_pair, call=dist_call("compute_clipped_negative_log_likelihood")))
    out.append(dict(name="compute_jensen_shannon_divergence", engine="E2-dist-nll", build=build_pair, call=dist_call("compute_jensen_shannon_divergence")))
    out.append(dict(name="evaluate_distribution_distance(mmd)", engine="E2-dist-mmd", build=build_pair, call=dist_call("compute_mmd", True)))
    return out


def _wf_scenarios():
    out = []

    def build(V):
        from orquestra.quantum.wavefunction import Wavefunction

        names = V.setdefault("names", {})
        cons = V.setdefault("cons", [])
        fresh = "a0_re" not in names
        for n in ("a0_re", "a0_im", "a1_re"):
            names.setdefault(n, z3.Real(n))
        # one fully complex amplitude, one real one, two concrete zeros (keeps the norm queries within z3's reach)
        amps = [ST.CV(ST.SV(names["a0_re"]), ST.SV(names["a0_im"])), ST.CV(ST.SV(names["a1_re"]), 0.0), 0.0, 0.0]
        if fresh:
            cons.extend(z3.And(z <= 2, z >= -2) for z in list(names.values()))
            # anywhere inside the constructor's acceptance band, not only exactly 1
            tot = sum(z * z for z in names.values())
            cons.append(z3.And(tot >= z3.RealVal("999999/1000000"), tot <= z3.RealVal("1000001/1000000")))
        return {"wavefunction": Wavefunction(list(amps))}

    for name, f in (
        ("get_probabilities", lambda o: o["wavefunction"].get_probabilities()),
        ("get_outcome_probs", lambda o: o["wavefunction"].get_outcome_probs()),
        ("amplitudes / len / n_qubits / iter", lambda o: (o["wavefunction"].amplitudes, len(o["wavefunction"]), o["wavefunction"].n_qubits, list(o["wavefunction"]))),
        ("flip_wavefunction", lambda o: __import__("orquestra.quantum.wavefunction", fromlist=["x"]).flip_wavefunction(o["wavefunction"]).amplitudes),
        ("wf == wf", lambda o: o["wavefunction"] == o["wavefunction"]),
    ):
        out.append(dict(name=f"wavefunction {name}", engine="E2-wf", build=build, call=f))
    return out


def _circuit_scenarios():
    out = []
    base = [("RX(x)", (0,)), ("CNOT", (0, 1)), ("RY(x+y)|c1", (2, 1)), ("G1", (2,)), ("U3(x,y,z)|dagger", (0,))]
    other = [("H", (1,)), ("RZ(2*y)", (3,)), ("XX(x)", (0, 3))]

    def build(V):
        return {
            "circuit": CS.circuit_from_spec(base),
            "other": CS.circuit_from_spec(other, 5),
            "operation": CS.op_from_spec(("RZ(z)", (1,))),
            "symbol_map": {CS.S("x"): CS.S("v0") + 1, CS.S("y"): 0.25},
            # maps a caller may hand over: names instead of symbols, symbols the circuit does not use, mixed key kinds
            "symbol_map_names": {"x": 0.5, CS.S("y"): 0.25, "unused": 1.0},
            "symbol_map_extra": {CS.S("unused1"): 1.5, CS.S("x"): CS.S("v0"), CS.S("unused2"): CS.S("y")},
            # dictionary kinds that react to a lookup of a missing key (defaultdict creates it, Counter / ChainMap do not)
            "symbol_map_default": __import__("collections").defaultdict(float, {CS.S("x"): 0.5}),
            "symbol_map_chain": __import__("collections").ChainMap({CS.S("x"): 0.5}, {CS.S("unused"): 2.0}),
            "state": np.array([CS.S(f"a{i}") for i in range(8)], dtype=object),
        }

    def serde(o):
        from orquestra.quantum.circuits import circuit_from_dict, to_dict

        d = to_dict(o["circuit"])
        return d, to_dict(circuit_from_dict(d))

    def ops_apply(o):
        return [op.apply(o["state"]) for op in o["circuit"].operations[:3]]

    calls = [
        ("circuit + circuit", lambda o: o["circuit"] + o["other"]),
        ("circuit + operation", lambda o: o["circuit"] + o["operation"]),
        ("bind", lambda o: o["circuit"].bind(o["symbol_map"])),
        ("bind (map keyed by names and symbols)", lambda o: o["circuit"].bind(o["symbol_map_names"])),
        ("bind (defaultdict / ChainMap map with symbols missing)", lambda o: (o["circuit"].bind(o["symbol_map_default"]), o["operation"].bind(o["symbol_map_default"]), o["other"].bind(o["symbol_map_default"]), o["circuit"].bind(o["symbol_map_chain"]))),
        ("bind (map with symbols the circuit does not use)", lambda o: (o["circuit"].bind(o["symbol_map_extra"]), o["other"].bind(o["symbol_map_extra"]), o["operation"].bind(o["symbol_map_extra"]))),
        ("inverse", lambda o: o["circuit"].inverse()),
        ("controlled", lambda o: o["circuit"].controlled(3)),
        ("to_dict / circuit_from_dict", serde),
        ("to_unitary", lambda o: o["circuit"].to_unitary()),
        ("free_symbols / n_qubits / == / repr", lambda o: (o["circuit"].free_symbols, o["circuit"].n_qubits, o["circuit"] == o["other"], len(repr(o["circuit"])))),
        ("operation.apply(state)", ops_apply),
        ("operation bind / replace_params / lifted_matrix", lambda o: [(op.bind(o["symbol_map"]), op.replace_params(tuple(2 * p for p in op.params)), op.lifted_matrix(3)) for op in o["circuit"].operations[:3]]),
        ("gate dagger / controlled / matrix", lambda o: [(op.gate.dagger, op.gate.controlled(1), op.gate.matrix) for op in o["circuit"].operations]),
        ("gate power / exp (constant gates)", lambda o: [(op.gate.power(2), op.gate.exp) for op in o["other"].operations[:1]]),
        ("split_circuit", lambda o: [(f, c) for f, c in __import__("orquestra.quantum.circuits", fromlist=["x"]).split_circuit(o["circuit"], lambda op: len(op.qubit_indices) == 1)]),
        ("add_ancilla_register", lambda o: __import__("orquestra.quantum.circuits", fromlist=["x"]).add_ancilla_register(o["circuit"], 2)),
        ("decompose", lambda o: __import__("orquestra.quantum.decompositions", fromlist=["x"]).decompose_orquestra_circuit(o["circuit"], [__import__("orquestra.quantum.decompositions", fromlist=["x"]).U3GateToRotation()])),
        ("SymbolicSimulator.get_wavefunction", lambda o: __import__("orquestra.quantum.runners.symbolic_simulator", fromlist=["x"]).SymbolicSimulator().get_wavefunction(o["circuit"], o["state"]).amplitudes),
    ]
    for name, f in calls:
        out.append(dict(name=f"circuit {name}", engine="E1", build=build, call=f))
    return out


def _state_scenarios():
    """operations that take a STATE VECTOR argument, with the kinds of vector a caller can hand over"""
    out = []

    def states():
        import numpy as _np

        return {
            "complex ndarray": _np.array([0.5, 0.5j, -0.5, 0.5], dtype=complex),
            "float ndarray": _np.array([0.5, 0.5, -0.5, 0.5]),
            "list": [0.5, 0.5j, -0.5, 0.5],
            "symbol array": _np.array([CS.S(f"a{i}") for i in range(4)], dtype=object),
        }

    for sname in ("complex ndarray", "float ndarray", "list", "symbol array"):

        def build(V, sname=sname):
            from orquestra.quantum.circuits import MultiPhaseOperation, Circuit
            from orquestra.quantum.wavefunction import Wavefunction

            st = states()[sname]
            mpo = MultiPhaseOperation((0.25, -0.5, 1.0, 0.125))
            objs = {"state": st, "phase_operation": mpo, "gate_operation": CS.op_from_spec(("RY(0.3)|c1", (1, 0))), "symbolic_gate_operation": CS.op_from_spec(("RX(x)", (1,))),
                    "circuit": Circuit([mpo, CS.op_from_spec(("H", (0,))), MultiPhaseOperation((0.0, 0.5, 0.0, -0.5))])}
            if sname == "complex ndarray":
                objs["wavefunction"] = Wavefunction(st.copy())
            return objs

        def sim(o):
            from orquestra.quantum.runners.symbolic_simulator import SymbolicSimulator

            src = o["wavefunction"].amplitudes if "wavefunction" in o else o["state"]
            return SymbolicSimulator().get_wavefunction(o["circuit"], src).amplitudes

        out.append(dict(name=f"MultiPhaseOperation.apply({sname})", engine="E1", build=build, call=lambda o: o["phase_operation"].apply(o["state"])))
        out.append(dict(name=f"GateOperation.apply({sname})", engine="E1", build=build, call=lambda o: (o["gate_operation"].apply(o["state"]), None if isinstance(o["state"], list) else o["symbolic_gate_operation"].apply(o["state"]))))
        out.append(dict(name=f"simulator.get_wavefunction(circuit, initial_state={sname})", engine="E1", build=build, call=sim))
    return out


def scenarios():
    return _ops_scenarios() + _meas_scenarios() + _dist_scenarios() + _wf_scenarios() + _circuit_scenarios() + _state_scenarios()


def _env(engine):
    import math
    import numpy

    if engine == "E2-pauli":
        from . import c03

        return c03._patched()
    if engine == "E2-meas":
        from . import c10

        return c10._patched()
    if engine.startswith("E2-dist"):
        from . import c17
        from orquestra.quantum.distributions import mmd as MM, clipped_negative_log_likelihood as CN, jensen_shannon_divergence as JS

        extra = []
        if engine.endswith("mmd"):
            extra.append((MM, "np", c17.DistNp(numpy)))
        if engine.endswith("nll"):
            lnp = c17.LnProxy(math)
            extra.append((CN, "math", lnp))
            extra.append((JS, "math", lnp))
        return c17._patch_md(extra)
    if engine == "E2-wf":
        from . import c12

        return c12._patched()
    return ST.patched()


# ---------------------------------------------------------------------------


def work(item):
    install_numpy_sympy_shim()
    idx, name = item
    sc = scenarios()[idx]
    res = Result(f"op|{sc['name']}")
    try:
        with warnings.catch_warnings():
            warnings.simplefilter("ignore")
            _run_scenario(res, sc)
    except ST.Inconclusive as e:
        res.ob(1)
        res.inconc(str(e))
    return res.as_dict()


def _run_scenario(res, sc, concrete=None):
    V = {"names": {}, "cons": []}
    if sc["engine"] == "E2-pauli":
        from . import c03

        V = c03.Vars()
    records = []

    def judge(ex, clause, pairs):
        eqs, bad = [], None
        for a, b, label in pairs:
            bad = compare(a, b, eqs, label)
            if bad:
                break
        if bad:
            records.append((clause, "violated", None, bad))
        elif eqs and ex is not None:
            v, m = ex.prove(z3.And(*eqs))
            records.append((clause, v, m, "symbolic leaf differs"))
        elif eqs:
            records.append((clause, "unknown", None, "symbolic leaves outside an explorer"))
        else:
            records.append((clause, "holds", None, ""))

    def body(ex):
        objs = sc["build"](V)
        pre = {k: snap(v) for k, v in objs.items()}
        r1 = sc["call"](objs)  # a raising first call is an outcome of its own (not examined)
        s1 = snap(r1)
        mid = {k: snap(v) for k, v in objs.items()}
        judge(ex, "unchanged-after-call", [(pre[k], mid[k], k) for k in pre])
        try:
            r2 = sc["call"](objs)
        except (ST.Inconclusive, ST.PathAbort):
            raise
        except Exception as e:
            records.append(("same-result-twice", "violated", None, f"the second call on the same arguments raised {type(e).__name__}: {str(e)[:100]}"))
            return r1
        s2 = snap(r2)
        post = {k: snap(v) for k, v in objs.items()}
        judge(ex, "unchanged-after-call", [(pre[k], post[k], k + " (2nd call)") for k in pre])
        judge(ex, "same-result-twice", [(s1, s2, "result")])
        return r1

    names = {}
    if sc["engine"].startswith("E2"):

        class _Base(list):
            def __iter__(self_inner):
                return iter(V.cons if hasattr(V, "cons") else V["cons"])

        with _env(sc["engine"]):
            ex = ST.Explorer(base=_Base(), timeout_ms=max(8000, int(os.environ.get("VERIF_Z3_TIMEOUT_MS", "8000")) * 2), max_paths=400, logic="auto" if sc["engine"] in ("E2-pauli", "E2-wf", "E2-dist-mmd") else None)
            outs = ex.run(body)
        res.d["paths"] += ex.npaths
        res.d["solver_queries"] += ex.queries
        res.d["solver_s"] += ex.solver_s
        names = {n: z3.Real(n) for n in V.names} if hasattr(V, "names") and isinstance(V.names, list) else dict(V["names"])
        res.nontrivial()
        n_ok = sum(1 for o in outs if o[0] == "ok")
        res.d["vacuity_twins"] += 1
        if n_ok:
            res.d["vacuity_ok"] += 1
        else:
            res.herr(f"no path of scenario {sc['name']} completed: {[repr(o[1])[:100] for o in outs[:2]]}")
    else:
        body(None)
        res.d["paths"] += 1
        res.nontrivial()
    for clause, v, m, note in records:
        res.ob(1)
        if v == "holds":
            res.ob(0, 1, "A:z3" if sc["engine"].startswith("E2") else "concrete-structure")
        elif v == "violated":
            vals = {}
            if m is not None:
                for n, zv in names.items():
                    vals[n] = ST.model_value(m, zv)
            res.candidate(clause, f"{sc['name']}: {clause} fails: {note}"[:400], {"scenario": sc["name"], "clause": clause, "values": vals}, sub=clause)
        else:
            res.inconc("z3 unknown", clause)
    res.sample({"operation": sc["name"], "engine": sc["engine"]})


def _w_represent(item):
    """get_measurements_representing_distribution on an UNNORMALISED distribution with symbolic weights (C13's harness,
    only the argument-unchanged clause)."""
    from . import c13

    res = Result(f"op|{item['label']}")
    try:
        c13._w_represent(res, item)
    except ST.Inconclusive as e:
        res.ob(1)
        res.inconc(str(e))
    d = res.as_dict()
    # raising paths are not examined by C20 (an unnormalised argument can make the corrections step refuse)
    dropped = [c for c in d["candidates"] if c["clause"] != "distribution-unchanged"]
    d["candidates"] = [c for c in d["candidates"] if c["clause"] == "distribution-unchanged"]
    d["obligations"] -= len(dropped)
    for c in d["candidates"]:
        c["clause"] = "unchanged-after-call"
        c["inputs"] = {"represent": item, "clause": "unchanged-after-call", "values": c["inputs"].get("values", {})}
    return d


REPRESENT = [
    {"keys": [[0], [1]], "N": 1, "unnormalised": True, "label": "representing distribution, unnormalised weights over 2 outcomes, N=1"},
    {"keys": [[0, 0], [0, 1], [1, 1]], "N": 1, "unnormalised": True, "label": "representing distribution, unnormalised weights over 3 outcomes, N=1"},
]


def _w_ground(item):
    """ground: operations whose arguments cannot be symbolic here (numpy integer kernels, file I/O, real sampling)."""
    name = item
    res = Result(f"ground|{name}")
    res.d["ground_instances"] += 1
    res.d["instances"] -= 1
    res.ob(1)
    bad = ground_bad(name)
    if bad:
        res.candidate("ground-unchanged", f"{name}: {bad}"[:400], {"ground": name, "clause": "ground-unchanged", "values": {}}, sub="ground-unchanged")
    else:
        res.ob(0, 1, "ground-structure")
    return res.as_dict()


GROUND_NAMES = ["circuit_constructor_copies", "flip_amplitudes", "expectation_values_views", "measurements_views_on_caller_list", "get_parities_from_measurements", "representing_distribution", "save_distribution", "save_operator", "save_circuit", "sample_from_wavefunction", "exact_expectation", "estimate_by_averaging", "save_wavefunction", "Measurements.save"]


def ground_bad(name):
    import copy
    from orquestra.quantum.measurements import Measurements, get_parities_from_measurements
    from orquestra.quantum.operators import PauliSum, PauliTerm
    from orquestra.quantum.distributions import MeasurementOutcomeDistribution as MOD, save_measurement_outcome_distribution

    tmp = tempfile.mkdtemp(prefix="vf-c20-")
    f = os.path.join(tmp, "x.json")

    def check(objs, call):
        pre = {k: snap(v) for k, v in objs.items()}
        r1 = call(objs)
        mid = {k: snap(v) for k, v in objs.items()}
        r2 = call(objs)
        post = {k: snap(v) for k, v in objs.items()}
        for k in pre:
            for a, b, when in ((pre[k], mid[k], "by the call"), (mid[k], post[k], "by the second call")):
                eqs = []
                why = compare(a, b, eqs, k)  # lazily filled private caches are not a change (see Attrs)
                if why or eqs:
                    return f"argument {k} changed {when}: {why or 'symbolic leaves differ'}"
        return None

    try:
        op = PauliSum([PauliTerm({0: "Z"}, 0.5), PauliTerm({0: "Z", 1: "Z"}, -1.5), PauliTerm({}, 2.0)])
        if name == "circuit_constructor_copies":
            from orquestra.quantum.circuits import Circuit

            ops = [CS.op_from_spec(("RX(x)", (0,))), CS.op_from_spec(("CNOT", (0, 1)))]
            c = Circuit(ops)
            bad = check({"operations": ops, "circuit": c, "extra": CS.op_from_spec(("H", (1,)))}, lambda o: (o["circuit"] + o["extra"], o["circuit"].inverse(), o["circuit"].bind({CS.S("x"): 0.5}), list(o["circuit"].operations)))
            if bad:
                return bad
            ops.append(CS.op_from_spec(("H", (1,))))
            if len(c.operations) != 2:
                return "a circuit changed when the list it was built from was extended afterwards"
            return None
        if name == "flip_amplitudes":
            from orquestra.quantum.wavefunction import flip_amplitudes, flip_wavefunction, Wavefunction

            arr = np.array([0.5, 0.5j, -0.5, 0.5], dtype=complex)
            return check({"array": arr, "list": [0.5, 0.5j, -0.5, 0.5], "wf": Wavefunction(arr.copy())}, lambda o: (flip_amplitudes(o["array"]).tolist(), flip_amplitudes(o["list"]).tolist(), flip_wavefunction(o["wf"]).amplitudes.tolist()))
        if name == "expectation_values_views":
            from orquestra.quantum.measurements import ExpectationValues, Parities, get_expectation_values_from_parities

            ev = ExpectationValues(np.array([0.5, -0.25]), [np.array([[1.0, 0.5], [0.5, 1.0]])], [np.array([[0.1, 0.0], [0.0, 0.2]])])
            par = Parities(np.array([[3, 1], [2, 2]]), [np.array([[[4, 0], [3, 1]], [[3, 1], [4, 0]]])])
            return check({"expectation_values": ev, "parities": par}, lambda o: (o["expectation_values"].to_dict(), o["parities"].to_dict(), get_expectation_values_from_parities(o["parities"]).values.tolist()))
        if name == "measurements_views_on_caller_list":
            shots = [(0, 1), (1, 1), (0, 1)]
            m = Measurements(shots)
            return check({"shots": shots, "measurements": m, "op": op}, lambda o: (o["measurements"].get_counts(), o["measurements"].get_distribution().distribution_dict, o["measurements"].get_expectation_values(o["op"]).values.tolist()))
        if name == "get_parities_from_measurements":
            return check({"shots": [(0, 1), (1, 1), (0, 0)], "op": op}, lambda o: get_parities_from_measurements(o["shots"], o["op"]).values.tolist())
        if name == "representing_distribution":
            import warnings as _w

            d = MOD({(0, 0): 0.3, (0, 1): 0.45, (1, 1): 0.25})
            bad = check({"dist": d}, lambda o: sorted(Measurements.get_measurements_representing_distribution(o["dist"], 7).bitstrings))
            if bad:
                return bad
            with _w.catch_warnings():
                _w.simplefilter("ignore")
                d2 = MOD({(0, 0): 0.3, (1, 1): 0.3}, normalize=False)
            return check({"dist": d2}, lambda o: len(Measurements.get_measurements_representing_distribution(o["dist"], 5).bitstrings))
        if name == "save_distribution":
            d = MOD({(0, 0): 0.3, (0, 1): 0.7})
            return check({"dist": d}, lambda o: save_measurement_outcome_distribution(o["dist"], f))
        if name == "save_operator":
            from orquestra.quantum.operators import save_operator

            return check({"op": op}, lambda o: save_operator(o["op"], f))
        if name == "save_circuit":
            from orquestra.quantum.circuits import save_circuit

            c = CS.circuit_from_spec([("RX(x)", (0,)), ("CNOT", (0, 1)), ("G1", (1,))])
            return check({"circuit": c}, lambda o: save_circuit(o["circuit"], f))
        if name == "sample_from_wavefunction":
            from orquestra.quantum.wavefunction import Wavefunction, sample_from_wavefunction

            wf = Wavefunction(np.array([0.6, 0.0, 0.8j, 0.0]))
            return check({"wf": wf}, lambda o: (sample_from_wavefunction(o["wf"], 3, 5), sample_from_wavefunction(o["wf"], 9, 5)))
        if name == "save_wavefunction":
            from orquestra.quantum.wavefunction import Wavefunction, save_wavefunction

            wf = Wavefunction(np.array([0.6, 0.0, 0.8j, 0.0]))
            return check({"wf": wf}, lambda o: save_wavefunction(o["wf"], f))
        if name == "Measurements.save":
            m = Measurements([(0, 1), (1, 1)])
            return check({"m": m}, lambda o: o["m"].save(f))
        if name == "exact_expectation":
            from orquestra.quantum.runners.symbolic_simulator import SymbolicSimulator

            c = CS.circuit_from_spec([("RX(0.3)", (0,)), ("CNOT", (0, 1))])
            return check({"circuit": c, "op": op}, lambda o: SymbolicSimulator().get_exact_expectation_values(o["circuit"], o["op"]))
        if name == "estimate_by_averaging":
            from orquestra.quantum.runners.symbolic_simulator import SymbolicSimulator
            from orquestra.quantum.api.estimation import EstimationTask
            from orquestra.quantum.estimation import estimate_expectation_values_by_averaging

            c = CS.circuit_from_spec([("RX(0.3)", (0,)), ("CNOT", (0, 1))])
            tasks = [EstimationTask(op, c, 20), EstimationTask(PauliSum([PauliTerm({}, 1.5)]), c, 0)]
            return check({"tasks": tasks}, lambda o: [list(e.values) for e in estimate_expectation_values_by_averaging(SymbolicSimulator(seed=3), o["tasks"])])
        raise ValueError(name)
    finally:
        import shutil

        shutil.rmtree(tmp, ignore_errors=True)


def run(ctx):
    os.environ["VERIF_C20_TIER"] = ctx.tier
    scs = scenarios()
    items = [(i, s["name"]) for i, s in enumerate(scs)]
    if getattr(ctx, "only", None):
        items = [it for it in items if ctx.only in it[1]]
    from orquestra.quantum.circuits import _circuit as CI, _gates as G
    from orquestra.quantum.operators import _pauli_operators as PO, _io as IO
    from orquestra.quantum import operators as OP
    from orquestra.quantum.measurements import measurements as MM
    from orquestra.quantum.distributions import _measurement_outcome_distribution as MD
    from orquestra.quantum import wavefunction as WF

    try:  # evidence only: a renamed private helper must not break the check
        ctx.fn(
            CI.Circuit.__add__, CI.Circuit.bind, CI.Circuit.inverse, CI.Circuit.controlled, CI.Circuit.to_unitary, G.GateOperation.apply,
            G.GateOperation.bind, G.GateOperation.replace_params, PO.PauliSum.__add__, PO.PauliSum.__mul__, PO.PauliSum.simplify, PO.PauliTerm.__mul__, PO.PauliTerm.copy,
            IO.convert_op_to_dict, OP.hermitian_conjugated, OP.reverse_qubit_order, OP.is_hermitian, MM.Measurements.get_counts, MM.Measurements.get_distribution,
            MM.Measurements.get_expectation_values, MM.Measurements.from_counts, MM.get_expectation_value_from_frequencies, MD.MeasurementOutcomeDistribution.__init__,
            MD.MeasurementOutcomeDistribution.subdistribution, MD.normalize_measurement_outcome_distribution, WF.Wavefunction.get_probabilities, WF.Wavefunction.get_outcome_probs,
        )
    except AttributeError:
        pass
    ctx.bounds = {
        "operations": f"{len(scs)} scenarios: operator + - * / ** == simplify conjugate reverse to-dict strings on 3 receiver shapes x 2 argument shapes; measurements get_counts / get_distribution / get_expectation_values (both denominators) / from_counts / expectation from frequencies; distribution constructor (tuple and string keys, unnormalised), subdistribution, three distances, evaluate_distribution_distance; wavefunction probability views; 16 circuit/gate operations",
        "values": "every operator coefficient, count, weight and amplitude symbolic (bounds as in C03/C10/C17/C12); circuits carry sympy symbols and a generic symbolic gate",
        "histories": "each operation is called twice on the same shared objects; snapshots before, between and after",
        "ground": ", ".join(GROUND_NAMES),
    }
    ctx.assume("caches filled lazily (PauliTerm._circuit, PauliSum._circuits/_is_ising) are not observable state", "floats exact reals in E2 scenarios", "raising paths are not examined")
    for it, out in pmap(work, items):
        ctx.merge(out)
    if not getattr(ctx, "only", None):
        for it, out in pmap(_w_represent, REPRESENT if ctx.tier == "thorough" else REPRESENT[:1]):
            ctx.merge(out)
        for it, out in pmap(_w_ground, GROUND_NAMES):
            ctx.merge(out)
    ctx.extra["explanation"] = (
        "Each listed operation is executed twice on shared argument objects with symbolic leaves; deep snapshots taken before, between and after are compared "
        "structurally and, for symbolic leaves, by z3 under the path condition on every feasible path of the real code."
    )


def replay(data):
    install_numpy_sympy_shim()
    inp = data["inputs"]
    try:
        if "ground" in inp:
            bad = ground_bad(inp["ground"])
            return bool(bad), bad or "ok"
        if "represent" in inp:
            d = _w_represent(inp["represent"])
            c = d["candidates"]
            return bool(c), (c[0]["what"] if c else "no violation on re-execution")
        # re-execute the scenario symbolically: a mutation is structural or tied to a path; re-running the same
        # harness against the real code is the faithful reproduction
        os.environ["VERIF_C20_TIER"] = "thorough"
        sc = [s for s in scenarios() if s["name"] == inp["scenario"]]
        if not sc:
            return False, "unknown scenario"
        r = Result("replay")
        with warnings.catch_warnings():
            warnings.simplefilter("ignore")
            _run_scenario(r, sc[0])
        c = [c for c in r.d["candidates"] if c["clause"] == inp["clause"]]
        return bool(c), (c[0]["what"] if c else "no violation on re-execution")
    except Exception:
        import traceback

        return False, "replay raised: " + traceback.format_exc()[-600:]
