"""C01 - a circuit acts as the ordered product of its gates on the named qubits.

E1: generic symbolic gates (every matrix entry r+is a pair of real unknowns), built-in
parametric gates (angles as circle points) and constant gates are pushed through the REAL
lifted_matrix / to_unitary / apply / simulators; the verifier-side bit-level embedding is the
oracle; identities decided by z3 for all values of the unknowns.
"""
import itertools
import json
import random

import numpy as np
import sympy

from ..core import Result, pmap
from ..front import install_numpy_sympy_shim, mmul, meye, embed, mkron, Refuse
from ..solve import Prover, first_violation
from .. import circ as CS

LEVEL = "model_checking"
I = sympy.I


def gen_state(N):
    return np.array([sympy.Symbol(f"a{i}") + I * sympy.Symbol(f"b{i}") for i in range(N)], dtype=object)


FIXED_STATE = {
    2: [0.6, 0.8j],
    4: [0.5, 0.5j, -0.5, 0.5],
    8: [0.5, 0.25, 0.25j, -0.25, 0.5j, 0.25, -0.25j, 0.5],
}


def fixed_state(N):
    v = np.array(FIXED_STATE[N], dtype=complex)
    return v / np.sqrt((abs(v) ** 2).sum())


def mat_delta(A, X, Y, tag=""):
    out = []
    for i in range(len(X)):
        for j in range(len(X[0])):
            out.append((f"{tag}[{i},{j}]", A.sub(X[i][j], Y[i][j])))
    return out


def oracle_unitary(F, ops, n):
    from orquestra.quantum.circuits import MultiPhaseOperation

    ck = ("oracle", n, tuple(id(o) for o in ops))
    if ck in F.cache:
        return F.cache[ck]
    F.cache[ck] = r = _oracle_unitary(F, ops, n)
    return r


def _oracle_unitary(F, ops, n):
    from orquestra.quantum.circuits import MultiPhaseOperation

    A = F.alg
    U = meye(A, 1 << n)
    for op in ops:
        if isinstance(op, MultiPhaseOperation):
            E = [[A.zero] * (1 << n) for _ in range(1 << n)]
            for k, p in enumerate(op.params):
                E[k][k] = F.t(sympy.exp(I * sympy.Float(float(p))))
        else:
            E = embed(A, F.mat(op.gate.matrix), list(op.qubit_indices), n)
        U = mmul(A, E, U)
    return U


def _want_state(F, c, n, psi):
    ck = ("want_state", id(c))
    if ck not in F.cache:
        F.cache[ck] = mmul(F.alg, oracle_unitary(F, c.operations, n), F.mat(psi))
    return F.cache[ck]


def make_sim(variant):
    """Base-class simulator whose native set is chosen by `variant`; the native hook applies ops
    through the real `apply` and insists on receiving only native ops on a full-width circuit."""
    from orquestra.quantum.api.wavefunction_simulator import BaseWavefunctionSimulator
    from orquestra.quantum.circuits import GateOperation
    from orquestra.quantum.runners.symbolic_simulator import SymbolicSimulator

    if variant == "symbolic":
        return SymbolicSimulator()

    def pred(op):
        if variant == "default":
            return isinstance(op, GateOperation)
        if variant == "none":
            return False
        if variant == "oneq":
            return isinstance(op, GateOperation) and len(op.qubit_indices) == 1
        if variant == "multiq":
            return isinstance(op, GateOperation) and len(op.qubit_indices) > 1
        if variant == "firstq0":
            return isinstance(op, GateOperation) and op.qubit_indices[0] == 0
        raise ValueError(variant)

    class Sim(BaseWavefunctionSimulator):
        def __init__(self):
            super().__init__()
            self.width_seen = []

        def is_natively_supported(self, op):
            return pred(op)

        def _get_wavefunction_from_native_circuit(self, circuit, initial_state):
            self.width_seen.append(circuit.n_qubits)
            state = initial_state
            for op in circuit.operations:
                if not pred(op):
                    raise AssertionError("non-native operation handed to the native hook")
                state = op.apply(state)
            return state

    return Sim()


VARIANTS = ["symbolic", "default", "none", "oneq", "multiq", "firstq0"]


def _cand(res, clause, what, payload, witness, sub):
    inp = dict(payload)
    inp["values"] = witness
    inp["clause"] = clause
    res.candidate(clause, what, inp, sub=sub)


def work(item):
    install_numpy_sympy_shim()
    kind, payload = item
    key = f"{kind}|" + (payload.get("label") or json.dumps(payload, sort_keys=True))
    res = Result(key)
    try:
        if kind == "lift":
            _work_lift(res, payload)
        elif kind == "circ":
            _work_circ(res, payload)
        elif kind == "mpo":
            _work_mpo(res, payload)
        elif kind == "add":
            _work_add(res, payload)
        elif kind == "wide":
            _work_wide(res, payload)
    except Refuse as e:
        res.ob(1)
        res.inconc(f"translation refused: {e}")
    return res.as_dict()


def _decide(res, P, name, build, clause, what, payload):
    results = P.prove_zero(name, build, clause, sub=clause)
    fv = first_violation(results)
    if fv:
        _cand(res, clause, f"{what} (entry {fv[0]})", payload, fv[1], clause)
    return results



# ---------------------------------------------------------------------------
# numeric twin: the same operations on NUMERIC numpy state vectors (the branch a symbolic run cannot take). Ground.

NUM_VALUES = {"th0": 0.75, "th1": -1.25, "th2": 0.5, "th3": 2.0}


def _num_value(name):
    """deterministic dyadic value for any symbol name (angles from the table, generic entries by a small hash)"""
    if name in NUM_VALUES:
        return NUM_VALUES[name]
    import zlib

    return ((zlib.crc32(name.encode()) % 33) - 16) / 16.0


def _num_states(N, normalised=False):
    """basis vectors (complex and float dtype), one dense complex vector, one dense real vector"""
    out = []
    for j in range(N):
        e = np.zeros(N, dtype=complex)
        e[j] = 1.0
        out.append((f"e{j}", e))
    e = np.zeros(N, dtype=float)
    e[N - 1] = 1.0
    out.append((f"e{N - 1}:float", e))
    dense = np.array([(j + 1) / 7.0 + 1j * ((j * j) % 5 - 2) / 3.0 for j in range(N)], dtype=complex)
    real = np.array([((3 * j + 1) % 7 - 3) / 4.0 or 0.5 for j in range(N)], dtype=float)
    if normalised:
        dense, real = dense / np.linalg.norm(dense), real / np.linalg.norm(real)
    out += [("dense", dense), ("dense:float", real)]
    return out


def _num_bad(got, want):
    got, want = np.asarray(got, dtype=complex).reshape(-1), np.asarray(want, dtype=complex).reshape(-1)
    if got.shape != want.shape:
        return f"shape {got.shape} vs {want.shape}"
    d = float(np.abs(got - want).max())
    return None if d <= 1e-9 * (1 + float(np.abs(want).max())) else f"max|delta|={d:.3g}"


def _numeric_lift_bad(gid, idx, n):
    op = CS.gate_by_id(gid)(*idx)
    if op.gate.free_symbols:
        op = op.bind({s: _num_value(str(s)) for s in op.gate.free_symbols})
    E = CS.np_embed(CS.np_matrix(op.gate.matrix, {}), list(idx), n)
    for tag, v in _num_states(1 << n):
        bad = _num_bad(op.apply(v.copy()), E @ v)
        if bad:
            return f"state {tag}: {bad}"
    return None


def _numeric_circ_bad(specs, n, variants, light):
    c = CS.circuit_from_spec(specs, n)
    if c.free_symbols:
        c = c.bind({s: _num_value(str(s)) for s in c.free_symbols})
    O = CS.np_oracle_unitary(c.operations, n, {})
    if c.operations:
        bad = _num_bad(np.asarray(CS.np_matrix(c.to_unitary(), {})), O)
        if bad:
            return f"to_unitary with numeric parameters: {bad}"
    for tag, v in _num_states(1 << n, normalised=True):
        st = v.copy()
        for op in c.operations:
            st = op.apply(st)
        bad = _num_bad(st, O @ v)
        if bad:
            return f"sequential apply on numeric state {tag}: {bad}"
    if not light or np.abs(O.conj().T @ O - np.eye(1 << n)).max() > 1e-9:
        return None  # simulators insist on normalised states: only unitary circuits go through them here
    for variant in variants or ["symbolic"]:
        for tag, v in _num_states(1 << n, normalised=True):
            if tag.startswith("e") and tag not in ("e0", f"e{(1 << n) - 1}"):
                continue
            wf = make_sim(variant).get_wavefunction(c, v.copy())
            bad = _num_bad(wf.amplitudes, O @ v)
            if bad:
                return f"simulator[{variant}] on numeric state {tag}: {bad}"
        wf = make_sim(variant).get_wavefunction(c)
        bad = _num_bad(wf.amplitudes, O[:, 0])
        if bad:
            return f"simulator[{variant}] from the default initial state: {bad}"
    return None


def _tensor_apply(M, idx, n, v):
    """Oracle for wide registers that never builds a 2^n x 2^n matrix: the state is a tensor with one axis per qubit
    (axis q = qubit q, qubit 0 most significant), the gate a tensor with k output and k input axes in the gate's OWN qubit
    order; the contraction is written with explicit index labels (einsum), no axis arithmetic."""
    k = len(idx)
    T = np.asarray(v, dtype=complex).reshape((2,) * n)
    G = np.asarray(M, dtype=complex).reshape((2,) * (2 * k))
    outs, ins = list(range(n, n + k)), [idx[j] for j in range(k)]
    res_axes = list(range(n))
    for j, q in enumerate(idx):
        res_axes[q] = outs[j]
    return np.einsum(G, outs + ins, T, list(range(n)), res_axes).reshape(-1)


def _wide_states(n):
    N = 1 << n
    e0 = np.zeros(N, dtype=complex)
    e0[0] = 1.0
    el = np.zeros(N, dtype=complex)
    el[(N // 3) | 1] = 1.0
    j = np.arange(N)
    dense = ((j * 37 + 11) % 101 - 50) / 64.0 + 1j * ((j * 53 + 7) % 89 - 44) / 64.0
    dense = dense / np.linalg.norm(dense)
    return [("e0", e0), (f"e{(N // 3) | 1}", el), ("dense", dense)]


def _wide_bad(specs, n, variants):
    """registers wider than a byte of qubits: every operation alone (apply) and the circuit (sequential apply, simulators)
    against the tensor oracle; the self-check first pins the oracle to the bit-level embedding on a small register."""
    Mk = CS.np_matrix(CS.gate_by_id("K3").matrix, {})
    chk = np.array([(3 * i + 1) % 7 - 3 + 1j * (i % 3) for i in range(32)], dtype=complex)
    if np.abs(_tensor_apply(Mk, (4, 0, 2), 5, chk) - CS.np_embed(Mk, [4, 0, 2], 5) @ chk).max() > 1e-12:
        raise AssertionError("tensor oracle disagrees with the bit-level embedding")
    c = CS.circuit_from_spec(specs, n)
    if c.free_symbols:
        c = c.bind({s: _num_value(str(s)) for s in c.free_symbols})
    from orquestra.quantum.circuits import MultiPhaseOperation

    def oracle_step(op, v):
        if isinstance(op, MultiPhaseOperation):
            return np.exp(1j * np.array([float(x) for x in op.params])) * v
        return _tensor_apply(CS.np_matrix(op.gate.matrix, {}), tuple(op.qubit_indices), n, v)

    for tag, v in _wide_states(n):
        want = v
        st = v.copy()
        for op in c.operations:
            one = op.apply(want.copy())
            want = oracle_step(op, want)
            bad = _num_bad(one, want)
            if bad:
                return f"{op}.apply on numeric state {tag} (n={n}): {bad}"
            st = op.apply(st)
        bad = _num_bad(st, want)
        if bad:
            return f"sequential apply on numeric state {tag} (n={n}): {bad}"
        for variant in variants:
            wf = make_sim(variant).get_wavefunction(c, v.copy())
            bad = _num_bad(wf.amplitudes, want)
            if bad:
                return f"simulator[{variant}] on numeric state {tag} (n={n}): {bad}"
    return None


def _work_wide(res, p):
    res.d["ground_instances"] += 1
    res.d["instances"] -= 1
    specs = [tuple(s) for s in p["specs"]]
    res.sample({"circuit": p["label"], "n": p["n"], "free_symbols": 0})
    _ground_clause(res, "wide-register-run", _wide_bad(specs, p["n"], p.get("variants", [])), f"[{p['label']}] numeric state vectors", p)
    res.d["ground_instances"] -= 1  # counted once (by _ground_clause)


def _ground_clause(res, clause, bad, what, payload):
    res.d["ground_instances"] += 1
    res.ob(1)
    if bad:
        _cand(res, clause, f"{what}: {bad}", payload, {}, clause)
    else:
        res.ob(0, 1, "ground-numeric")


def _work_lift(res, p):
    from orquestra.quantum.circuits import _gates as G, _unitary_tools as UT

    n, gid, idx = p["n"], p["gid"], tuple(p["idx"])
    try:  # evidence only: a renamed private helper must not break the check
        res.fn(G.GateOperation.lifted_matrix, G.GateOperation.apply, UT._lift_matrix, UT._permutation_matrix, UT._lift_matrix_numpy, UT._lift_matrix_sympy)
    except AttributeError:
        pass
    op = CS.gate_by_id(gid)(*idx)
    symbolic = bool(op.gate.free_symbols)
    if not symbolic:
        res.d["ground_instances"] += 1
        res.d["instances"] -= 1
    else:
        res.nontrivial()
    P = Prover(res)
    Lm = op.lifted_matrix(n)
    Mg = op.gate.matrix

    def b_lift(F):
        return mat_delta(F.alg, F.mat(Lm), embed(F.alg, F.mat(Mg), list(idx), n))

    _decide(res, P, "lift", b_lift, "lifted_matrix", f"lifted_matrix of {gid} on {idx} in {n} qubits differs from the embedding", p)
    psi = gen_state(1 << n)
    out = op.apply(psi)

    def b_apply(F):
        A = F.alg
        E = embed(A, F.mat(Mg), list(idx), n)
        want = mmul(A, E, F.mat(psi))
        return mat_delta(A, F.mat(out), want)

    _decide(res, P, "apply", b_apply, "apply", f"{gid}{idx}.apply(state) differs from embedded matrix times state", p)
    res.sample({"lift": gid, "qubits": list(idx), "n": n, "symbolic": symbolic})
    if not symbolic or gid in ("G1", "G2") or gid.startswith("SG"):
        _ground_clause(res, "apply-numeric-state", _numeric_lift_bad(gid, idx, n), f"{gid}{idx}.apply on a numeric state vector (n={n}) differs from embedded matrix times state", p)
    if symbolic:
        # vacuity twin: dropping the permutation (placing the gate on sorted indices) must differ
        if list(idx) != sorted(idx):
            res.d["vacuity_twins"] += 1

            def b_twin(F):
                return mat_delta(F.alg, F.mat(Lm), embed(F.alg, F.mat(Mg), sorted(idx), n))

            P2 = Prover(res)
            if first_violation(P2.prove_zero("twin", b_twin, "twin", expect_violation=True)):
                res.d["vacuity_ok"] += 1
            else:
                res.herr("vacuity twin (sorted indices oracle) was not refuted")


def _work_circ(res, p):
    from orquestra.quantum.circuits import _circuit as CM, _gates as G
    from orquestra.quantum.api import wavefunction_simulator as WS
    from orquestra.quantum.runners import symbolic_simulator as SSim

    n, specs = p["n"], [tuple(s) for s in p["specs"]]
    try:  # evidence only: a renamed private helper must not break the check
        res.fn(CM.Circuit.to_unitary, CM.split_circuit, G.GateOperation.apply, WS.BaseWavefunctionSimulator.get_wavefunction, SSim.SymbolicSimulator._get_wavefunction_from_native_circuit)
    except AttributeError:
        pass
    c = CS.circuit_from_spec(specs, n)
    if c.n_qubits != n:
        res.ob(1)
        _cand(res, "width", f"Circuit(n_qubits={n}).n_qubits == {c.n_qubits}", p, {}, "width")
        return
    if p.get("numeric_only"):
        # constants the front end has no exact form for (matrix exponentials): numeric run only, a ground instance
        res.d["ground_instances"] += 1
        res.d["instances"] -= 1
        res.sample({"circuit": CS.spec_str(specs), "n": n, "free_symbols": 0})
        _ground_clause(res, "numeric-run", _numeric_circ_bad(specs, n, p.get("variants", []), bool(p.get("light"))), f"[{CS.spec_str(specs)}] with every parameter a number, on numeric state vectors", p)
        return
    symbolic = bool(c.free_symbols)
    if symbolic:
        res.nontrivial()
    else:
        res.d["ground_instances"] += 1
        res.d["instances"] -= 1
    P = Prover(res)
    U = c.to_unitary()

    def b_unitary(F):
        return mat_delta(F.alg, F.mat(U), oracle_unitary(F, c.operations, n))

    _decide(res, P, "to_unitary", b_unitary, "to_unitary", f"to_unitary of [{CS.spec_str(specs)}] differs from the ordered product of embedded gates", p)
    psi = gen_state(1 << n)
    # operations applied one at a time
    st = psi
    for op in c.operations:
        st = op.apply(st)

    def b_seq(F):
        A = F.alg
        return mat_delta(A, F.mat(st), _want_state(F, c, n, psi))

    _decide(res, P, "sequential-apply", b_seq, "sequential-apply", f"applying ops of [{CS.spec_str(specs)}] one at a time differs from U*psi", p)
    for variant in p.get("variants", []):
        sim = make_sim(variant)
        try:
            wf = sim.get_wavefunction(c, psi)
            amp = wf.amplitudes
        except Exception as e:
            res.ob(1)
            pp = dict(p, variant=variant)
            _cand(res, "simulator:" + variant, f"simulator[{variant}].get_wavefunction raised {type(e).__name__}: {e}", pp, {}, "simulator:" + variant)
            continue
        widths = getattr(sim, "width_seen", [])
        res.ob(1)
        if any(w != n for w in widths):
            _cand(res, "split-width:" + variant, f"native hook received sub-circuits of width {widths}, register is {n}", dict(p, variant=variant), {}, "split-width:" + variant)
        else:
            res.ob(0, 1, "concrete-structure")

        def b_sim(F, amp=amp):
            A = F.alg
            return mat_delta(A, F.mat(amp), _want_state(F, c, n, psi))

        _decide(res, P, "simulator:" + variant, b_sim, "simulator:" + variant, f"simulator[{variant}].get_wavefunction([{CS.spec_str(specs)}], psi) differs from U*psi", dict(p, variant=variant))
    res.sample({"circuit": CS.spec_str(specs), "n": n, "free_symbols": len(c.free_symbols)})
    _ground_clause(res, "numeric-run", _numeric_circ_bad(specs, n, p.get("variants", []), bool(p.get("light"))), f"[{CS.spec_str(specs)}] with every parameter a number, on numeric state vectors", p)
    # vacuity twin: reversed order must differ for a non-commuting pair
    if p.get("twin"):
        res.d["vacuity_twins"] += 1

        def b_twin(F):
            return mat_delta(F.alg, F.mat(U), oracle_unitary(F, list(reversed(c.operations)), n))

        P2 = Prover(res)
        if first_violation(P2.prove_zero("twin", b_twin, "twin", expect_violation=True)):
            res.d["vacuity_ok"] += 1
        else:
            res.herr("vacuity twin (reversed-order oracle) was not refuted")


def _work_mpo(res, p):
    from orquestra.quantum.circuits import _wavefunction_operations as WO
    from orquestra.quantum.api import wavefunction_simulator as WS

    n, specs = p["n"], [tuple(s) for s in p["specs"]]
    try:  # evidence only: a renamed private helper must not break the check
        res.fn(WO.MultiPhaseOperation.apply, WS.BaseWavefunctionSimulator.get_wavefunction)
    except AttributeError:
        pass
    c = CS.circuit_from_spec(specs, n)
    res.nontrivial()
    P = Prover(res)
    init = None if p.get("init") == "zero" else fixed_state(1 << n)
    for variant in p.get("variants", ["symbolic", "default", "none"]):
        sim = make_sim(variant)
        try:
            wf = sim.get_wavefunction(c, init)
            amp = wf.amplitudes
        except Exception as e:
            res.ob(1)
            _cand(res, "mpo-simulator:" + variant, f"simulator[{variant}].get_wavefunction raised {type(e).__name__}: {e}", dict(p, variant=variant), {}, "mpo-simulator:" + variant)
            continue
        amp_list = list(np.array(amp, dtype=object).reshape(-1)) if not isinstance(amp, sympy.MatrixBase) else list(amp)
        res.ob(1)
        if len(amp_list) != (1 << n):
            _cand(res, "mpo-simulator:" + variant, f"state has {len(amp_list)} amplitudes, expected {1 << n}", dict(p, variant=variant), {}, "mpo-shape:" + variant)
            continue
        res.ob(0, 1, "concrete-structure")

        def b_sim(F, amp_list=amp_list):
            A = F.alg
            N = 1 << n
            if init is None:
                psi = [[A.one if i == 0 else A.zero] for i in range(N)]
            else:
                psi = [[F.t(complex(x))] for x in init]
            want = mmul(A, oracle_unitary(F, c.operations, n), psi)
            got = [[F.t(x)] for x in amp_list]
            return mat_delta(A, got, want)

        _decide(res, P, "mpo-simulator:" + variant, b_sim, "mpo-simulator:" + variant, f"simulator[{variant}] on [{CS.spec_str(specs)}] differs from the ordered product with diagonal phases", dict(p, variant=variant))
    res.sample({"circuit_with_phases": CS.spec_str(specs), "n": n, "init": p.get("init")})


def _work_add(res, p):
    from orquestra.quantum.circuits import _circuit as CM

    try:  # evidence only: a renamed private helper must not break the check
        res.fn(CM.Circuit.__add__, CM._append_operation, CM._append_circuit)
    except AttributeError:
        pass
    s1, n1, s2, n2 = [tuple(s) for s in p["s1"]], p["n1"], [tuple(s) for s in p["s2"]], p["n2"]
    c1 = CS.circuit_from_spec(s1, n1)
    res.nontrivial()
    P = Prover(res)
    if p.get("op"):
        other = CS.op_from_spec(s2[0])
        want_n = max(c1.n_qubits, max(other.qubit_indices) + 1)
        ops2 = [other]
    else:
        other = CS.circuit_from_spec(s2, n2)
        want_n = max(c1.n_qubits, other.n_qubits)
        ops2 = list(other.operations)
    before1, before2 = list(c1.operations), list(ops2)
    s = c1 + other
    res.ob(1)
    if s.n_qubits != want_n or list(s.operations) != before1 + before2 or list(c1.operations) != before1:
        _cand(res, "concat-structure", f"(c1+c2): n_qubits={s.n_qubits} (want {want_n}) or operations not the concatenation", p, {}, "concat-structure")
        return
    res.ob(0, 1, "concrete-structure")
    U = s.to_unitary()
    n = want_n

    def b(F):
        A = F.alg
        # compose actions: each part acts on its own (lower-indexed) qubits, identity on the rest
        U1 = oracle_unitary(F, before1, n)
        U2 = oracle_unitary(F, before2, n)
        return mat_delta(A, F.mat(U), mmul(A, U2, U1))

    _decide(res, P, "concat", b, "concat-unitary", f"(c1+c2).to_unitary differs from U2*U1 on {n} qubits", p)
    res.sample({"concat": [CS.spec_str(s1), CS.spec_str(s2)], "n": [n1, n2]})


# ---------------------------------------------------------------------------
# instance enumeration


def _pool(n, with_g3):
    pool = []
    for q in range(n):
        pool += [("G1", (q,)), ("H", (q,)), ("RZ(th0)", (q,)), ("T", (q,)), ("RY(th1)", (q,))]
    for a, b in itertools.permutations(range(n), 2):
        pool += [("G2", (a, b)), ("CNOT", (a, b)), ("SWAP", (a, b)), ("ISWAP", (a, b)), ("K2", (a, b)), ("XX(th2)", (a, b)), ("CZ", (a, b)), ("D2", (a, b)), ("RZ(0.75)|c1", (a, b))]
    if with_g3 and n >= 3:
        for t in itertools.permutations(range(n), 3):
            pool += [("G3", t)]
    return pool


def instances(tier, seed):
    rng = random.Random(seed * 7919 + 11)
    items = []
    # 1. lifts: every ordered tuple of distinct indices, generic gates of arity 1..3, n <= 4
    for n in range(1, 5):
        for k in range(1, min(n, 3) + 1):
            for idx in itertools.permutations(range(n), k):
                if tier == "quick" and n == 4 and k == 3 and rng.random() < 0.5:
                    continue
                items.append(("lift", {"n": n, "gid": f"G{k}", "idx": list(idx), "label": f"G{k}{idx} n={n}"}))
    # numpy lifting path with constant asymmetric gates (ground)
    for n in range(1, 5):
        for k in range(1, min(n, 3) + 1):
            for idx in itertools.permutations(range(n), k):
                if tier == "quick" and rng.random() < 0.6:
                    continue
                items.append(("lift", {"n": n, "gid": f"K{k}", "idx": list(idx), "label": f"K{k}{idx} n={n}"}))
    # ... and with constant DIAGONAL / MONOMIAL gates and numeric controlled rotations (shapes a numeric fast path singles out)
    for n in range(2, 5):
        for k in range(2, min(n, 3) + 1):
            for idx in itertools.permutations(range(n), k):
                if tier == "quick" and rng.random() < (0.5 if n < 4 else 0.8):
                    continue
                for fam in ("D", "P"):
                    items.append(("lift", {"n": n, "gid": f"{fam}{k}", "idx": list(idx), "label": f"{fam}{k}{idx} n={n}"}))
    for gid in ("RZ(0.75)|c1", "PHASE(0.5)|c2", "T|c1", "RZ(-1.25)|c2", "RY(0.75)|c1"):
        k = 3 if gid.endswith("c2") else 2
        for n in (k, k + 1):
            for idx in itertools.permutations(range(n), k):
                if tier == "quick" and rng.random() < 0.6:
                    continue
                items.append(("lift", {"n": n, "gid": gid, "idx": list(idx), "label": f"{gid}{idx} n={n}"}))
    # arity 4: sparse generic gate (symbolic) and constant controlled gates (numpy path) on permuted tuples
    perms4 = list(itertools.permutations(range(4)))
    chosen = perms4 if tier == "thorough" else [(0, 1, 2, 3), (0, 2, 1, 3), (3, 1, 0, 2), (2, 3, 1, 0), (1, 0, 3, 2)] + rng.sample(perms4, 3)
    for idx in chosen:
        items.append(("lift", {"n": 4, "gid": "SG4", "idx": list(idx), "label": f"SG4{idx} n=4"}))
    for idx in ([(1, 3, 2, 4), (4, 0, 2, 1)] if tier == "quick" else [(1, 3, 2, 4), (4, 0, 2, 1), (0, 2, 3, 4), (3, 4, 1, 0)]):
        items.append(("lift", {"n": 5, "gid": "SG4", "idx": list(idx), "label": f"SG4{idx} n=5"}))
    for gid in ("SWAP|c2", "K2|c2", "K1|c3"):
        for idx in ([(0, 2, 1, 3), (2, 0, 3, 1)] if tier == "quick" else perms4[::3]):
            items.append(("lift", {"n": 4, "gid": gid, "idx": list(idx), "label": f"{gid}{idx} n=4"}))
    # 2. circuits
    fixed = [
        (3, [("G1", (0,)), ("CNOT", (0, 2)), ("G2", (2, 1))], True),
        (3, [("G2", (2, 0)), ("K2", (1, 2)), ("G1", (1,))], True),
        (3, [("G3", (2, 0, 1)), ("SWAP", (0, 2))], True),
        (3, [("H", (0,)), ("RZ(th0)", (2,)), ("ISWAP", (2, 0))], True),
        (4, [("G2", (3, 1)), ("G1", (0,))], False),
        (2, [("G1", (1,))], False),
        (3, [("RY(th1)", (1,)), ("XX(th2)", (0, 2)), ("G1", (2,))], True),
        # look-alikes inside ONE circuit: operations that share gate name, parameters and qubit tuple (or all but one of
        # them) and are nevertheless different operations - wrappers report the wrapper's name, not the wrapped gate's
        (2, [("X|c1", (0, 1)), ("Z|c1", (0, 1)), ("RY(th1)", (0,))], False),
        (2, [("RX(th0)|c1", (0, 1)), ("RY(th0)|c1", (0, 1))], False),
        (3, [("H|c1", (2, 0)), ("RZ(th0)", (1,)), ("T|c1", (2, 0)), ("T|c1", (0, 2))], False),
        (1, [("X|exp", (0,)), ("H", (0,)), ("Z|exp", (0,))], False),
        (2, [("X|exp|c1", (1, 0)), ("Y|exp|c1", (1, 0)), ("H", (1,))], False),
        (2, [("RZ(th0)", (0,)), ("RZ(th1)", (0,)), ("RZ(th0)", (1,)), ("K2", (0, 1)), ("K2", (1, 0)), ("K2", (0, 1))], False),
        (2, [("S|dagger", (0,)), ("T|dagger", (0,)), ("H", (0,)), ("S|pow(2)", (1,)), ("T|pow(2)", (1,))], False),
    ]
    for n, specs, twin in fixed:
        heavy = any(g in ("G2", "G3") for g, _ in specs)
        items.append(("circ", {"n": n, "specs": [list(map(_l, s)) for s in specs], "variants": [] if heavy else VARIANTS, "twin": twin, "numeric_only": any("|exp" in g for g, _ in specs), "label": f"n={n} {CS.spec_str(specs)}"}))
    ncirc = 24 if tier == "quick" else 160
    for _ in range(ncirc):
        n = rng.choice([2, 3, 3, 3]) if tier == "quick" else rng.choice([2, 3, 3, 3, 4])
        pool = _pool(n, with_g3=(n == 3))
        L = rng.choice([1, 2, 2, 3, 3])
        specs = [rng.choice(pool) for _ in range(L)]
        if n == 4:
            specs = [s for s in specs if s[0] not in ("G3",)][:2] or [("G1", (3,))]
        if sum(s[0] == "G3" for s in specs) > 1:
            specs = [s for i, s in enumerate(specs) if s[0] != "G3" or i == [t[0] for t in specs].index("G3")]
        nq = n if rng.random() < 0.7 else None
        if nq is None:
            n = max(q for _, qs in specs for q in qs) + 1
        items.append(("circ", {"n": n, "specs": [list(map(_l, s)) for s in specs], "variants": [], "twin": False, "label": f"n={n} {CS.spec_str(specs)}"}))
    # 2b. simulators: light gates (parametric / constant / one generic 1-qubit gate), generic state
    nsim = 16 if tier == "quick" else 120
    for j in range(nsim):
        n = rng.choice([1, 2, 2, 3, 3])
        lp = []
        for q in range(n):
            lp += [("H", (q,)), ("RZ(th0)", (q,)), ("T", (q,)), ("RY(th1)", (q,)), ("RX(th3)", (q,))]
        for a, b in itertools.permutations(range(n), 2):
            lp += [("CNOT", (a, b)), ("SWAP", (a, b)), ("ISWAP", (a, b)), ("K2", (a, b)), ("XX(th2)", (a, b)), ("CZ", (a, b)), ("D2", (a, b)), ("P2", (a, b)), ("RZ(0.75)|c1", (a, b)), ("PHASE(0.5)|c1", (a, b))]
        specs = [rng.choice(lp) for _ in range(rng.choice([2, 3, 3, 4]))]
        specs.append(("RY(th1)", (n - 1,)))
        vs = VARIANTS if tier == "thorough" else ["symbolic"] + rng.sample(VARIANTS[1:], 3)
        items.append(("circ", {"n": n, "specs": [list(map(_l, s)) for s in specs], "variants": vs, "twin": False, "light": True, "label": f"sim n={n} {CS.spec_str(specs)} #{j}"}))
    # 2c. custom gates that RE-USE a gate name (and parameter values) with a different matrix: inside one circuit, and from one
    # circuit to the next on the same qubits and width (neighbouring instances go to the same worker: a process-wide memo keyed by
    # what an operation looks like shows up here, or in the history replay)
    same_name = [
        (1, [("UA", (0,)), ("UB", (0,)), ("UC", (0,))]),
        (2, [("UB", (1,)), ("CNOT", (0, 1)), ("UC", (1,)), ("UA", (1,))]),
        (2, [("VA(0.5)", (0,)), ("VB(0.5)", (0,)), ("RY(th1)", (1,))]),
        (1, [("UA", (0,))]), (1, [("UB", (0,))]), (1, [("UC", (0,))]),
        (2, [("VB(0.75)", (1,)), ("H", (0,))]), (2, [("VA(0.75)", (1,)), ("H", (0,))]),
        (2, [("UC|c1", (0, 1))]), (2, [("UA|c1", (0, 1))]),
    ]
    for n, specs in same_name:
        items.append(("circ", {"n": n, "specs": [list(map(_l, s)) for s in specs], "variants": ["symbolic", "default", "none"], "twin": False, "light": True, "label": f"same-name n={n} {CS.spec_str(specs)}"}))
    # 2d. registers wider than 8 qubits (numeric; ground): gates of arity 1..4 on index tuples in every cyclic / inverted order
    # reaching across the register, alone and in circuits with phase-only operations interleaved
    wide_n = [9] if tier == "quick" else [9, 10]
    for n in wide_n:
        hi = n - 1
        t3 = list(itertools.permutations((1, 4, hi)))
        t4 = [(0, 3, 5, hi), (hi, 5, 3, 0), (3, hi, 0, 5), (5, 0, hi, 3), (hi, 0, 3, 5), (3, 5, hi, 0)] if tier == "quick" else list(itertools.permutations((0, 3, 5, hi)))
        for t in t3:
            items.append(("wide", {"n": n, "specs": [["K3", list(t)]], "variants": [], "label": f"wide n={n} K3{t}"}))
        for t in t4:
            items.append(("wide", {"n": n, "specs": [["K2|c2", list(t)]], "variants": [], "label": f"wide n={n} K2|c2{t}"}))
        items.append(("wide", {"n": n, "specs": [["K2", [hi, 0]], ["K1", [hi]], ["D2", [2, hi]], ["P3", [hi, 2, 0]], ["K2", [3, hi - 1]]], "variants": [], "label": f"wide n={n} circuit K (apply only)"}))
        items.append(("wide", {"n": n, "specs": [["RY(0.75)|c2", [hi, 0, 4]], ["T", [hi]], ["CPHASE(0.5)", [2, hi]], ["ISWAP|c1", [hi, 2, 0]], ["RY(0.75)|c1", [hi, 1]]], "variants": ["symbolic", "oneq"], "label": f"wide n={n} circuit A"}))
        items.append(("wide", {"n": n, "specs": [["U3(0.4,1.1,-0.3)|c2", [hi - 1, 0, hi]], ["MPO(" + ",".join(str(0.25 * ((3 * i + 1) % 7) - 0.5) for i in range(1 << n)) + ")", []], ["RX(0.5)|c2", [4, hi, 1]], ["H", [hi]]], "variants": ["default", "multiq"], "label": f"wide n={n} circuit B (phase layer)"}))
    # 3. phase-only operations interleaved (angles symbolic, phases concrete)
    def ph(N, k):
        return "MPO(" + ",".join(str(0.25 * ((3 * i + k) % 7) - 0.5) for i in range(N)) + ")"

    mpo_fixed = [
        (2, [("RX(th0)", (0,)), (ph(4, 1), ()), ("CNOT", (0, 1)), ("RY(th1)", (1,))], "zero"),
        (2, [(ph(4, 2), ()), ("RY(th1)", (0,)), (ph(4, 3), ()), ("XX(th2)", (1, 0))], "fixed"),
        (1, [("RX(th0)", (0,)), (ph(2, 1), ()), ("H", (0,))], "fixed"),
        (3, [("RY(th1)", (2,)), ("CNOT", (2, 0)), (ph(8, 4), ()), ("RX(th0)", (1,)), (ph(8, 5), ())], "zero"),
    ]
    for n, specs, init in mpo_fixed:
        items.append(("mpo", {"n": n, "specs": [list(map(_l, s)) for s in specs], "init": init, "variants": VARIANTS, "label": f"n={n} {CS.spec_str(specs)} init={init}"}))
    nm = 6 if tier == "quick" else 40
    for j in range(nm):
        n = rng.choice([1, 2, 2, 3])
        gpool = [("RX(th0)", (q,)) for q in range(n)] + [("RY(th1)", (q,)) for q in range(n)] + [("H", (q,)) for q in range(n)]
        gpool += [(g, (a, b)) for a, b in itertools.permutations(range(n), 2) for g in ("CNOT", "XX(th2)")]
        specs = []
        for _ in range(rng.choice([2, 3, 4])):
            specs.append(rng.choice(gpool) if rng.random() < 0.6 else (ph(1 << n, rng.randrange(7)), ()))
        if not any(s[0].startswith("MPO") for s in specs):
            specs.insert(rng.randrange(len(specs) + 1), (ph(1 << n, 3), ()))
        if not any(not s[0].startswith("MPO") for s in specs):
            specs.append(("RX(th0)", (n - 1,)))
        specs.append(("RY(th1)", (n - 1,)))  # pins the register width
        items.append(("mpo", {"n": n, "specs": [list(map(_l, s)) for s in specs], "init": rng.choice(["zero", "fixed"]), "variants": ["symbolic", "default"] + rng.sample(VARIANTS[2:], 1), "label": f"n={n} {CS.spec_str(specs)} #{j}"}))
    # 4. concatenation
    adds = [
        ([("G1", (0,)), ("CNOT", (0, 1))], 2, [("G2", (2, 0))], 3, False),
        ([("G2", (1, 2))], 3, [("G1", (0,))], 1, False),
        ([("G1", (1,))], 2, [("G1", (0,)), ("SWAP", (0, 1))], 2, False),
        ([("G1", (0,))], 1, [("G2", (2, 1))], None, True),
        ([("G2", (0, 1))], 3, [("G1", (0,))], None, True),
        ([], None, [("G2", (1, 0))], 2, False),
        ([("RZ(th0)", (0,))], 4, [("K2", (1, 0))], 2, False),
        ([("G1", (0,))], 1, [("G1", (1,))], 4, False),
        ([("RX(th0)", (0,))], None, [("H", (1,))], 4, False),
        ([("G1", (1,))], 3, [("G1", (0,))], 3, False),
        ([("G1", (0,))], 2, [], 3, False),
    ]
    for s1, n1, s2, n2, isop in adds:
        items.append(("add", {"s1": [list(map(_l, s)) for s in s1], "n1": n1, "s2": [list(map(_l, s)) for s in s2], "n2": n2, "op": isop, "label": f"[{CS.spec_str(s1)}]n={n1} + [{CS.spec_str(s2)}]n={n2}{' (op)' if isop else ''}"}))
    return items


def _l(x):
    return list(x) if isinstance(x, tuple) else x


def run(ctx):
    items = instances(ctx.tier, ctx.seed)
    if getattr(ctx, "only", None):
        items = [it for it in items if ctx.only in it[1]["label"] or ctx.only == it[0]]
    ctx.bounds = {
        "register_width": "n <= 4 (arity-4 sparse generic gate on n <= 5 in the thorough tier); numeric (ground) runs on 9-qubit (thorough: 10) registers",
        "lift": "every ordered tuple of distinct qubit indices for generic gates of arity 1..3 (quick: half of the n=4,k=3 tuples)",
        "circuits": "length <= 3 over {G1,G2,G3 generic; H,T,RZ,RY,XX,CNOT,CZ,SWAP,ISWAP builtin; K2 constant asymmetric custom}, sampled with VERIF_SEED",
        "simulators": "SymbolicSimulator and BaseWavefunctionSimulator subclasses with native sets: " + ", ".join(VARIANTS[1:]),
        "phase_operations": "MultiPhaseOperation with concrete dyadic phases interleaved, gate angles symbolic, initial state |0..0> or one fixed numeric state",
        "values": "all real values of every matrix entry part / amplitude part / angle",
    }
    ctx.assume(
        "A-ENV-1: numpy-scalar -> sympy converters installed (sympy 1.9 / numpy 2)",
        "symbols range over the reals",
        "MultiPhaseOperation phases are concrete (apply() needs floats); e^{i*phase} taken as doubles, tolerance 1e-9",
        "initial states are 1-D numpy object arrays of sympy expressions (generic) or numeric vectors",
    )
    for it, out in pmap(work, items):
        ctx.merge(out)
    ctx.extra["explanation"] = (
        "Generic symbolic gates (each entry r+is), parametric built-in gates and constant gates are executed through the real "
        "lifted_matrix/to_unitary/apply/get_wavefunction; the result is compared entry by entry with the verifier's bit-level embedding "
        "oracle; each entry identity is asserted negated and decided by z3 (polynomial / circle constraints), cross-checked by exact Laurent normal form."
    )


# ---------------------------------------------------------------------------


def replay(data):
    """Real code in symbolic mode evaluated at the witness vs numpy oracle."""
    install_numpy_sympy_shim()
    inp = data["inputs"]
    vals = {k: float(v) for k, v in (inp.get("values") or {}).items()}
    clause = inp["clause"]

    def ev(x):
        return CS.np_matrix(x, vals)

    def differs(got, want):
        got, want = np.asarray(got, dtype=complex).reshape(-1), np.asarray(want, dtype=complex).reshape(-1)
        if got.shape != want.shape:
            return True, f"shape {got.shape} vs {want.shape}"
        d = np.abs(got - want).max()
        scale = 1 + np.abs(want).max()
        return bool(d > 1e-6 * scale), f"max|delta|={d:.3g} (scale {scale:.3g})"

    try:
        if clause == "apply-numeric-state":
            bad = _numeric_lift_bad(inp["gid"], tuple(inp["idx"]), inp["n"])
            return bool(bad), bad or "ok"
        if clause == "wide-register-run":
            bad = _wide_bad([tuple(x) for x in inp["specs"]], inp["n"], inp.get("variants", []))
            return bool(bad), bad or "ok"
        if clause == "numeric-run":
            bad = _numeric_circ_bad([tuple(x) for x in inp["specs"]], inp["n"], inp.get("variants", []), bool(inp.get("light")))
            return bool(bad), bad or "ok"
        if "gid" in inp:
            n, idx = inp["n"], tuple(inp["idx"])
            op = CS.gate_by_id(inp["gid"])(*idx)
            Mg = ev(op.gate.matrix)
            E = CS.np_embed(Mg, list(idx), n)
            if clause == "lifted_matrix":
                return differs(ev(op.lifted_matrix(n)), E)
            psi = gen_state(1 << n)
            return differs(ev(op.apply(psi)), E @ ev(psi))
        if "s1" in inp:
            c1 = CS.circuit_from_spec([tuple(s) for s in inp["s1"]], inp["n1"])
            s2 = [tuple(s) for s in inp["s2"]]
            other = CS.op_from_spec(s2[0]) if inp.get("op") else CS.circuit_from_spec(s2, inp["n2"])
            ops2 = [other] if inp.get("op") else list(other.operations)
            want_n = max(c1.n_qubits, (max(other.qubit_indices) + 1) if inp.get("op") else other.n_qubits)
            s = c1 + other
            if clause == "concat-structure":
                bad = s.n_qubits != want_n or list(s.operations) != list(c1.operations) + ops2
                return bad, f"n_qubits={s.n_qubits} want {want_n}"
            want = CS.np_oracle_unitary(ops2, want_n, vals) @ CS.np_oracle_unitary(c1.operations, want_n, vals)
            return differs(ev(s.to_unitary()), want)
        n, specs = inp["n"], [tuple(s) for s in inp["specs"]]
        c = CS.circuit_from_spec(specs, n)
        if clause == "width":
            return c.n_qubits != n, f"n_qubits={c.n_qubits}"
        O = CS.np_oracle_unitary(c.operations, n, vals)
        if clause == "to_unitary":
            return differs(ev(c.to_unitary()), O)
        if clause.startswith("mpo-simulator"):
            init = None if inp.get("init") == "zero" else fixed_state(1 << n)
            psi0 = np.eye(1 << n)[0] if init is None else init
            sim = make_sim(inp["variant"])
            try:
                wf = sim.get_wavefunction(c, init)
            except Exception as e:
                return True, f"raised {type(e).__name__}: {e}"
            return differs(ev(wf.amplitudes), O @ psi0)
        psi = gen_state(1 << n)
        if clause == "sequential-apply":
            st = psi
            for op in c.operations:
                st = op.apply(st)
            return differs(ev(st), O @ ev(psi))
        if clause.startswith("simulator") or clause.startswith("split-width"):
            sim = make_sim(inp["variant"])
            try:
                wf = sim.get_wavefunction(c, psi)
            except Exception as e:
                return True, f"raised {type(e).__name__}: {e}"
            if clause.startswith("split-width"):
                ws = getattr(sim, "width_seen", [])
                return any(w != n for w in ws), f"widths {ws}"
            return differs(ev(wf.amplitudes), O @ ev(psi))
    except Exception as e:
        import traceback

        return False, "replay raised: " + traceback.format_exc()[-600:]
    return False, f"unknown clause {clause}"
