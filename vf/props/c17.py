"""C17 - outcome distributions stay normalised; marginals and distances obey their laws. E2."""
import io
import itertools
import json
import os
import random
import tempfile
import warnings

import numpy as np
import z3

from ..core import Result, pmap, stable_pick
from .. import symtrace as ST

LEVEL = "model_checking"


# --- tiny symbolic algebra for the kernel rate: q = e^{-1/(2 sigma)} in (0,1) -----------------


class Sigma:
    """symbolic kernel width; only the shapes used by the kernel code are supported."""

    def __init__(self, name):
        self.name = name
        self.q = z3.Real(f"q_{name}")

    def __rmul__(self, k):
        if k == 2:
            return _TwoSigma(self)
        raise ST.Inconclusive("unsupported use of symbolic sigma")

    __mul__ = __rmul__


class _TwoSigma:
    def __init__(self, s):
        self.s = s

    def __rtruediv__(self, one):
        if one == 1.0:
            return _Gamma(self.s, 1)
        raise ST.Inconclusive("unsupported use of symbolic sigma")


class _Gamma:
    """coef * gamma,  gamma = 1/(2 sigma)"""

    __array_ufunc__ = None

    def __init__(self, s, coef):
        self.s, self.coef = s, coef

    def __neg__(self):
        return _Gamma(self.s, -self.coef)

    def __mul__(self, o):
        if ST._is_ndarray(o):
            return ST._map_array(o, lambda e: _Gamma(self.s, self.coef * int(e)) if float(e) == int(e) else (_ for _ in ()).throw(ST.Inconclusive("non-integer kernel exponent")))
        if isinstance(o, int):
            return _Gamma(self.s, self.coef * o)
        raise ST.Inconclusive("unsupported use of symbolic gamma")

    __rmul__ = __mul__

    def exp(self):
        k = -self.coef
        if k < 0:
            raise ST.Inconclusive("positive exponent of gamma")
        r = z3.RealVal(1)
        for _ in range(k):
            r = r * self.s.q
        return ST.SV(r)


class DistNp(ST.NpProxy):
    def zeros(self, shape, dtype=None, **kw):
        a = self._np.empty(shape, dtype=object)
        a.fill(0)
        return a

    def exp(self, x):
        if ST._is_ndarray(x) and x.dtype == object:
            return ST._map_array(x, lambda e: e.exp() if hasattr(e, "exp") else self._np.exp(e))
        if hasattr(x, "exp") and not isinstance(x, self._np.ndarray):
            return x.exp()
        return self._np.exp(x)


class LnProxy(ST.MathProxy):
    """math.log on a symbolic argument -> uninterpreted value ln(arg), one fresh real per distinct argument."""

    def __init__(self, m):
        super().__init__(m)
        self.table = {}

    def log(self, x, *a):
        if ST.is_sym(x) and not a:
            return ST.SV(self.ln(ST.zr_real(x)))
        return self._m.log(x, *a)

    def ln(self, z):
        z = z3.simplify(z)
        key = z.sexpr()
        if key not in self.table:
            self.table[key] = (z, z3.Real(f"ln_{len(self.table)}"))
        return self.table[key][1]


def keys_of(nq, which=None):
    ks = list(itertools.product((0, 1), repeat=nq))
    return [k for i, k in enumerate(ks) if which is None or i in which]


def work(item):
    kind, p = item
    res = Result(f"{kind}|{p['label']}")
    from orquestra.quantum.distributions import _measurement_outcome_distribution as MD, mmd as MMD, clipped_negative_log_likelihood as CN, jensen_shannon_divergence as JS

    try:  # evidence only: a renamed private helper must not break the check
        res.fn(MD.MeasurementOutcomeDistribution.__init__, MD.MeasurementOutcomeDistribution.subdistribution, MD.preprocess_distibution_dict, MD.is_measurement_outcome_distribution, MD.is_normalized, MD.normalize_measurement_outcome_distribution, MMD.compute_mmd, MMD.compute_rbf_kernel, MMD.compute_multi_rbf_kernel, CN.compute_clipped_negative_log_likelihood, JS.compute_jensen_shannon_divergence)
    except AttributeError:
        pass
    res.d["cuts"] += [
        "math proxy in the distribution modules: isclose as exact-real predicate, log as uninterpreted ln with instantiated axioms ln(x) <= x-1, ln(xy)=ln x+ln y",
        "numpy proxy in mmd.py: object arrays; exp(-k/(2 sigma)) -> q^k with q in (0,1)",
    ]
    try:
        with warnings.catch_warnings():
            warnings.simplefilter("ignore")
            {"ctor": _w_ctor, "sub": _w_sub, "mmd": _w_mmd, "nll": _w_nll, "io": _w_io, "reject": _w_reject, "typed": _w_typed}[kind](res, p)
    except ST.Inconclusive as e:
        res.ob(1)
        res.inconc(str(e))
    return res.as_dict()


def _finish(res, ex, outs, records, names, p, expected_exc=()):
    res.d["paths"] += ex.npaths
    res.d["solver_queries"] += ex.queries
    res.d["solver_s"] += ex.solver_s
    for clause, v, m in records:
        res.ob(1)
        if v == "holds":
            res.ob(0, 1, "A:z3")
        elif v == "violated":
            vals = {n: ST.model_value(m, zv) for n, zv in names.items()} if m is not None else {}
            res.candidate(clause, f"{p['label']}: {clause} fails", dict(p, clause=clause, values=vals, abstract=(clause == "nll-at-least-entropy")), sub=clause)
        else:
            res.inconc("z3 unknown", clause)


def _patch_md(extra=()):
    import math
    import numpy
    from orquestra.quantum.distributions import _measurement_outcome_distribution as MD

    return ST.patched((MD, "math", ST.MathProxy(math)), *extra)


def _w_ctor(res, p):
    from orquestra.quantum.distributions import MeasurementOutcomeDistribution as MOD

    keys = [tuple(k) for k in p["keys"]]
    as_str = p.get("string_keys")
    names = {f"w{i}": z3.Real(f"w{i}") for i in range(len(keys))}
    base = [z3.And(z >= -2, z <= 8) for z in names.values()]
    records = []
    res.nontrivial()

    def fn(ex):
        ws = [ST.SV(names[f"w{i}"]) for i in range(len(keys))]
        inp = {("".join(map(str, k)) if as_str else k): w for k, w in zip(keys, ws)}
        snapshot = dict(inp)
        try:
            d = MOD(inp, normalize=p.get("normalize", True))
        except (RuntimeError, ValueError) as e:
            total = sum(names.values())
            anyneg = z3.Or(*[z < 0 for z in names.values()])
            if isinstance(e, RuntimeError):
                records.append(("rejects-only-negative",) + ex.prove(anyneg))
            else:
                records.append(("rejects-only-zero-or-tiny-norm",) + ex.prove(z3.And(z3.Not(anyneg), total < z3.RealVal("1/1000000"))))
            records.append(("input-unchanged",) + ex.prove(z3.BoolVal(list(inp.items()) == list(snapshot.items()))))
            return "rejected"
        dd = d.distribution_dict
        if ST.poisoned(list(dd.values())):
            raise ST.Inconclusive("NaN poison")
        total = sum(names.values())
        vals = [ST.zr_real(dd[k]) for k in keys]
        records.append(("accepted-nonnegative",) + ex.prove(z3.And(*[v >= 0 for v in vals] + [z >= 0 for z in names.values()])))
        if p.get("normalize", True):
            s = sum(vals)
            band = z3.RealVal("1/100000000")
            records.append(("accepted-sums-to-one",) + ex.prove(z3.And(s <= 1 + band, s >= 1 - band)))
            # proportional to the input: v_i * total == w_i * sum(v)
            records.append(("accepted-proportional",) + ex.prove(z3.And(*[v * total == names[f"w{i}"] * s for i, v in enumerate(vals)])))
        records.append(("keys-preserved",) + ex.prove(z3.BoolVal(list(dd.keys()) == keys)))
        records.append(("input-unchanged",) + ex.prove(z3.BoolVal(list(inp.keys()) == list(snapshot.keys()) and all(inp[k] is snapshot[k] for k in snapshot))))
        return "accepted"

    with _patch_md():
        ex = ST.Explorer(base=base, timeout_ms=8000, logic="QF_NRA")
        outs = ex.run(fn)
    got = {o[1] for o in outs if o[0] == "ok"}
    for o in outs:
        if o[0] == "exc":
            res.ob(1)
            res.candidate("ctor-raises-other", f"constructor raised {type(o[1]).__name__}: {o[1]}", dict(p, clause="ctor-raises-other", values={}), sub="ctor-raises-other")
    res.d["vacuity_twins"] += 1
    if got == {"accepted", "rejected"}:
        res.d["vacuity_ok"] += 1
    else:
        res.herr(f"constructor harness explored only {got}")
    _finish(res, ex, outs, records, names, p)
    res.sample({"constructor_keys": p["keys"], "paths": ex.npaths})


def _w_sub(res, p):
    from orquestra.quantum.distributions import MeasurementOutcomeDistribution as MOD

    keys = [tuple(k) for k in p["keys"]]
    qubits = p["qubits"]
    names = {f"w{i}": z3.Real(f"w{i}") for i in range(len(keys))}
    norm = p.get("normalized", True)
    base = [z >= 0 for z in names.values()] + [sum(names.values()) == (1 if norm else 3)]
    records = []
    res.nontrivial()

    def fn(ex):
        ws = [ST.SV(names[f"w{i}"]) for i in range(len(keys))]
        src = MOD(dict(zip(keys, ws)), normalize=False)
        before = list(src.distribution_dict.items())
        sub = src.subdistribution(list(qubits))
        after = list(src.distribution_dict.items())
        records.append(("source-intact",) + ex.prove(z3.BoolVal(len(after) == len(before) and all(a[0] == b[0] and a[1] is b[1] for a, b in zip(after, before)))))
        want = {}
        for k, i in zip(keys, range(len(keys))):
            pk = tuple(k[q] for q in qubits)
            want[pk] = want.get(pk, 0) + names[f"w{i}"]
        got = sub.distribution_dict
        if ST.poisoned(list(got.values())):
            raise ST.Inconclusive("NaN poison")
        ok_keys = set(got) == set(want)
        records.append(("marginal-keys",) + ex.prove(z3.BoolVal(ok_keys)))
        if ok_keys:
            records.append(("marginal-values",) + ex.prove(z3.And(*[ST.zr_real(got[k]) == want[k] for k in want])))
        if len(qubits) >= 2:
            # the same object asked again for the same qubits in another order: the listed order decides the digit order
            rev = list(reversed(qubits))
            want_r = {}
            for k, i in zip(keys, range(len(keys))):
                pk = tuple(k[q] for q in rev)
                want_r[pk] = want_r.get(pk, 0) + names[f"w{i}"]
            got_r = src.subdistribution(rev).distribution_dict
            okr = set(got_r) == set(want_r)
            records.append(("marginal-in-listed-order-on-a-second-call",) + (ex.prove(z3.And(*[ST.zr_real(got_r[k]) == want_r[k] for k in want_r])) if okr else ex.prove(z3.BoolVal(False))))
        sub2 = src.subdistribution(list(qubits))
        records.append(("same-result-twice",) + ex.prove(z3.BoolVal(set(sub2.distribution_dict) == set(got)) if not ok_keys else z3.And(*[ST.zr_real(sub2.distribution_dict[k]) == ST.zr_real(got[k]) for k in got])))
        return sub

    with _patch_md():
        ex = ST.Explorer(base=base, timeout_ms=8000)
        outs = ex.run(fn)
    for o in outs:
        if o[0] == "exc":
            res.ob(1)
            res.candidate("subdistribution-raises", f"raised {type(o[1]).__name__}: {o[1]}", dict(p, clause="subdistribution-raises", values={}), sub="subdistribution-raises")
    _finish(res, ex, outs, records, names, p)
    res.sample({"marginal_of": p["keys"], "qubits": qubits})


def _mk_pair(p, names):
    from orquestra.quantum.distributions import MeasurementOutcomeDistribution as MOD

    kt, km = [tuple(k) for k in p["tkeys"]], [tuple(k) for k in p["mkeys"]]
    t = MOD({k: ST.SV(names[f"t{i}"]) for i, k in enumerate(kt)}, normalize=False)
    m = MOD({k: ST.SV(names[f"m{i}"]) for i, k in enumerate(km)}, normalize=False)
    return t, m, kt, km


def _pair_names(p):
    names = {f"t{i}": z3.Real(f"t{i}") for i in range(len(p["tkeys"]))}
    names.update({f"m{i}": z3.Real(f"m{i}") for i in range(len(p["mkeys"]))})
    base = [z >= 0 for z in names.values()]
    base.append(sum(v for k, v in names.items() if k[0] == "t") == 1)
    base.append(sum(v for k, v in names.items() if k[0] == "m") == 1)
    return names, base


def _w_mmd(res, p):
    from orquestra.quantum.distributions import mmd as MMD

    import numpy

    names, base = _pair_names(p)
    sig = [Sigma(f"s{i}") for i in range(p.get("nsigma", 1))]
    for s in sig:
        names[str(s.q)] = s.q
        base += [s.q > 0, s.q < 1]
    records = []
    res.nontrivial()

    def fn(ex):
        t, m, kt, km = _mk_pair(p, names)
        bt, bm = list(t.distribution_dict.items()), list(m.distribution_dict.items())
        params = {"sigma": sig[0] if len(sig) == 1 else _SigList(sig)}
        ab = MMD.compute_mmd(t, m, params)
        ba = MMD.compute_mmd(m, t, params)
        aa = MMD.compute_mmd(t, t, params)
        if ST.poisoned([ab, ba, aa]):
            raise ST.Inconclusive("NaN poison")
        zab, zba, zaa = ST.zr_real(ab), ST.zr_real(ba), ST.zr_real(aa)
        records.append(("mmd-symmetric",) + ex.prove(zab == zba))
        records.append(("mmd-zero-on-equal",) + ex.prove(zaa == 0))
        records.append(("mmd-nonnegative",) + ex.prove(zab >= 0))
        # value: d^T K d with K_ij = mean_s q_s^{(x_i-x_j)^2}
        allk = sorted(set(kt) | set(km))
        code = {k: int("".join(map(str, k)), 2) for k in allk}
        tv = {k: names[f"t{kt.index(k)}"] if k in kt else 0 for k in allk}
        mv = {k: names[f"m{km.index(k)}"] if k in km else 0 for k in allk}
        want = 0
        for a in allk:
            for b in allk:
                kk = (code[a] - code[b]) ** 2
                kern = sum(_qpow(s.q, kk) for s in sig) / len(sig)
                want = want + (tv[a] - mv[a]) * kern * (tv[b] - mv[b])
        records.append(("mmd-value",) + ex.prove(zab == want))
        records.append(("arguments-unchanged",) + ex.prove(z3.BoolVal(list(t.distribution_dict.items()) == bt and list(m.distribution_dict.items()) == bm)))
        return ab

    from orquestra.quantum.distributions import mmd as MM

    with ST.patched((MM, "np", DistNp(numpy))):
        ex = ST.Explorer(base=base, timeout_ms=15000, logic="QF_NRA")
        outs = ex.run(fn)
    for o in outs:
        if o[0] == "exc":
            res.ob(1)
            res.candidate("mmd-raises", f"raised {type(o[1]).__name__}: {o[1]}", dict(p, clause="mmd-raises", values={}), sub="mmd-raises")
    _finish(res, ex, outs, records, names, p)
    res.sample({"mmd": [p["tkeys"], p["mkeys"]], "sigmas": len(sig)})


def _qpow(q, k):
    r = z3.RealVal(1)
    for _ in range(k):
        r = r * q
    return r


class _SigList(list):
    pass


def _w_nll(res, p):
    import math
    from orquestra.quantum.distributions import clipped_negative_log_likelihood as CN, jensen_shannon_divergence as JS

    names, base = _pair_names(p)
    eps = z3.Real("eps")
    names["eps"] = eps
    base += [eps > 0, eps <= z3.RealVal("1/100")]
    records = []
    res.nontrivial()
    lnp = LnProxy(math)

    def fn(ex):
        lnp.table.clear()
        t, m, kt, km = _mk_pair(p, names)
        params = {"epsilon": ST.SV(eps)}
        nll = CN.compute_clipped_negative_log_likelihood(t, m, params)
        jab = JS.compute_jensen_shannon_divergence(t, m, params)
        jba = JS.compute_jensen_shannon_divergence(m, t, params)
        if ST.poisoned([nll, jab, jba]):
            raise ST.Inconclusive("NaN poison")
        records.append(("jsd-symmetric",) + ex.prove(ST.zr_real(jab) == ST.zr_real(jba)))
        # Gibbs with clipping: NLL(t|m) >= H(t) - (sum_i c_i - 1), c_i = max(eps, m_i) over the union of supports
        allk = sorted(set(kt) | set(km))
        axioms, Hterms, csum = [], [], 0
        for k in allk:
            ti = names[f"t{kt.index(k)}"] if k in kt else z3.RealVal(0)
            mi = names[f"m{km.index(k)}"] if k in km else z3.RealVal(0)
            ci = z3.If(mi > eps, mi, eps)
            csum = csum + ci
            lt = lnp.ln(ti)
            # instances of ln(x) <= x - 1 at x = c_i/t_i together with ln(xy) = ln x + ln y
            for carg in (mi, eps):
                lc = lnp.ln(carg)
                axioms.append(z3.Implies(z3.And(ti > 0, carg > 0), ti * (lc - lt) <= carg - ti))
            Hterms.append(z3.If(ti > 0, ti * lt, 0))
        H = -sum(Hterms)
        for a in axioms:
            ex.assume(a)
        records.append(("nll-at-least-entropy",) + ex.prove(ST.zr_real(nll) >= H - (csum - 1)))
        # the public wrapper hands back what the measure computes - also when both arguments are ONE object, and when they are
        # equal but separate objects (the measure of a distribution against itself is its clipped cross-entropy, not 0)
        from orquestra.quantum.distributions import evaluate_distribution_distance as EDD

        t2, _, _, _ = _mk_pair(p, names)
        sentinel, calls = object(), []

        def measure(a, b, **kw):
            calls.append((a, b, kw))
            return sentinel

        for what, a, b in (("pair", t, m), ("one-object", t, t), ("equal-objects", t, t2)):
            got = EDD(a, b, measure, distance_measure_parameters=params)
            ok = got is sentinel and bool(calls) and calls[-1][0] is a and calls[-1][1] is b and calls[-1][2].get("distance_measure_parameters") is params
            records.append((f"wrapper-returns-the-measure:{what}",) + ex.prove(z3.BoolVal(ok)))
        return nll

    import orquestra.quantum.distributions._measurement_outcome_distribution as MDm

    with ST.patched((CN, "math", lnp), (JS, "math", lnp), (MDm, "math", ST.MathProxy(math))):
        ex = ST.Explorer(base=base, timeout_ms=15000)
        outs = ex.run(fn)
    for o in outs:
        if o[0] == "exc":
            res.ob(1)
            res.candidate("nll-raises", f"raised {type(o[1]).__name__}: {o[1]}", dict(p, clause="nll-raises", values={}), sub="nll-raises")
    _finish(res, ex, outs, records, names, p)
    res.sample({"nll": [p["tkeys"], p["mkeys"]], "paths": ex.npaths})


def _w_reject(res, p):
    from orquestra.quantum.distributions import MeasurementOutcomeDistribution as MOD

    res.d["ground_instances"] += 1
    res.d["instances"] -= 1
    res.ob(1)
    inp = {(tuple(k) if isinstance(k, list) else k): v for k, v in p["dict"]}
    try:
        MOD(inp)
        res.candidate("bad-input-rejected", f"{p['label']}: accepted {inp}", dict(p, clause="bad-input-rejected", values={}), sub="bad-input-rejected")
    except (RuntimeError, ValueError, IndexError):
        res.ob(0, 1, "ground-structure")


def _w_io(res, p):
    from orquestra.quantum.distributions import MeasurementOutcomeDistribution as MOD, save_measurement_outcome_distribution, load_measurement_outcome_distribution, save_measurement_outcome_distributions, load_measurement_outcome_distributions

    res.d["ground_instances"] += 1
    res.d["instances"] -= 1
    res.ob(1)
    d = MOD({tuple(k): v for k, v in p["dict"]})
    fd, path = tempfile.mkstemp(prefix="vf-c17-", dir="/var/tmp")
    os.close(fd)
    try:
        save_measurement_outcome_distribution(d, path)
        l1 = load_measurement_outcome_distribution(path)
        save_measurement_outcome_distributions([d, d], path)
        l2 = load_measurement_outcome_distributions(path)
        # a list of DIFFERENT distributions on the same outcomes: entered in another order, with the probabilities moved round,
        # with one outcome more; every list position must come back as it was saved
        items = list(d.distribution_dict.items())
        keys, vals = [k for k, _ in items], [v for _, v in items]
        rot = vals[1:] + vals[:1]
        family = [d, MOD(dict(zip(reversed(keys), rot)), normalize=False), MOD(dict(zip(keys, rot)), normalize=False), MOD(dict(reversed(items)), normalize=False), d]
        if len(keys) >= 2:
            family.insert(2, MOD(dict(zip(keys[1:] + keys[:1], vals)), normalize=False))
        snaps = [dict(x.distribution_dict) for x in family]
        save_measurement_outcome_distributions(family, path)
        l3 = load_measurement_outcome_distributions(path)
    finally:
        os.unlink(path)
    ok = l1.distribution_dict == d.distribution_dict and len(l2) == 2 and all(x.distribution_dict == d.distribution_dict for x in l2)
    bad3 = None
    if len(l3) != len(family):
        bad3 = f"{len(l3)} distributions loaded for {len(family)} saved"
    else:
        for i, (x, w) in enumerate(zip(l3, snaps)):
            if x.distribution_dict != w:
                bad3 = f"list position {i}: loaded {x.distribution_dict} != saved {w}"
                break
        if bad3 is None and [dict(x.distribution_dict) for x in family] != snaps:
            bad3 = "saving changed the distributions"
    if ok and not bad3:
        res.ob(0, 1, "ground-structure")
    elif not ok:
        res.candidate("save-load", f"{p['label']}: loaded {l1.distribution_dict} != saved {d.distribution_dict}", dict(p, clause="save-load", values={}), sub="save-load")
    else:
        res.candidate("save-load", f"{p['label']}: a list of different distributions on the same outcomes: {bad3}", dict(p, clause="save-load", values={}), sub="save-load")


def typed_bad(keys, weights, string_keys, qubits):
    """ground: a distribution built from Python ints / numpy-free floats / mixed weights: normalised, proportional, marginal
    in listed order, distances symmetric and zero on itself - numpy picks array dtypes from the kinds of numbers it is given"""
    from fractions import Fraction
    from orquestra.quantum.distributions import MeasurementOutcomeDistribution as MOD, compute_mmd, compute_jensen_shannon_divergence

    keys = [tuple(k) for k in keys]
    inp = {("".join(map(str, k)) if string_keys else k): w for k, w in zip(keys, weights)}
    snap = list(inp.items())
    d = MOD(inp)
    if list(inp.items()) != snap or any(type(a[1]) is not type(b[1]) for a, b in zip(inp.items(), snap)):
        return f"the constructor changed its input dictionary: {snap} -> {list(inp.items())}"
    tot = sum(Fraction(w) for w in weights)
    dd = d.distribution_dict
    if list(dd.keys()) != keys:
        return f"keys {list(dd.keys())}"
    for k, w in zip(keys, weights):
        if abs(dd[k] - float(Fraction(w) / tot)) > 1e-12:
            return f"probability of {k} is {dd[k]}, want {float(Fraction(w) / tot)} (weights {weights})"
    raw = MOD(dict(inp), normalize=False)
    for src, scale in ((d, tot), (raw, 1)):
        sub = src.subdistribution(list(qubits))
        want = {}
        for k, w in zip(keys, weights):
            kk = tuple(k[q] for q in qubits)
            want[kk] = want.get(kk, 0) + Fraction(w) / scale
        got = sub.distribution_dict
        if set(got) != set(want) or any(abs(got[k] - float(v)) > 1e-12 for k, v in want.items()):
            return f"marginal on {qubits} of weights {weights}: {got}, want { {k: float(v) for k, v in want.items()} }"
    other = MOD({k: w for k, w in zip(keys, list(weights[1:]) + list(weights[:1]))})
    a, b = compute_mmd(d, other, {"sigma": 1.0}), compute_mmd(other, d, {"sigma": 1.0})
    if abs(a - b) > 1e-12 or a < -1e-12 or abs(compute_mmd(d, MOD(dict(zip(keys, weights))), {"sigma": 1.0})) > 1e-12:
        return f"mmd not symmetric / not zero on equal arguments ({a}, {b}) for weights {weights}"
    j1, j2 = compute_jensen_shannon_divergence(d, other, {"epsilon": 1e-9}), compute_jensen_shannon_divergence(other, d, {"epsilon": 1e-9})
    if abs(j1 - j2) > 1e-12:
        return f"jsd not symmetric ({j1}, {j2})"
    return None


def _w_typed(res, p):
    res.d["ground_instances"] += 1
    res.d["instances"] -= 1
    res.ob(1)
    bad = typed_bad(p["keys"], p["weights"], p["string_keys"], p["qubits"])
    if bad:
        res.candidate("typed-weights", f"{p['label']}: {bad}", dict(p, clause="typed-weights", values={}), sub="typed-weights")
    else:
        res.ob(0, 1, "ground-numeric")


def instances(tier, seed):
    rng = random.Random(seed * 7 + 4)
    items = []
    for keys, strk in [(keys_of(1), False), (keys_of(2), False), (keys_of(2, [0, 1, 3]), True), (keys_of(2), True), (keys_of(3, [1, 6]), False)]:
        for normalize in (True, False):
            items.append(("ctor", {"keys": [list(k) for k in keys], "string_keys": strk, "normalize": normalize, "label": f"ctor keys={keys} str={strk} normalize={normalize}"}))
    for nq, which in [(1, None), (2, None), (2, [0, 3]), (3, None), (3, [1, 2, 4, 7]), (4, [0, 3, 5, 6, 9, 15]), (4, [1, 2, 7, 8, 12])]:
        keys = keys_of(nq, which)
        lists = [list(t) for r in range(1, nq + 1) for t in itertools.permutations(range(nq), r)]
        for qs in lists:
            if tier == "quick" and nq == 4 and len(qs) < 3 and not stable_pick((nq, str(which), str(qs)), 3, seed):
                continue
            if tier == "quick" and nq == 4 and len(qs) == 4 and not stable_pick((str(which), str(qs)), 2, seed):
                continue
            items.append(("sub", {"keys": [list(k) for k in keys], "qubits": qs, "label": f"sub nq={nq} keys#{len(keys)} qubits={qs}"}))
    items.append(("sub", {"keys": [list(k) for k in keys_of(2)], "qubits": [1, 0], "normalized": False, "label": "sub unnormalised source qubits=[1,0]"}))
    pairs = [
        (keys_of(1), keys_of(1)),
        (keys_of(2), keys_of(2)),
        (keys_of(2, [0, 3]), keys_of(2, [0, 1])),
        (keys_of(2, [0, 1, 2]), keys_of(2, [3])),
        (keys_of(3, [0, 7]), keys_of(3, [0, 5, 7])),
        # the same support entered in a different key order (a dict keeps insertion order)
        (keys_of(2, [0, 1, 3]), [keys_of(2)[i] for i in (3, 0, 1)]),
        (keys_of(2), [keys_of(2)[i] for i in (2, 3, 1, 0)]),
        ([keys_of(1)[1], keys_of(1)[0]], keys_of(1)),
    ]
    for kt, km in pairs:
        items.append(("mmd", {"tkeys": [list(k) for k in kt], "mkeys": [list(k) for k in km], "nsigma": 1, "label": f"mmd {kt} vs {km}"}))
        items.append(("nll", {"tkeys": [list(k) for k in kt], "mkeys": [list(k) for k in km], "label": f"nll {kt} vs {km}"}))
    items.append(("mmd", {"tkeys": [list(k) for k in keys_of(2)], "mkeys": [list(k) for k in keys_of(2, [1, 2])], "nsigma": 2, "label": "mmd multi-sigma 2"}))
    for label, d in [("empty", []), ("negative", [[[0, 1], 0.5], [[1, 1], -0.5]]), ("unequal key length", [[[0, 1], 0.5], [[1], 0.5]]), ("non-tuple key", [[5, 1.0]]), ("negative int in key", [[[0, -1], 1.0]]), ("all zero", [[[0], 0.0], [[1], 0.0]])]:
        items.append(("reject", {"dict": d, "label": label}))
    for label, d in [("two keys", [[[0, 1], 0.25], [[1, 1], 0.75]]), ("thirds", [[[0, 0, 1], 1 / 3], [[1, 0, 1], 1 / 3], [[1, 1, 1], 1 / 3]]), ("non-binary", [[[0, 2, 1], 0.5], [[3, 0, 0], 0.5]]), ("unnormalised input", [[[0], 2.0], [[1], 6.0]]),
                     ("explicit zero-probability outcomes", [[[0, 0, 0], 0.5], [[0, 0, 1], 0.0], [[1, 1, 0], 0.0], [[1, 1, 1], 0.5]]), ("tiny and zero weights", [[[0, 1], 1e-300], [[1, 0], 0.0], [[1, 1], 1.0]]),
                     ("single outcome", [[[1, 0, 1, 1], 1.0]]), ("many digits", [[[0], 0.1], [[1], 0.7], [[2], 0.2]]), ("two-digit symbols in keys", [[[10, 0], 0.25], [[1, 11], 0.75]]),
                     ("weights summing to 1 only after rounding", [[[0], 0.1], [[1], 0.2], [[2], 0.30000000000000004], [[3], 0.4]])]:
        items.append(("io", {"dict": d, "label": label}))
    # typed twins: weights that are all Python ints, all floats, mixed, big ints
    k2 = [[0, 0], [0, 1], [1, 0], [1, 1]]
    k3 = [[0, 0, 1], [0, 1, 0], [1, 0, 0], [1, 1, 1], [0, 1, 1]]
    for keys, qubits in ((k2, [1]), (k2, [1, 0]), (k3, [2, 0]), (k3, [1, 2, 0])):
        for wkind, ws in (("int", [3, 1, 2, 6, 4]), ("float", [0.375, 0.125, 0.25, 0.75, 0.5]), ("mixed", [1, 0.5, 2, 0.25, 3]), ("bigint", [10**18, 3 * 10**18, 1, 7, 10**17]), ("int-with-zero", [5, 0, 3, 0, 2])):
            for sk in (False, True):
                items.append(("typed", {"keys": keys, "weights": ws[: len(keys)], "string_keys": sk, "qubits": qubits, "label": f"typed weights {wkind} {ws[:len(keys)]} keys={'str' if sk else 'tuple'} nq={len(keys[0])} marginal {qubits}"}))
    return items


def run(ctx):
    items = instances(ctx.tier, ctx.seed)
    if getattr(ctx, "only", None):
        items = [it for it in items if ctx.only in it[1]["label"] or ctx.only == it[0]]
    ctx.bounds = {
        "constructor": "<= 4 keys on <= 3 subsystems, tuple and string keys, normalise on/off, every weight symbolic in [-2, 8]",
        "subdistribution": "registers of 1..4 qubits (full and sparse key sets), every ordered list of distinct in-range qubits (quick: sampled for 4 qubits), weights symbolic >= 0 summing to 1 (one unnormalised instance)",
        "distances": "5 pairs of supports (equal, overlapping, disjoint, sparse) on <= 3 subsystems; kernel rate q = e^{-1/(2 sigma)} in (0,1) symbolic; clipping epsilon in (0, 0.01] symbolic",
    }
    ctx.assume("floats are exact reals", "math.log is an uninterpreted function with the instances ln(x) <= x-1 and ln(xy)=ln x+ln y at the occurring arguments", "save/load and bad-input rejection are ground instances")
    for it, out in pmap(work, items):
        ctx.merge(out)
    ctx.extra["explanation"] = (
        "Constructor, subdistribution, MMD, clipped NLL and JSD of the real code run on symbolic weights; every comparison forks the explorer; per path z3 proves: "
        "accepted => non-negative, normalised, proportional; rejected => a negative weight / vanishing norm; marginal values and untouched source; MMD symmetric, "
        "zero on equal arguments, non-negative and equal to d^T K(q) d; NLL >= entropy - (sum of clipped - 1); JSD symmetric."
    )


def replay(data):
    from orquestra.quantum.distributions import MeasurementOutcomeDistribution as MOD, compute_mmd, compute_clipped_negative_log_likelihood, compute_jensen_shannon_divergence
    import math

    inp = data["inputs"]
    clause = inp["clause"]
    vals = inp.get("values") or {}
    p = {k: v for k, v in inp.items() if k not in ("clause", "values")}
    try:
        with warnings.catch_warnings():
            warnings.simplefilter("ignore")
            if clause in ("bad-input-rejected", "save-load", "typed-weights"):
                r = Result("replay")
                {"bad-input-rejected": _w_reject, "save-load": _w_io, "typed-weights": _w_typed}[clause](r, dict(p, label="replay"))
                c = r.d["candidates"]
                return bool(c), (c[0]["what"] if c else "ok")
            if "qubits" in p:
                keys = [tuple(k) for k in p["keys"]]
                ws = [float(vals.get(f"w{i}", 1.0 / len(keys))) for i in range(len(keys))]
                try:
                    src = MOD(dict(zip(keys, ws)), normalize=False)
                    before = dict(src.distribution_dict)
                    sub = src.subdistribution(list(p["qubits"]))
                except Exception as e:
                    return clause == "subdistribution-raises", f"raised {type(e).__name__}: {e}"
                if clause == "source-intact":
                    return src.distribution_dict != before, f"source after: {src.distribution_dict}"
                order = list(p["qubits"])
                if clause == "marginal-in-listed-order-on-a-second-call":
                    # the same two-call history: listed order first, reversed order second, on one object
                    order = list(reversed(p["qubits"]))
                    sub = src.subdistribution(order)
                want = {}
                for k, w in zip(keys, ws):
                    pk = tuple(k[q] for q in order)
                    want[pk] = want.get(pk, 0) + w
                got = sub.distribution_dict
                tot = sum(want.values())
                bad = set(got) != set(want) or any(abs(got[k] * (tot if abs(sum(got.values()) - 1) < 1e-9 and abs(tot - 1) > 1e-9 else 1) - want[k]) > 1e-9 for k in want if k in got)
                return bool(bad), f"got {got}, want {want}"
            if "keys" in p:  # constructor
                keys = [tuple(k) for k in p["keys"]]
                ws = [float(vals.get(f"w{i}", 0.5)) for i in range(len(keys))]
                inpd = {("".join(map(str, k)) if p.get("string_keys") else k): w for k, w in zip(keys, ws)}
                try:
                    d = MOD(dict(inpd), normalize=p.get("normalize", True))
                except (RuntimeError, ValueError) as e:
                    if clause == "rejects-only-negative":
                        return isinstance(e, RuntimeError) and min(ws) >= 0, f"rejected {ws}: {e}"
                    if clause == "rejects-only-zero-or-tiny-norm":
                        return isinstance(e, ValueError) and (min(ws) < 0 or sum(ws) >= 1e-6), f"rejected {ws}: {e}"
                    return False, f"rejected: {e}"
                dd = d.distribution_dict
                vs = [dd[k] for k in keys] if list(dd.keys()) == keys else None
                if clause == "keys-preserved":
                    return vs is None, str(dd)
                if vs is None:
                    return False, "keys differ"
                if clause == "accepted-nonnegative":
                    return min(vs) < 0 or min(ws) < 0, f"{ws} -> {vs}"
                if clause == "accepted-sums-to-one":
                    return abs(sum(vs) - 1) > 2e-8, f"sum {sum(vs)}"
                if clause == "accepted-proportional":
                    tot, s = sum(ws), sum(vs)
                    return any(abs(v * tot - w * s) > 1e-9 * (1 + abs(tot)) for v, w in zip(vs, ws)), f"{ws} -> {vs}"
                return False, "not reproduced"
            kt, km = [tuple(k) for k in p["tkeys"]], [tuple(k) for k in p["mkeys"]]
            t = MOD({k: float(vals.get(f"t{i}", 1 / len(kt))) for i, k in enumerate(kt)}, normalize=False)
            m = MOD({k: float(vals.get(f"m{i}", 1 / len(km))) for i, k in enumerate(km)}, normalize=False)
            if clause.startswith("mmd"):
                qs = [float(v) for k, v in sorted(vals.items()) if k.startswith("q_")] or [0.5]
                sig = [-1 / (2 * math.log(q)) for q in qs]
                prm = {"sigma": sig[0] if len(sig) == 1 else sig}
                try:
                    ab, ba, aa = compute_mmd(t, m, prm), compute_mmd(m, t, prm), compute_mmd(t, t, prm)
                except Exception as e:
                    return clause == "mmd-raises", f"raised {type(e).__name__}: {e}"
                if clause == "mmd-symmetric":
                    return abs(ab - ba) > 1e-9, f"{ab} vs {ba}"
                if clause == "mmd-zero-on-equal":
                    return abs(aa) > 1e-9, f"{aa}"
                if clause == "mmd-nonnegative":
                    return ab < -1e-9, f"{ab}"
                allk = sorted(set(kt) | set(km))
                code = {k: int("".join(map(str, k)), 2) for k in allk}
                dv = {k: t.distribution_dict.get(k, 0) - m.distribution_dict.get(k, 0) for k in allk}
                want = sum(dv[a] * dv[b] * sum(q ** ((code[a] - code[b]) ** 2) for q in qs) / len(qs) for a in allk for b in allk)
                return abs(ab - want) > 1e-9, f"{ab} vs {want}"
            eps = float(vals.get("eps", 1e-3))
            prm = {"epsilon": eps}
            if clause.startswith("wrapper-returns-the-measure"):
                from orquestra.quantum.distributions import evaluate_distribution_distance as EDD, MeasurementOutcomeDistribution as MOD2

                t2 = MOD2(dict(t.distribution_dict), normalize=False)
                a, b = {"pair": (t, m), "one-object": (t, t), "equal-objects": (t, t2)}[clause.split(":", 1)[1]]
                for fn_ in (compute_clipped_negative_log_likelihood, compute_jensen_shannon_divergence):
                    direct, via = fn_(a, b, prm), EDD(a, b, fn_, distance_measure_parameters=prm)
                    if abs(direct - via) > 1e-12:
                        return True, f"evaluate_distribution_distance(..., {fn_.__name__}) = {via} but the measure itself gives {direct}"
                return False, "wrapper agrees with the measure"
            try:
                nll = compute_clipped_negative_log_likelihood(t, m, prm)
                jab, jba = compute_jensen_shannon_divergence(t, m, prm), compute_jensen_shannon_divergence(m, t, prm)
            except Exception as e:
                return clause == "nll-raises", f"raised {type(e).__name__}: {e}"
            if clause == "jsd-symmetric":
                return abs(jab - jba) > 1e-9, f"{jab} vs {jba}"
            allk = sorted(set(kt) | set(km))
            H = -sum(v * math.log(v) for v in t.distribution_dict.values() if v > 0)
            cs = sum(max(eps, m.distribution_dict.get(k, 0)) for k in allk)
            return nll < H - (cs - 1) - 1e-9, f"nll {nll} vs entropy {H} - ({cs} - 1)"
    except Exception:
        import traceback

        return False, "replay raised: " + traceback.format_exc()[-600:]
