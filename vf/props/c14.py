"""C14 - runners validate requests, deliver enough shots and count their work correctly.
E3 (CrossHair): one inductive step from an arbitrary counter pre-state per entry point."""
import io
import json
import os
import tempfile

import numpy as np

from ..core import Result, pmap
from .. import xhair as XH
from .c13 import parse_call_args

LEVEL = "model_checking"

HARNESS = '''
CR = load_cut("orquestra.quantum.api.circuit_runner", "vf_cut_cr")
WS = load_cut("orquestra.quantum.api.wavefunction_simulator", "vf_cut_ws", use={"orquestra.quantum.api.circuit_runner": CR})
TR = load_cut("orquestra.quantum.runners.trackers", "vf_cut_tr", use={"orquestra.quantum.api.circuit_runner": CR})
from orquestra.quantum.circuits import Circuit
import numpy as _np


class Res:
    def __init__(self, c, n):
        self.c, self.n = c, n

    def get_distribution(self):
        return ("D", self.c, self.n)


class Stub(CR.BaseCircuitRunner):
    def __init__(self, c0, j0):
        super().__init__()
        self._n_circuits_executed, self._n_jobs_executed = c0, j0
        self.calls = []

    def _run_and_measure(self, circuit, n_samples):
        self.calls.append((circuit, n_samples))
        return Res(circuit, n_samples)


def h_single(c0: int, j0: int, n: int) -> bool:
    """
    pre: c0 >= 0 and j0 >= 0
    post: _
    """
    r = Stub(c0, j0)
    try:
        out = r.run_and_measure("circ", n)
    except ValueError:
        return n <= 0 and r.n_circuits_executed == c0 and r.n_jobs_executed == j0 and r.calls == []
    return n > 0 and out.c == "circ" and out.n == n and r.n_circuits_executed == c0 + 1 and r.n_jobs_executed == j0 + 1 and r.calls == [("circ", n)]


def h_single_twin(c0: int, j0: int, n: int) -> bool:
    """
    pre: c0 >= 0 and j0 >= 0
    post: _
    """
    r = Stub(c0, j0)
    try:
        r.run_and_measure("circ", n)
    except ValueError:
        return True
    return False      # reachability of the accepting path: must be refuted


def h_batch_list(c0: int, j0: int, ns: List[int], k: int) -> bool:
    """
    pre: c0 >= 0 and j0 >= 0 and len(ns) <= 3 and 0 <= k <= 3
    post: _
    """
    r = Stub(c0, j0)
    circuits = ["c%d" % i for i in range(k)]
    valid = len(ns) == k and all(n > 0 for n in ns)
    try:
        out = r.run_batch_and_measure(circuits, ns)
    except ValueError:
        return (not valid) and r.n_circuits_executed == c0 and r.n_jobs_executed == j0 and r.calls == []
    if not valid or len(out) != k:
        return False
    if any(o.c != c or o.n != n for o, c, n in zip(out, circuits, ns)):
        return False
    return r.n_circuits_executed == c0 + k and r.n_jobs_executed == j0 + k and r.calls == list(zip(circuits, ns))


def h_batch_int(c0: int, j0: int, n: int, k: int) -> bool:
    """
    pre: c0 >= 0 and j0 >= 0 and 0 <= k <= 3
    post: _
    """
    r = Stub(c0, j0)
    circuits = ["c%d" % i for i in range(k)]
    valid = n > 0 or k == 0
    try:
        out = r.run_batch_and_measure(circuits, n)
    except ValueError:
        return (not valid) and r.n_circuits_executed == c0 and r.n_jobs_executed == j0 and r.calls == []
    return valid and len(out) == k and all(o.c == c and o.n == n for o, c in zip(out, circuits)) and r.n_circuits_executed == c0 + k and r.n_jobs_executed == j0 + k


def h_distribution(c0: int, j0: int, n: int, none: bool) -> bool:
    """
    pre: c0 >= 0 and j0 >= 0
    post: _
    """
    r = Stub(c0, j0)
    arg = None if none else n
    try:
        out = r.get_measurement_outcome_distribution("circ", arg)
    except ValueError:
        return (none or n <= 0) and r.n_circuits_executed == c0 and r.n_jobs_executed == j0 and r.calls == []
    return (not none) and n > 0 and out == ("D", "circ", n) and r.n_circuits_executed == c0 + 1 and r.n_jobs_executed == j0 + 1 and r.calls == [("circ", n)]


class Op:
    def __init__(self, native, tag):
        self.native, self.tag = native, tag
        self.qubit_indices = (0,)
        self.params = ()
        self.free_symbols = []

    def apply(self, state):
        LOG.append(("apply", self.tag))
        return state


LOG = []


class Sim(WS.BaseWavefunctionSimulator):
    def is_natively_supported(self, op):
        return op.native

    def _get_wavefunction_from_native_circuit(self, circuit, initial_state):
        LOG.append(("native", tuple(op.tag for op in circuit.operations), circuit.n_qubits))
        return initial_state


def _runs(flags):
    runs = []
    for f in flags:
        if runs and runs[-1][0] == f:
            runs[-1][1] += 1
        else:
            runs.append([f, 1])
    return runs


def h_sim_counters(c0: int, j0: int, flags: List[bool]) -> bool:
    """
    pre: c0 >= 0 and j0 >= 0 and len(flags) <= 4
    post: _
    """
    del LOG[:]
    sim = Sim()
    sim._n_circuits_executed, sim._n_jobs_executed = c0, j0
    ops = [Op(f, i) for i, f in enumerate(flags)]
    circ = Circuit(ops, n_qubits=2)
    wf = sim.get_wavefunction(circ)
    runs = _runs(flags)
    if sim.n_jobs_executed != j0 + len(runs) or sim.n_circuits_executed != c0 + sum(1 for f, _ in runs if f):
        return False
    # every operation handled exactly once, in order, native runs handed over whole and at full width
    seen = []
    for e in LOG:
        if e[0] == "apply":
            seen.append(e[1])
        else:
            if e[2] != 2:
                return False
            seen += list(e[1])
    return seen == list(range(len(flags))) and len(wf) == 4


def h_sim_rejects(c0: int, j0: int, n: int) -> bool:
    """
    pre: c0 >= 0 and j0 >= 0 and n <= 0
    post: _
    """
    del LOG[:]
    sim = Sim()
    sim._n_circuits_executed, sim._n_jobs_executed = c0, j0
    circ = Circuit([Op(True, 0)], n_qubits=1)
    ok = True
    for call in (lambda: sim.run_and_measure(circ, n), lambda: sim.get_measurement_outcome_distribution(circ, n), lambda: sim.run_batch_and_measure([circ, circ], n), lambda: sim.run_batch_and_measure([circ], [1, n]), lambda: sim.run_batch_and_measure([circ, circ], [n, 1])):
        try:
            call()
            ok = False
        except ValueError:
            pass
        ok = ok and sim.n_circuits_executed == c0 and sim.n_jobs_executed == j0 and LOG == []
    return ok


class FakeM:
    def __init__(self, n):
        self.n = n
        self.bitstrings = [(0, 1)] * 0

    def get_counts(self):
        return {"01": self.n}


class Inner:
    def __init__(self):
        self.calls = []

    def run_and_measure(self, c, n):
        if n <= 0:
            raise ValueError("bad")
        self.calls.append(("single", c, n))
        return FakeM(n)

    def run_batch_and_measure(self, cs, n):
        ns = len(cs) * [n] if isinstance(n, int) else n
        if len(ns) != len(cs) or any(x <= 0 for x in ns):
            raise ValueError("bad")
        self.calls.append(("batch", tuple(cs), tuple(ns)))
        self.last = [FakeM(x) for x in ns]
        return self.last

    def get_measurement_outcome_distribution(self, c, n):
        if n is not None and n <= 0:
            raise ValueError("bad")
        self.calls.append(("dist", c, n))
        self.lastd = ("D", c, n)
        return self.lastd


class Tracker(TR.MeasurementTrackingBackend):
    def record_raw_measurement_data(self, circuit, measurement, *more, **kw):  # tolerant of added optional arguments
        self.recorded = getattr(self, "recorded", 0) + 1
        self.seen = getattr(self, "seen", []) + [measurement]

    def save_raw_data(self):
        self.saved = getattr(self, "saved", 0) + 1


def h_tracker_single(c0: int, j0: int, n: int) -> bool:
    """
    pre: c0 >= 0 and j0 >= 0
    post: _
    """
    inner = Inner()
    t = Tracker(inner, "unused")
    t._n_circuits_executed, t._n_jobs_executed = c0, j0
    try:
        out = t.run_and_measure("c", n)
    except ValueError:
        return n <= 0 and t.n_circuits_executed == c0 and t.n_jobs_executed == j0 and inner.calls == []
    return n > 0 and isinstance(out, FakeM) and out.n == n and inner.calls == [("single", "c", n)] and t.n_circuits_executed == c0 + 1 and t.n_jobs_executed == j0 + 1 and t.recorded == 1


class PadM(FakeM):
    def __init__(self, n, pad):
        self.n = n
        self.bitstrings = [(0, 1)] * (n + pad)


class PaddingInner(Inner):
    """an inner runner that returns MORE shots than requested (the contract allows it)"""

    def __init__(self, pad):
        Inner.__init__(self)
        self.pad = pad

    def run_and_measure(self, c, n):
        if n <= 0:
            raise ValueError("bad")
        self.calls.append(("single", c, n))
        self.last_single = PadM(n, self.pad)
        return self.last_single


def h_tracker_single_padded(n: int, pad: int) -> bool:
    """
    pre: 1 <= n <= 3 and 0 <= pad <= 2
    post: _
    """
    inner = PaddingInner(pad)
    t = Tracker(inner, "unused")
    out = t.run_and_measure("c", n)
    return out is inner.last_single and len(out.bitstrings) == n + pad and t.recorded == 1 and t.seen[-1] is out


def h_tracker_batch(c0: int, j0: int, ns: List[int], k: int) -> bool:
    """
    pre: c0 >= 0 and j0 >= 0 and len(ns) <= 3 and 0 <= k <= 3
    post: _
    """
    inner = Inner()
    t = Tracker(inner, "unused")
    t._n_circuits_executed, t._n_jobs_executed = c0, j0
    cs = ["c%d" % i for i in range(k)]
    valid = len(ns) == k and all(x > 0 for x in ns)
    try:
        out = t.run_batch_and_measure(cs, ns)
    except ValueError:
        return (not valid) and t.n_circuits_executed == c0 and t.n_jobs_executed == j0 and inner.calls == []
    return valid and out is inner.last and t.n_circuits_executed == c0 + k and t.n_jobs_executed == j0 + 1 and getattr(t, "recorded", 0) == k
'''

EXPECT_REFUTED = {"h_single_twin"}


def harness_namespace():
    ns = {}
    exec(compile(XH.HEADER.format(verif=XH.VERIF, repo=XH.REPO) + HARNESS, "<c14-harness>", "exec"), ns)
    return ns


# ---------------------------------------------------------------------------
# ground instances: the real simulator and the real tracker with its JSON file


def ground_cases():
    from orquestra.quantum import circuits as C

    return {
        "bell": lambda: C.Circuit([C.H(0), C.CNOT(0, 1)]),
        "idle": lambda: C.Circuit([C.X(1)], n_qubits=3),
        "empty2": lambda: C.Circuit(n_qubits=2),
        "one": lambda: C.Circuit([C.RX(0.3)(0)]),
    }


def sim_ground_bad(case, n):
    from orquestra.quantum.runners.symbolic_simulator import SymbolicSimulator

    c = ground_cases()[case]()
    sim = SymbolicSimulator(seed=7)
    c0, j0 = sim.n_circuits_executed, sim.n_jobs_executed
    m = sim.run_and_measure(c, n)
    if len(m.bitstrings) < n:
        return f"{len(m.bitstrings)} shots for n={n}"
    if any(len(b) != c.n_qubits for b in m.bitstrings):
        return f"bitstring lengths {sorted(set(len(b) for b in m.bitstrings))} for width {c.n_qubits}"
    if sim.n_circuits_executed < c0 or sim.n_jobs_executed < j0:
        return "counter decreased"
    before = (sim.n_circuits_executed, sim.n_jobs_executed)
    for bad in (0, -3):
        for call in (lambda: sim.run_and_measure(c, bad), lambda: sim.get_measurement_outcome_distribution(c, bad), lambda: sim.run_batch_and_measure([c, c], [n, bad]), lambda: sim.run_batch_and_measure([c], [n, n])):
            try:
                call()
                return f"invalid request accepted (n={bad})"
            except ValueError:
                pass
            if (sim.n_circuits_executed, sim.n_jobs_executed) != before:
                return f"counters changed by a rejected call: {before} -> {(sim.n_circuits_executed, sim.n_jobs_executed)}"
    outs = sim.run_batch_and_measure([c, c, c], [n, 1, n + 1])
    if [len(o.bitstrings) >= w for o, w in zip(outs, [n, 1, n + 1])] != [True] * 3:
        return "batch delivered too few shots"
    d = sim.get_measurement_outcome_distribution(c, n)
    if abs(sum(d.distribution_dict.values()) - 1) > 1e-9:
        return "distribution not normalised"
    return None


def tracker_ground_bad(case, n, record_bitstrings):
    from orquestra.quantum.runners.symbolic_simulator import SymbolicSimulator
    from orquestra.quantum.runners.trackers import MeasurementTrackingBackend
    from orquestra.quantum.circuits import to_dict

    c = ground_cases()[case]()
    fd, path = tempfile.mkstemp(prefix="vf-c14-", dir="/var/tmp")
    os.close(fd)
    try:
        inner = SymbolicSimulator(seed=3)
        returned = []
        orig = inner.run_and_measure

        def spy(circ, k):
            r = orig(circ, k)
            returned.append(r)
            return r

        inner.run_and_measure = spy
        t = MeasurementTrackingBackend(inner, path, record_bitstrings)
        out = t.run_and_measure(c, n)
        if out is not returned[-1]:
            return "tracker did not return the wrapped runner's result object"
        rec = json.load(open(path))["raw-data"]
        if len(rec) != 1:
            return f"{len(rec)} records after one call"
        r = rec[0]
        if r["counts"] != out.get_counts() or r["number_of_shots"] != len(out.bitstrings) or r["circuit"] != json.loads(json.dumps(to_dict(c))) or r["number_of_gates"] != len(c.operations):
            return f"record {r} does not match the result"
        if record_bitstrings and r.get("bitstrings") != [list(b) for b in out.bitstrings]:
            return "recorded bitstrings differ"
        if (t.n_circuits_executed, t.n_jobs_executed) != (1, 1):
            return f"counters {(t.n_circuits_executed, t.n_jobs_executed)} after one run"
        try:
            t.run_and_measure(c, 0)
            return "invalid request accepted"
        except ValueError:
            pass
        try:
            t.run_batch_and_measure([c, c], [n, 0])
            return "invalid batch accepted"
        except ValueError:
            pass
        if (t.n_circuits_executed, t.n_jobs_executed) != (1, 1):
            return f"counters changed by rejected calls: {(t.n_circuits_executed, t.n_jobs_executed)}"
        outs = t.run_batch_and_measure([c, c], [n, n + 2])
        rec = json.load(open(path))["raw-data"]
        if len(rec) != 2 or [x["number_of_shots"] for x in rec] != [len(o.bitstrings) for o in outs] or [x["counts"] for x in rec] != [o.get_counts() for o in outs]:
            return "batch records do not match the batch results"
        if (t.n_circuits_executed, t.n_jobs_executed) != (3, 2):
            return f"counters {(t.n_circuits_executed, t.n_jobs_executed)} after a batch of 2"
        d = t.get_measurement_outcome_distribution(c, n)
        rec = json.load(open(path))["raw-data"]
        if len(rec) != 1 or rec[0]["number_of_shots"] != n or rec[0]["distribution"] != repr(d):
            return "distribution record does not match"
        # a history of temporary circuits on one tracker: every record carries the circuit of ITS call
        from orquestra.quantum.circuits import Circuit, RX, H

        t2 = MeasurementTrackingBackend(SymbolicSimulator(seed=5), path, False)
        for k in range(40):
            tmp = Circuit([RX(0.1 * k)(0)] + ([H(1)] if k % 3 == 0 else []))
            want = json.loads(json.dumps(to_dict(tmp)))
            res = t2.run_and_measure(tmp, 2)
            del tmp
            rec = json.load(open(path))["raw-data"]
            if rec[-1]["circuit"] != want or rec[-1]["counts"] != res.get_counts():
                return f"record of call {k} in a history of temporary circuits does not carry that call's circuit / counts"
    finally:
        os.unlink(path)
    return None


def tracker_padded_bad(n, pad, record_bitstrings):
    """the real tracker (real JSON file) around a base-class runner that pads its shots: the tracker returns exactly what
    the wrapped runner returned and the record matches it"""
    from orquestra.quantum.api.circuit_runner import BaseCircuitRunner
    from orquestra.quantum.measurements import Measurements
    from orquestra.quantum.runners.trackers import MeasurementTrackingBackend
    from orquestra.quantum.circuits import Circuit, X, H

    class Padding(BaseCircuitRunner):
        def __init__(self):
            super().__init__()
            self.returned = []

        def _run_and_measure(self, circuit, n_samples):
            m = Measurements([tuple((i + q) % 2 for q in range(circuit.n_qubits)) for i in range(n_samples + pad)])
            self.returned.append(m)
            return m

    c = Circuit([X(0), H(1)])
    fd, path = tempfile.mkstemp(prefix="vf-c14-", dir="/var/tmp")
    os.close(fd)
    try:
        inner = Padding()
        t = MeasurementTrackingBackend(inner, path, record_bitstrings)
        out = t.run_and_measure(c, n)
        if out is not inner.returned[-1]:
            return f"tracker returned {len(out.bitstrings)} shots in a new object; the wrapped runner returned {len(inner.returned[-1].bitstrings)}"
        r = json.load(open(path))["raw-data"][-1]
        if r["number_of_shots"] != n + pad or r["counts"] != inner.returned[-1].get_counts():
            return f"record (shots {r['number_of_shots']}, counts {r['counts']}) does not match what the wrapped runner returned ({n + pad} shots)"
        outs = t.run_batch_and_measure([c, c], [n, n + 1])
        if [len(o.bitstrings) for o in outs] != [len(m.bitstrings) for m in inner.returned[-2:]] or any(a is not b for a, b in zip(outs, inner.returned[-2:])):
            return "batch results are not the wrapped runner's results"
        rec = json.load(open(path))["raw-data"]
        if [x["number_of_shots"] for x in rec[-2:]] != [len(o.bitstrings) for o in outs]:
            return "batch records do not match the wrapped runner's results"
    finally:
        os.unlink(path)
    return None


def work(item):
    kind, p = item
    res = Result(f"{kind}|{p['label']}")
    res.d["ground_instances"] += 1
    res.d["instances"] -= 1
    res.ob(1)
    try:
        bad = sim_ground_bad(p["case"], p["n"]) if kind == "sim-ground" else tracker_padded_bad(p["n"], p["pad"], p["rb"]) if kind == "tracker-padded" else tracker_ground_bad(p["case"], p["n"], p["rb"])
    except Exception as e:
        import traceback

        bad = f"raised {type(e).__name__}: {e} {traceback.format_exc()[-300:]}"
    if bad:
        res.candidate(kind, f"{p['label']}: {bad}", dict(p, clause=kind, values={}), sub=kind)
    else:
        res.ob(0, 1, "ground-structure")
    return res.as_dict()


def run(ctx):
    from orquestra.quantum.api import circuit_runner as CRm, wavefunction_simulator as WSm
    from orquestra.quantum.runners import trackers as TRm

    try:  # evidence only: a renamed private helper must not break the check
        ctx.fn(CRm.BaseCircuitRunner.run_and_measure, CRm.BaseCircuitRunner.run_batch_and_measure, CRm.BaseCircuitRunner._run_batch_and_measure, CRm.BaseCircuitRunner.get_measurement_outcome_distribution, WSm.BaseWavefunctionSimulator.get_wavefunction, WSm.BaseWavefunctionSimulator.run_and_measure, WSm.BaseWavefunctionSimulator.get_measurement_outcome_distribution, TRm.MeasurementTrackingBackend.run_batch_and_measure, TRm.MeasurementTrackingBackend._run_and_measure)
    except AttributeError:
        pass
    tmo = 40 if ctx.tier == "quick" else 240
    only = getattr(ctx, "only", None)
    if not only or only.startswith("h_") or only == "xh":
        results = XH.run_crosshair(HARNESS, per_condition_timeout=tmo, only=(only if only and only.startswith("h_") else None))
        ctx.cuts.append("CUT-FMT on circuit_runner.py / wavefunction_simulator.py / trackers.py; _run_and_measure, the native hook, operations and the tracker's record/save are counting stubs")
        for name, (verdict, detail, secs) in sorted(results.items()):
            ctx.instances += 1
            ctx.solver_s += secs
            ctx.solver_queries += 1
            if name in EXPECT_REFUTED:
                ctx.vacuity_twins += 1
                if verdict == "refuted":
                    ctx.vacuity_ok += 1
                else:
                    ctx.harness_errors.append(f"reachability twin {name} was not refuted ({verdict}): {detail[:200]}")
                continue
            ctx.obligations += 1
            ctx.nontrivial.add(name)
            ctx.sample({"crosshair_harness": name, "verdict": verdict, "seconds": round(secs, 1)})
            if verdict == "confirmed":
                ctx.discharged += 1
                ctx.stage("E3:crosshair-confirmed-over-all-paths")
            elif verdict == "refuted":
                ctx.candidates.append({"key": f"xh|{name}", "clause": name, "what": f"CrossHair counterexample: {detail[:250]}", "inputs": {"harness": name, "args": parse_call_args(detail, name), "clause": name, "detail": detail[:400]}})
            else:
                ctx.inconc(f"xh|{name}", f"CrossHair: {verdict} within {tmo}s per condition (bug-hunting only): {detail[:150]}")
    items = []
    for case in ground_cases():
        for n in (1, 3, 4, 5, 17):
            items.append(("sim-ground", {"case": case, "n": n, "label": f"simulator {case} n={n}"}))
        for rb in (False, True):
            items.append(("tracker-ground", {"case": case, "n": 3, "rb": rb, "label": f"tracker {case} n=3 record_bitstrings={rb}"}))
    for n, pad in ((1, 0), (1, 3), (5, 1), (10, 6)):
        for rb in (False, True):
            items.append(("tracker-padded", {"n": n, "pad": pad, "rb": rb, "label": f"tracker around a padding runner n={n} pad={pad} record_bitstrings={rb}"}))
    if only:
        items = [it for it in items if only in it[1]["label"] or only == it[0]]
    for it, out in pmap(work, items):
        ctx.merge(out)
    ctx.bounds = {
        "crosshair": "arbitrary non-negative counter pre-state; symbolic n_samples; per-circuit lists <= 3 vs batches <= 3; simulator circuits of <= 4 mock operations with symbolic native flags; per-condition timeout %ds" % tmo,
        "ground": "SymbolicSimulator on 4 circuits (incl. empty and idle qubits) x 5 sample sizes across both sampling regimes; tracker with the real JSON file",
    }
    ctx.assume("one inductive step per entry point from an arbitrary counter state covers call histories of any length for the counter clauses", "shots >= requested and bitstring length = width for the real simulator are ground instances (numpy sampling); C04 treats the sampler symbolically")
    ctx.extra["explanation"] = (
        "BaseCircuitRunner / BaseWavefunctionSimulator / MeasurementTrackingBackend entry points are explored by CrossHair from an arbitrary counter pre-state with symbolic arguments: "
        "invalid => ValueError, counters unchanged, nothing executed; valid => one result per circuit in order, counters grow by exactly the work done (maximal runs for the simulator)."
    )


def replay(data):
    inp = data["inputs"]
    try:
        if "harness" in inp:
            if not inp.get("args"):
                return False, "could not parse the counterexample arguments"
            ns = harness_namespace()
            try:
                r = ns[inp["harness"]](*inp["args"].get("pos", []), **inp["args"].get("kw", {}))
            except Exception as e:
                return True, f"harness raised {type(e).__name__}: {e} for {inp['args']}"
            return (r is False), f"{inp['harness']}({inp['args']}) returned {r}"
        p = inp
        bad = sim_ground_bad(p["case"], p["n"]) if inp["clause"] == "sim-ground" else tracker_padded_bad(p["n"], p["pad"], p["rb"]) if inp["clause"] == "tracker-padded" else tracker_ground_bad(p["case"], p["n"], p["rb"])
        return bool(bad), bad or "ok"
    except Exception:
        import traceback

        return True, "raised: " + traceback.format_exc()[-500:]
