"""C18 - decomposing a circuit never changes what it does (up to one global phase). E1."""
import itertools
import math

import numpy as np
import sympy

from ..core import Result, pmap
from ..front import install_numpy_sympy_shim, Refuse
from ..solve import Prover, first_violation
from .. import circ as CS

LEVEL = "model_checking"


def rules_from_spec(names):
    from orquestra.quantum.decompositions import U3GateToRotation
    from orquestra.quantum.circuits import _builtin_gates as B

    class HToU3:
        """Marker rule: H -> U3(pi/2, 0, pi) (equal to H exactly); observes rule ordering."""

        def predicate(self, op):
            return op.gate.name == "H"

        def production(self, op):
            return [B.U3(math.pi / 2, 0, math.pi)(*op.qubit_indices)]

    class XToHZH:
        def predicate(self, op):
            return op.gate.name == "X"

        def production(self, op):
            q = op.qubit_indices
            return [B.H(*q), B.Z(*q), B.H(*q)]

    table = {"U3": U3GateToRotation, "H2U3": HToU3, "X2HZH": XToHZH}
    return [table[n]() for n in names]


def _cand(res, clause, what, p, w=None):
    res.candidate(clause, what, dict(p, clause=clause, values=w or {}), sub=clause)


def _prop_obligations(F, X, Y, pivots):
    A = F.alg
    Xm, Ym = F.mat(X), F.mat(Y)
    if len(Xm) != len(Ym):
        raise Refuse(f"dimension {len(Xm)} vs {len(Ym)}")
    out = []
    n = len(Xm)
    for (a, b) in pivots:
        for i in range(n):
            for j in range(n):
                out.append((f"[{i},{j}]x[{a},{b}]", A.sub(A.mul(Xm[i][j], Ym[a][b]), A.mul(Xm[a][b], Ym[i][j]))))
    return out


def _pick_pivots(P, Y, k=2):
    """entries of Y whose exact Laurent form is not identically zero (at most k)."""
    Ym = P.LF.mat(Y)
    piv = []
    for i in range(len(Ym)):
        for j in range(len(Ym)):
            if not Ym[i][j].is_zero():
                piv.append((i, j))
    # spread: first and last non-zero
    if len(piv) > k:
        piv = [piv[0], piv[len(piv) // 2]][:k]
    return piv


def work(item):
    install_numpy_sympy_shim()
    kind, p = item
    res = Result(f"{kind}|{p['label']}")
    from orquestra.quantum.decompositions import _decomposition as D, _orquestra_decompositions as OD

    try:  # evidence only: a renamed private helper must not break the check
        res.fn(D.decompose_operation, D.decompose_operations, OD.U3GateToRotation.predicate, OD.U3GateToRotation.production, OD.decompose_orquestra_circuit)
    except AttributeError:
        pass
    try:
        _work(res, p)
    except Refuse as e:
        res.ob(1)
        res.inconc(f"translation refused: {e}")
    return res.as_dict()


def _work(res, p):
    from orquestra.quantum.decompositions import decompose_orquestra_circuit, U3GateToRotation

    specs = [tuple(s) for s in p["specs"]]
    c = CS.circuit_from_spec(specs, p.get("n"))
    rules = rules_from_spec(p["rules"])
    before = list(c.operations)
    d = decompose_orquestra_circuit(c, rules)
    if c.free_symbols:
        res.nontrivial()
    else:
        res.d["ground_instances"] += 1
        res.d["instances"] -= 1
    # structure
    res.ob(1)
    probs = []
    if list(c.operations) != before:
        probs.append("input circuit modified")
    if d.n_qubits != c.n_qubits:
        probs.append(f"register width {c.n_qubits} -> {d.n_qubits}")
    if not p["rules"] and not (d == c):
        probs.append("empty rule list did not return an equal circuit")
    # operations no rule applies to are kept unchanged and in order
    preds = [r.predicate for r in rules]
    untouched = [op for op in before if not any(pr(op) for pr in preds)]
    it = iter(d.operations)
    if not all(any(op == o for o in it) for op in untouched):
        probs.append("operations no rule applies to are not all kept in order")
    if p["rules"] and p["rules"][-1] == "U3":
        u3 = U3GateToRotation()
        if any(u3.predicate(op) for op in d.operations):
            probs.append("a U3 operation survived the U3 rule")
    # the operation-level entry point takes any iterable of operations: a one-shot one (iterator, generator, map, reversed) must give
    # what the list gives
    from orquestra.quantum.decompositions import decompose_operations

    try:
        ref = list(decompose_operations(list(before), rules))
        for nm, mk in (("iter", lambda: iter(list(before))), ("generator", lambda: (o for o in before)), ("map", lambda: map(lambda o: o, before)), ("reversed", lambda: reversed(list(reversed(before)))), ("tuple", lambda: tuple(before))):
            got = list(decompose_operations(mk(), rules))
            if got != ref:
                probs.append(f"decompose_operations on a {nm} of the operations gives {len(got)} operations, on the list {len(ref)}")
                break
        if ref != list(d.operations):
            probs.append("decompose_operations(list) differs from the circuit-level result")
    except ImportError:
        pass
    # rule order: applying the list equals applying the rules one after another
    step = c
    for r in rules:
        step = decompose_orquestra_circuit(step, [r])
    if list(step.operations) != list(d.operations):
        probs.append("applying the rule list differs from applying the rules one after another")
    if probs:
        _cand(res, "decomposition-structure", "; ".join(probs)[:300], p)
    else:
        res.ob(0, 1, "concrete-structure")
    if d.n_qubits != c.n_qubits or not c.operations or not p.get("unitary", True):
        return
    # numeric twin (ground, no solver): every remaining symbol bound to a number, real numpy matrices, distance from proportionality
    if p["label"].startswith(("numeric", "ctlz")):
        res.d["ground_instances"] += 1
        res.ob(1)
        bad = _numeric_twin_bad(p)
        if bad:
            _cand(res, "same-action-numeric", f"decomposition of [{CS.spec_str(specs)}] with rules {p['rules']} at numeric angles: {bad}", p)
        else:
            res.ob(0, 1, "ground-numeric")
    U, Ud = c.to_unitary(), d.to_unitary()
    P = Prover(res)
    piv = _pick_pivots(P, U)
    r = P.prove_zero("same-action", lambda F: _prop_obligations(F, Ud, U, piv), "same-action-up-to-phase", sub="same-action-up-to-phase")
    fv = first_violation(r)
    if fv:
        _cand(res, "same-action-up-to-phase", f"decomposition of [{CS.spec_str(specs)}] with rules {p['rules']} is not proportional to the original (minor {fv[0]})", p, fv[1])
    res.sample({"circuit": CS.spec_str(specs), "rules": p["rules"], "n": c.n_qubits})


def _numeric_twin_bad(p):
    from orquestra.quantum.decompositions import decompose_orquestra_circuit

    worst = None
    for vals in ({"th0": 0.37, "th1": -1.9, "th2": 7.3}, {"th0": -2.6, "th1": 6.9, "th2": -0.45}):
        c = CS.circuit_from_spec([tuple(s) for s in p["specs"]], p.get("n"))
        c = c.bind({s: vals.get(str(s), 0.61) for s in c.free_symbols})
        d = decompose_orquestra_circuit(c, rules_from_spec(p["rules"]))
        X, Y = np.array(d.to_unitary(), dtype=complex), np.array(c.to_unitary(), dtype=complex)
        if X.shape != Y.shape:
            return f"shape {X.shape} vs {Y.shape}"
        k = np.vdot(Y, X) / np.vdot(Y, Y)
        dist = float(np.abs(X - k * Y).max())
        if dist > 1e-9:
            worst = f"distance from a multiple of the original {dist:.3g} at {vals}"
    return worst


SPECIAL = [0.0, math.pi, math.pi / 2, 2 * math.pi, -math.pi, 0.3, 1.7]


def instances(tier, seed):
    items = []
    U3s = "U3(th0,th1,th2)"

    def add(specs, rules, n=None, tag="", unitary=True):
        items.append(("dec", {"specs": [[g, list(q)] for g, q in specs], "rules": rules, "n": n, "unitary": unitary, "label": f"{tag}n={n} {CS.spec_str(specs)} rules={rules}"}))

    for n in (1, 2, 3):
        for q in range(n):
            add([(U3s, (q,))], ["U3"], n, "plain ")
    for n in (2, 3):
        for t in itertools.permutations(range(n), 2):
            add([(U3s + "|c1", t)], ["U3"], n, "ctl1 ")
    for t in ([(0, 1, 2), (2, 0, 1)] if tier == "quick" else list(itertools.permutations(range(3), 3))):
        add([(U3s + "|c2", t)], ["U3"], 3, "ctl2 ")
    # controlled rotations for which the bundled rule is exact on the pinned tree (phi + lambda = 0): symbolic ...
    for u in ("U3(th0,th1,-th1)", "U3(th0,0,0)", "U3(th0,2*th1,-2*th1)"):
        for t in ([(0, 1), (1, 0)] if tier == "quick" else list(itertools.permutations(range(3), 2))):
            add([(u + "|c1", t)], ["U3"], max(t) + 1, "ctlz1 ")
        for t in ([(2, 0, 1)] if tier == "quick" else [(0, 1, 2), (2, 0, 1), (1, 2, 0)]):
            add([(u + "|c2", t)], ["U3"], 3, "ctlz2 ")
    # ... and numeric, with angles outside [0, 2*pi) (negative, beyond one and two turns)
    for th, ph in [(-1.3, 0.7), (7.0, -6.9), (2 * math.pi + 0.5, 3 * math.pi), (0.4, 0.9), (-4 * math.pi + 0.25, 13.0), (4.5 * math.pi, -0.1),
                   # whole and half turns exactly (U3(2*pi, p, -p) = -I: a global phase alone, a relative phase under a control)
                   (2 * math.pi, 0.7), (-2 * math.pi, 1.1), (6 * math.pi, -0.3), (4 * math.pi, 0.5), (math.pi, 0.25), (0.0, 0.9), (3 * math.pi, 0.0)]:
        add([(f"U3({th!r},{ph!r},{-ph!r})|c1", (1, 0)), ("RX(th0)", (1,))], ["U3"], 2, "numeric-ctl1 ")
        add([(f"U3({th!r},0.0,0.0)|c1", (0, 1)), ("RX(th0)", (0,))], ["U3"], 2, "numeric-ctl1 ")
        if tier == "thorough" or th < 0:
            add([(f"U3({th!r},{ph!r},{-ph!r})|c2", (2, 0, 1)), ("RX(th0)", (1,))], ["U3"], 3, "numeric-ctl2 ")
    mixed = [
        [("H", (0,)), (U3s, (1,)), ("CNOT", (0, 1)), ("RX(th0)", (0,))],
        [("RZ(th1)", (1,)), (U3s, (0,)), ("U3(th2,th0,th1)", (1,)), ("XX(th0)", (1, 0))],
        [("X", (2,)), (U3s, (0,)), ("T", (2,))],
        [("RY(th0)|c1", (1, 0)), (U3s + "|dagger", (0,)), (U3s, (1,))],
    ]
    for specs in mixed:
        for rules in (["U3"], [], ["U3", "U3"], ["H2U3", "U3"], ["U3", "H2U3"], ["X2HZH", "H2U3", "U3"]):
            add(specs, rules, None if specs[0][0] != "X" else 4, "mixed ", unitary=(rules in (["U3"], ["X2HZH", "H2U3", "U3"]) and (tier == "thorough" or specs[0][0] != "X")))
    # the SAME operation (same angles, same qubits, same control count) several times in one circuit, also as one shared object:
    # whatever a rule hands back for the first occurrence must be handed back afresh for the next
    repeated = [
        [(U3s, (0,)), (U3s, (0,))],
        [(U3s, (1,)), ("CNOT", (0, 1)), (U3s, (1,)), (U3s, (1,))],
        [("U3(th0,th1,-th1)|c1", (1, 0)), ("H", (1,)), ("U3(th0,th1,-th1)|c1", (1, 0))],
        [("H", (0,)), ("RX(th0)", (1,)), ("H", (0,)), (U3s, (1,)), ("H", (0,))],
    ]
    for specs in repeated:
        add(specs, ["U3"], 2, "repeated ")
        add(specs, ["H2U3", "U3"], 2, "repeated ", unitary=(tier == "thorough"))
    add([("U3(0.4,1.1,-0.3)", (0,)), ("RX(th0)", (1,)), ("U3(0.4,1.1,-0.3)", (0,)), ("U3(0.4,1.1,-0.3)", (0,))], ["U3"], 2, "numeric-repeated ")
    add([], ["U3"], 2, "empty ")
    add([("H", (0,))], [], 3, "idle ")
    # numeric parameters incl. special angles (the value-specific branches a symbolic run cannot take)
    combos = list(itertools.product(SPECIAL, repeat=3))
    import random

    rng = random.Random(seed + 17)
    chosen = [c for c in combos if c[0] in (0.0, math.pi)] if tier == "thorough" else []
    chosen += rng.sample(combos, 12 if tier == "quick" else 60)
    chosen += [(math.pi, 0.3, 1.7), (0.0, 0.3, 1.7), (math.pi, 1.7, 0.3), (math.pi / 2, 0.0, math.pi), (2 * math.pi, 0.3, 0.3)]
    for th, ph, la in chosen:
        add([(f"U3({th!r},{ph!r},{la!r})", (0,)), ("RX(th0)", (1,))], ["U3"], 2, "numeric ")
    return items


def run(ctx):
    items = instances(ctx.tier, ctx.seed)
    if getattr(ctx, "only", None):
        items = [it for it in items if ctx.only in it[1]["label"]]
    ctx.bounds = {
        "gates": "U3(theta,phi,lambda) plain on every qubit of n <= 3, with 1 control on every ordered pair of n <= 3, with 2 controls on 3 qubits; 4 mixed circuits x 6 rule lists; numeric U3 at special angles",
        "rule_lists": "[], [U3], [U3,U3], marker rules H->U3 and X->HZH before/after the U3 rule",
        "equivalence": "rank-one proportionality X[q]*Y[p] = X[p]*Y[q] for all entries q and up to 2 pivots p not identically zero",
    }
    ctx.assume("A-ENV-1 shim", "angles real", "numeric special-angle instances are partly ground (only the spectator RX angle is symbolic)")
    for it, out in pmap(work, items):
        ctx.merge(out)
    ctx.extra["explanation"] = (
        "decompose_orquestra_circuit is executed on symbolic circuits; equality up to one global phase is the vanishing of all 2x2 minors "
        "of (vec U_dec, vec U_orig) against non-zero pivots, each decided by z3 for all angles; order/kept-operations/width/rule-chaining are concrete comparisons."
    )


def replay(data):
    install_numpy_sympy_shim()
    inp = data["inputs"]
    clause = inp["clause"]
    vals = {k: float(v) for k, v in (inp.get("values") or {}).items()}
    p = {k: v for k, v in inp.items() if k not in ("clause", "values")}
    try:
        if clause == "same-action-numeric":
            bad = _numeric_twin_bad(p)
            return bool(bad), bad or "ok"
        if clause == "decomposition-structure":
            r = Result("replay")
            _work(r, dict(p, label="replay"))
            c = [c for c in r.d["candidates"] if c["clause"] == clause]
            return bool(c), (c[0]["what"] if c else "no violation on re-execution")
        from orquestra.quantum.decompositions import decompose_orquestra_circuit

        c = CS.circuit_from_spec([tuple(s) for s in p["specs"]], p.get("n"))
        d = decompose_orquestra_circuit(c, rules_from_spec(p["rules"]))
        X, Y = CS.np_matrix(d.to_unitary(), vals), CS.np_matrix(c.to_unitary(), vals)
        if X.shape != Y.shape:
            return True, f"shape {X.shape} vs {Y.shape}"
        # distance from proportionality: || X - (<Y,X>/<Y,Y>) Y ||
        k = np.vdot(Y, X) / np.vdot(Y, Y)
        dist = np.abs(X - k * Y).max()
        return bool(dist > 1e-6), f"distance from a multiple of the original {dist:.3g}, |factor|={abs(k):.6f} at {vals}"
    except Exception:
        import traceback

        return False, "replay raised: " + traceback.format_exc()[-500:]
