"""Shared plumbing: repo import path, run context, evidence, known findings, replays."""
import hashlib
import inspect
import json
import os
import re
import subprocess
import sys
import time
import traceback

VERIF = os.path.dirname(os.path.dirname(os.path.abspath(__file__)))
REPO = os.environ.get("VERIF_REPO", "/repo")
GUARD = "ORQUESTRA_QUANTUM_VERIF"
# runs against a scratch copy of the repository (self-tests with seeded changes) must not overwrite the
# evidence / replay files of /repo itself
# (one directory per scratch copy, so that concurrent scratch runs never share replay files)
OUT_DIR = VERIF if os.path.realpath(REPO) == "/repo" else os.environ.get("VERIF_OUT", os.path.realpath(REPO).rstrip("/") + ".out")

EXIT_OK, EXIT_VIOLATION, EXIT_HARNESS = 0, 1, 3


def use_repo():
    """Make `import orquestra.quantum` resolve to REPO's current working tree."""
    src = os.path.join(REPO, "src")
    if src not in sys.path:
        sys.path.insert(0, src)
    os.environ[GUARD] = "1"
    import orquestra.quantum  # noqa: F401

    got = os.path.realpath(list(orquestra.quantum.__path__)[0])
    want = os.path.realpath(os.path.join(src, "orquestra", "quantum"))
    if got != want:
        raise HarnessError(f"orquestra.quantum imported from {got}, expected {want}")


def stable_pick(key, modulus, seed=0):
    """Deterministic pseudo-random subsampling: True for ~1/modulus of keys, varies with seed."""
    import zlib

    return zlib.crc32(repr((key, seed)).encode()) % modulus == 0


class HarnessError(Exception):
    pass


def src_hash(obj):
    try:
        return hashlib.sha256(inspect.getsource(obj).encode()).hexdigest()[:12]
    except Exception:
        return "nosrc"


def qualname(obj):
    m = getattr(obj, "__module__", "?")
    q = getattr(obj, "__qualname__", getattr(obj, "__name__", repr(obj)))
    return f"{m}.{q}"


class Ctx:
    """Accumulates what a check run covered and found."""

    def __init__(self, pid, tier, seed, level="model_checking"):
        self.pid, self.tier, self.seed, self.level = pid, tier, seed, level
        self.t0 = time.time()
        self.functions = {}  # qualified name -> source hash
        self.bounds = {}
        self.assumptions = []
        self.instances = 0
        self.ground_instances = 0
        self.paths = 0
        self.obligations = 0
        self.discharged = 0
        self.by_stage = {}
        self.solver_s = 0.0
        self.solver_queries = 0
        self.vacuity_twins = 0
        self.vacuity_ok = 0
        self.inconclusive = []
        self.candidates = []  # dicts: key, clause, what, inputs
        self.samples = []
        self.nontrivial = set()
        self.notes = []
        self.cuts = []
        self.replayed = 0
        self.harness_errors = []
        self.extra = {}

    # -- recording ----------------------------------------------------------
    def fn(self, *objs):
        for o in objs:
            self.functions[qualname(o)] = src_hash(o)

    def assume(self, *texts):
        for t in texts:
            if t not in self.assumptions:
                self.assumptions.append(t)

    def stage(self, name, n=1):
        self.by_stage[name] = self.by_stage.get(name, 0) + n

    def sample(self, s, limit=12):
        if len(self.samples) < limit:
            self.samples.append(s)

    def inconc(self, instance, reason):
        self.inconclusive.append({"instance": str(instance), "reason": str(reason)[:300]})

    def merge(self, res):
        """Merge a worker result dict (see Result.as_dict)."""
        self.instances += res.get("instances", 0)
        self.ground_instances += res.get("ground_instances", 0)
        self.paths += res.get("paths", 0)
        self.obligations += res.get("obligations", 0)
        self.discharged += res.get("discharged", 0)
        self.solver_s += res.get("solver_s", 0.0)
        self.solver_queries += res.get("solver_queries", 0)
        self.vacuity_twins += res.get("vacuity_twins", 0)
        self.vacuity_ok += res.get("vacuity_ok", 0)
        for k, v in res.get("by_stage", {}).items():
            self.stage(k, v)
        for i in res.get("inconclusive", []):
            self.inconclusive.append(i)
        for c in res.get("candidates", []):
            self.candidates.append(c)
        for s in res.get("samples", []):
            self.sample(s)
        for n in res.get("nontrivial", []):
            self.nontrivial.add(n)
        for h in res.get("harness_errors", []):
            self.harness_errors.append(h)
        for k, v in res.get("functions", {}).items():
            self.functions[k] = v
        if os.environ.get("VERIF_DEBUG") and res.get("wall_s", 0) > float(os.environ.get("VERIF_DEBUG")):
            print(f"  [slow] {res.get('wall_s'):.1f}s solver={res.get('solver_s', 0):.1f}s q={res.get('solver_queries')} {res.get('key', '')}")
        for a in res.get("assumptions", []):
            self.assume(a)
        for c in res.get("cuts", []):
            if c not in self.cuts:
                self.cuts.append(c)


_CURRENT = None  # the Result the running worker created last (lets _guard see how far an instance got when it raises)


class Result:
    """Per-instance (worker-side) accumulator; plain data so it crosses processes."""

    def __init__(self, instance):
        global _CURRENT
        _CURRENT = self
        self.instance = str(instance)
        self.d = dict(
            key=str(instance)[:200],
            instances=1, ground_instances=0, paths=0, obligations=0, discharged=0,
            solver_s=0.0, solver_queries=0, vacuity_twins=0, vacuity_ok=0, by_stage={},
            inconclusive=[], candidates=[], samples=[], nontrivial=[], harness_errors=[],
            functions={}, assumptions=[], cuts=[],
        )

    def stage(self, name, n=1):
        self.d["by_stage"][name] = self.d["by_stage"].get(name, 0) + n

    def ob(self, n=1, discharged=0, stage=None):
        self.d["obligations"] += n
        self.d["discharged"] += discharged
        if stage:
            self.stage(stage, discharged)

    def inconc(self, reason, sub=""):
        self.d["inconclusive"].append(
            {"instance": self.instance + (":" + sub if sub else ""), "reason": str(reason)[:300]}
        )

    def candidate(self, clause, what, inputs, sub=""):
        self.d["candidates"].append(
            {"key": self.instance + (":" + sub if sub else ""), "clause": clause, "what": what, "inputs": inputs}
        )

    def sample(self, s):
        if len(self.d["samples"]) < 3:
            self.d["samples"].append(s)

    def nontrivial(self, tag=None):
        self.d["nontrivial"].append(tag or self.instance)

    def herr(self, msg):
        self.d["harness_errors"].append(f"{self.instance[:140]}: {str(msg)[-900:]}")

    def fn(self, *objs):
        for o in objs:
            self.d["functions"][qualname(o)] = src_hash(o)

    def as_dict(self):
        return self.d


# ---------------------------------------------------------------------------
# known findings


def load_findings():
    p = os.path.join(VERIF, "known_findings.json")
    if not os.path.exists(p):
        return []
    return json.load(open(p)).get("findings", [])


def match_finding(findings, pid, key, clause):
    for f in findings:
        if f.get("status") != "open" or f["property"] != pid:
            continue
        if re.fullmatch(f["match_key"], key) and re.fullmatch(f.get("match_clause", ".*"), clause):
            return f
    return None


# ---------------------------------------------------------------------------
# parallel map


def pmap(func, items, procs=None, chunksize=1):
    """Fork-based parallel map that yields (item, result-or-exception-text)."""
    import multiprocessing as mp

    procs = procs or int(os.environ.get("VERIF_PROCS", "16"))
    items = list(items)
    if procs <= 1 or len(items) <= 1:
        for it in items:
            yield it, _guard(func, it)
        return
    ctx = mp.get_context("fork")
    nproc = min(procs, len(items))
    if chunksize == 1 and len(items) >= nproc * 8:
        # neighbouring instances are usually look-alikes (same gate family, same strings, other values): keep short
        # runs of them in ONE worker process, so that state the library carries between calls shows up (history replay)
        chunksize = 4
    with ctx.Pool(nproc) as pool:
        for it, out in zip(items, pool.imap(_Guard(func), items, chunksize)):
            yield it, out


_WORKER_HISTORY = []  # items this process has executed so far (a forked pool worker runs many instances in a row)
HISTORY_CAP = 300


def _jsonable(x):
    try:
        json.dumps(x)
        return True
    except (TypeError, ValueError):
        return False


def _guard(func, it):
    cur0 = _CURRENT
    try:
        t = time.time()
        out = func(it)
        if isinstance(out, dict):
            out["wall_s"] = time.time() - t
            if out.get("candidates") and _jsonable(it):
                # a discrepancy may depend on what ran before in the same process (state remembered by the
                # library between calls): keep the worker's history so that the replay can re-create it
                hist = [h for h in _WORKER_HISTORY[-HISTORY_CAP:] if _jsonable(h)]
                for c in out["candidates"]:
                    if isinstance(c.get("inputs"), dict):
                        c["inputs"]["_item"] = it
                        c["inputs"]["_history"] = hist
        _WORKER_HISTORY.append(it)
        return out
    except Exception as e:
        return _worker_exception(it, e, _CURRENT if _CURRENT is not None and cur0 is not _CURRENT else None)
    except BaseException as e:
        if type(e).__name__ not in ("Inconclusive", "PathAbort"):
            raise
        r = Result(it)
        cur = _CURRENT if _CURRENT is not None and cur0 is not _CURRENT else None
        r.ob(1)
        r.inconc(f"{type(e).__name__}: {str(e)[:200]}")
        return r.as_dict()


def exception_origin(e):
    """'library' if the exception was raised while library code (REPO/src) was on the stack and the innermost frame is
    not harness code; 'harness' otherwise."""
    src = os.path.realpath(os.path.join(REPO, "src"))
    frames = traceback.extract_tb(e.__traceback__)
    if not frames:
        return "harness"
    files = [os.path.realpath(f.filename) for f in frames]
    has_lib = any(f.startswith(src) for f in files)
    innermost_is_harness = files[-1].startswith(os.path.realpath(VERIF))
    if has_lib and innermost_is_harness:
        # library code called into a shadow value / proxy that could not serve the request
        last_lib = max(i for i, f in enumerate(files) if f.startswith(src))
        if all(f.startswith(os.path.realpath(VERIF)) for f in files[last_lib + 1:]) and os.path.basename(files[-1]) in ("symtrace.py",):
            return "shadow"
    return "library" if has_lib and not innermost_is_harness else "harness"


def _worker_exception(it, e, cur):
    """An instance raised. Harness code at fault -> harness error. The LIBRARY raised: on a ground instance (no symbolic
    value, no stub in play) that is a finding to be replayed; on a symbolic instance the run is inconclusive (the code
    under test may simply not be executable on shadow values after a change) - never a verdict, never a broken check."""
    text = traceback.format_exc()[-1500:]
    r = Result(it)
    if cur is not None:
        r.instance = cur.instance
        r.d["key"] = cur.d.get("key", r.d["key"])
        for k in ("ground_instances", "instances", "functions", "cuts"):
            r.d[k] = cur.d[k]
    origin = exception_origin(e)
    if origin == "shadow":
        r.ob(1)
        r.inconc(f"the library asked a shadow value for something it does not model ({type(e).__name__}: {str(e)[:120]}): not executable symbolically, no verdict")
        return r.as_dict()
    if origin == "harness":
        r.herr("worker raised: " + text)
        return r.as_dict()
    what = f"the library raised {type(e).__name__}: {str(e)[:160]}"
    if r.d["ground_instances"] > 0 and _jsonable(it):
        r.ob(1)
        r.d["candidates"].append({
            "key": r.instance + ":raises", "clause": "library-raises", "what": what,
            "inputs": {"_raised": type(e).__name__, "_item": it, "_history": [h for h in _WORKER_HISTORY[-HISTORY_CAP:] if _jsonable(h)], "clause": "library-raises"},
        })
    else:
        r.ob(1)
        r.inconc(what + " (symbolic instance: not executable, no verdict)")
    return r.as_dict()


class _Guard:
    def __init__(self, func):
        self.func = func

    def __call__(self, it):
        return _guard(self.func, it)


# ---------------------------------------------------------------------------
# finishing a run: replay candidates, print lines, write evidence


def run_replay_subprocess(pid, path, timeout=300, history=False):
    cmd = [sys.executable, "-m", "vf.run", pid, "--replay", path] + (["--history"] if history else [])
    env = dict(os.environ)
    env["PYTHONPATH"] = VERIF + os.pathsep + env.get("PYTHONPATH", "")
    p = subprocess.run(cmd, cwd=VERIF, env=env, capture_output=True, text=True, timeout=timeout)
    return p.returncode, (p.stdout + p.stderr)[-2000:]


REPRODUCED, NOT_REPRODUCED = 10, 0


def finish(ctx, replay_in_process=None):
    """Replay candidates, classify, print, write evidence, return exit code."""
    findings = load_findings()
    os.makedirs(os.path.join(OUT_DIR, "replays"), exist_ok=True)
    violations, known, notrepro = [], [], []
    seen_known = set()
    max_replays = int(os.environ.get("VERIF_MAX_REPLAYS", "60"))
    # candidates that fall under an open known finding are replayed once per finding (the first of them) and do not use up
    # the replay budget: a known finding must never crowd out a new violation
    fresh = [c for c in ctx.candidates if match_finding(findings, ctx.pid, c["key"], c["clause"]) is None]
    under_known = [c for c in ctx.candidates if match_finding(findings, ctx.pid, c["key"], c["clause"]) is not None]
    first_of_finding, rest_known = [], 0
    seen_ids = set()
    for c in under_known:
        fid = match_finding(findings, ctx.pid, c["key"], c["clause"])["id"]
        if fid in seen_ids:
            rest_known += 1
        else:
            seen_ids.add(fid)
            first_of_finding.append(c)
    if rest_known:
        ctx.notes.append(f"{rest_known} further instance(s) under known findings {sorted(seen_ids)} were not replayed individually")
    ordered = first_of_finding + fresh
    budget_from = len(first_of_finding)
    for n, c in enumerate(ordered):
        path = os.path.join(OUT_DIR, "replays", f"{ctx.pid}-{n}.json")
        with open(path, "w") as f:
            json.dump({"property": ctx.pid, **c}, f, indent=1, default=str)
        if n - budget_from >= max_replays:
            ctx.inconc(c["key"], "candidate not replayed (replay budget exhausted)")
            continue
        try:
            if replay_in_process is not None:
                rc, out = replay_in_process(c)
            else:
                rc, out = run_replay_subprocess(ctx.pid, path)
        except Exception as e:  # timeouts etc.
            rc, out = -1, f"replay failed to run: {e!r}"
        ctx.replayed += 1
        if rc == REPRODUCED:
            f = match_finding(findings, ctx.pid, c["key"], c["clause"])
            if f is not None:
                known.append((f, c))
            else:
                violations.append((path, c, out))
        elif rc == NOT_REPRODUCED and c.get("inputs", {}).get("_history") and not c.get("inputs", {}).get("abstract"):
            # not reproducible from a fresh process: replay the worker's history (the same sequence of operations in
            # one process) and look for the same discrepancy at its end
            try:
                rc2, out2 = run_replay_subprocess(ctx.pid, path, timeout=900, history=True)
            except Exception as e:
                rc2, out2 = -1, f"history replay failed to run: {e!r}"
            if rc2 == REPRODUCED:
                c["what"] = c["what"] + f"  [reproduces only after the {len(c['inputs']['_history'])} preceding operations of the same process: state is carried between calls]"
                f = match_finding(findings, ctx.pid, c["key"], c["clause"])
                if f is not None:
                    known.append((f, c))
                else:
                    violations.append((path, c, out2))
            else:
                notrepro.append((path, c, out + " | history replay: " + out2[-200:]))
        elif rc == NOT_REPRODUCED:
            notrepro.append((path, c, out))
        else:
            ctx.harness_errors.append(f"replay of {c['key']} exited {rc}: {out[-400:]}")
    for f, c in known:
        if f["id"] not in seen_known:
            seen_known.add(f["id"])
            print(f"KNOWN-FINDING: property={ctx.pid} {f['id']}: {f['what']}")
    for path, c, out in violations:
        print(f"VIOLATION property={ctx.pid} replay={path}")
        print(f"  instance={c['key']} clause={c['clause']}: {c['what']}")
    for path, c, out in list(notrepro):
        if "raises" in str(c.get("clause", "")) and "_raised" not in (c.get("inputs") or {}):
            # the library raised while it was executed on shadow / symbolic values, but does not raise on the concrete values
            # of the model: the (possibly changed) code is not executable symbolically here - no verdict, not a broken check
            ctx.inconc(c["key"], "raised on symbolic values only (not on the concrete replay): not executable symbolically, no verdict: " + str(c.get("what", ""))[:120])
            notrepro.remove((path, c, out))
            continue
        if c.get("inputs", {}).get("abstract"):
            # the obligation was decided over an over-approximating abstraction (e.g. an uninterpreted ln):
            # a model that does not reproduce is spurious, the instance is inconclusive
            ctx.inconc(c["key"], "solver model under an over-approximating abstraction did not reproduce: " + out[-120:])
            notrepro.remove((path, c, out))
    for path, c, out in notrepro:
        ctx.harness_errors.append(
            f"counterexample for {c['key']} ({c['clause']}) did not reproduce on the real code: {out[-300:]}"
        )
    for i in ctx.inconclusive[:40]:
        print(f"INCONCLUSIVE property={ctx.pid} instance={i['instance']} reason={i['reason'][:160]}")
    if len(ctx.inconclusive) > 40:
        print(f"INCONCLUSIVE property={ctx.pid} ... and {len(ctx.inconclusive) - 40} more (see evidence)")
    for h in ctx.harness_errors[:20]:
        print(f"HARNESS-ERROR property={ctx.pid} {h}")
    write_evidence(ctx, len(violations), [f["id"] for f, _ in known])
    if violations:
        return EXIT_VIOLATION
    if ctx.harness_errors:
        return EXIT_HARNESS
    if ctx.obligations == 0 and ctx.ground_instances == 0:
        print(f"HARNESS-ERROR property={ctx.pid} nothing was explored")
        return EXIT_HARNESS
    return EXIT_OK


def write_evidence(ctx, n_viol, known_ids):
    wall = time.time() - ctx.t0
    cov = {
        "states": max(ctx.paths, ctx.instances, 1),
        "transitions": max(ctx.solver_queries, 1),
        "traces_validated_against_impl": ctx.replayed,
        "evaluations": max(ctx.instances + ctx.ground_instances, 1),
        "distinct_nontrivial": len(ctx.nontrivial),
        "rule": ctx.extra.get(
            "rule",
            "one evaluation = one structural instance (enumerated inside the stated bounds) executed "
            "symbolically; it is counted non-trivial when it produced at least one solver obligation "
            "over a free symbolic variable; distinct by instance key",
        ),
        "samples": ctx.samples or ["(none)"],
        "obligations": ctx.obligations,
        "discharged": ctx.discharged,
        "obligations_by_deciding_stage": ctx.by_stage,
        "solver_queries": ctx.solver_queries,
        "solver_seconds": round(ctx.solver_s, 2),
        "symbolic_instances": ctx.instances,
        "ground_instances_not_counted_as_solver_coverage": ctx.ground_instances,
        "paths_explored": ctx.paths,
        "vacuity_twins": ctx.vacuity_twins,
        "vacuity_twins_sat_as_required": ctx.vacuity_ok,
        "inconclusive": len(ctx.inconclusive),
        "inconclusive_list": ctx.inconclusive[:60],
        "functions_encoded": ctx.functions,
        "bounds": ctx.bounds,
        "cuts_and_stubs": ctx.cuts,
        "known_findings_seen": sorted(set(known_ids)),
        "harness_errors": ctx.harness_errors[:20],
        "exhaustive": False,
        "explanation": ctx.extra.get("explanation", ""),
        "states_meaning": "symbolic execution paths / structural instances explored",
        "transitions_meaning": "solver queries discharged (feasibility + obligations)",
    }
    cov.update(ctx.extra.get("coverage", {}))
    ev = {
        "property_id": ctx.pid,
        "tier": ctx.tier,
        "seed": ctx.seed,
        "level": ctx.level,
        "coverage": cov,
        "assumptions": ctx.assumptions,
        "wall_s": round(wall, 2),
        "violations": n_viol,
    }
    os.makedirs(os.path.join(OUT_DIR, "evidence"), exist_ok=True)
    with open(os.path.join(OUT_DIR, "evidence", f"{ctx.pid}.json"), "w") as f:
        json.dump(ev, f, indent=1, default=str)
    print(
        f"[{ctx.pid}] tier={ctx.tier} instances={ctx.instances} ground={ctx.ground_instances} paths={ctx.paths} "
        f"obligations={ctx.obligations} discharged={ctx.discharged} stages={ctx.by_stage} "
        f"queries={ctx.solver_queries} solver_s={ctx.solver_s:.1f} inconclusive={len(ctx.inconclusive)} "
        f"violations={n_viol} known={sorted(set(known_ids))} wall={wall:.1f}s"
    )
