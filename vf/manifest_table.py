"""Per-property claims. Kept in step with what vf/props/ actually implements."""


def register(claim, na):
    claim(
        "C02", "model_checking",
        "Bounded symbolic model checking of the real matrix factories: for each of the built-in gates read from the gate table, "
        "unitarity, self-adjointness when flagged, dagger=adjoint, the additive group law of the one-parameter gates and the fixed "
        "defining relations are decided by z3 (QF_NRA over circle points, i.e. for every real angle) and cross-checked by an exact "
        "Fourier normal form; structure bound = the gate table itself, so the claim is complete over values for every listed gate.",
        "Trusted: sympy's evaluation of the factories, the sympy->SMT translator (validated by the Fourier cross-check and by replay of "
        "every counterexample on the real code), z3/cvc5. Float constants are exact rationals of the doubles with a 1e-9 entry tolerance; "
        "'computable' is a ground instance run without the sympy/numpy shim (A-ENV-1).",
        "symbolic execution of matrix factories on sympy symbols + z3 QF_NRA (cvc5 / exact Fourier certificate fall-back)",
        "DESIGN.md §1 E1, §2 C02",
    )
