"""Per-property claims. Kept in step with what vf/props/ actually implements."""


def register(claim, na):
    claim(
        "C02", "model_checking",
        "Bounded symbolic model checking of the real matrix factories: for each of the built-in gates read from the gate table, "
        "unitarity, self-adjointness when flagged, dagger=adjoint, the additive group law of the one-parameter gates and the fixed "
        "defining relations are decided by z3 (QF_NRA over circle points, i.e. for every real angle) and cross-checked by an exact "
        "Fourier normal form; structure bound = the gate table itself, so the claim is complete over values for every listed gate. Ground: numeric parameters "
        "vs the symbolic matrix at five angle sets (negative, large, multiples of 2 pi), and an aliasing scenario (a caller overwrites matrix objects "
        "obtained earlier in place; every gate asked again must report the same matrix).",
        "Trusted: sympy's evaluation of the factories, the sympy->SMT translator (validated by the Fourier cross-check and by replay of "
        "every counterexample on the real code), z3/cvc5. Float constants are exact rationals of the doubles with a 1e-9 entry tolerance; "
        "'computable' is a ground instance run without the sympy/numpy shim (A-ENV-1).",
        "symbolic execution of matrix factories on sympy symbols + z3 QF_NRA (cvc5 / exact Fourier certificate fall-back)",
        "DESIGN.md §1 E1, §2 C02",
    )
    claim(
        "C01", "model_checking",
        "Bounded symbolic model checking of lifted_matrix / to_unitary / apply / get_wavefunction: generic symbolic gates (every entry "
        "r+is a pair of real unknowns) of arity 1..3 on every ordered tuple of distinct indices of registers n<=4, circuits of length<=3 "
        "mixing generic, parametric and constant gates (numpy and sympy lifting paths in one trace), SymbolicSimulator and base-class "
        "simulators with six native-set variants, MultiPhaseOperation interleaved, and circuit concatenation; each entry identity against "
        "the verifier's bit-level embedding oracle is decided by z3 for ALL values of the unknowns. Structure (width, length, pool) is the bound. "
        "Every lift and circuit instance also has a NUMERIC twin (all parameters bound to dyadic numbers, numeric state vectors of complex and float "
        "dtype: all basis vectors and dense vectors) through apply, sequential apply and every simulator variant; constant gates come as dense, "
        "diagonal, monomial and numeric controlled-rotation matrices - the branch a symbolic run cannot take, counted as ground instances. "
        "Ground as well: numeric runs on 9-qubit (thorough: 10) registers for arity-3/4 gates on every cyclic order of index tuples reaching across the register "
        "(tensor/einsum oracle, no 2^n x 2^n matrix), and custom gates that re-use a gate name and parameter values with a different matrix inside one circuit and from one circuit to the next.",
        "Trusted: sympy arithmetic, translator (cross-checked by exact Laurent form; counterexamples replayed on the real code), z3/cvc5. "
        "MultiPhaseOperation phases and constant-gate lifts are ground (no free variable) and counted apart. Arity-4 only in the thorough tier with a sparse generic gate.",
        "symbolic execution of the real circuit code on generic sympy gates/states + z3 QF_NRA identity checking against an embedding oracle",
        "DESIGN.md §1 E1, §2 C01",
    )
    claim(
        "C07", "model_checking",
        "Inductive-step symbolic model checking of the gate modifiers: for every gate g in the closure of the symbolic bases (all parametric "
        "built-ins with all parameters symbolic, a generic custom gate, a parametric custom gate) under dagger/controlled chains, and every "
        "modifier m in {dagger, controlled(1), controlled(2)}, z3 decides for all parameter values that m(g).matrix is the adjoint / the "
        "identity-block-then-U matrix of g's own matrix, that num_qubits and params are as implied, and that replace_params commutes with m. "
        "power/exp (which refuse free symbols) are covered as ground instances on constant gates with numeric comparison.",
        "Trusted: sympy, translator (Fourier cross-check + replay), z3. Ground power/exp instances carry no free variable and are not solver coverage; "
        "instances whose sympy matrix function does not finish are reported inconclusive. Known finding F2 (dagger of a fractional power of a self-adjoint-flagged gate).",
        "symbolic execution of modifier methods on sympy symbols + z3 QF_NRA per entry (inductive step per modifier); ground numeric compare for power/exp",
        "DESIGN.md §1 E1, §2 C07",
    )
    claim(
        "C06", "model_checking",
        "Symbolic model checking of bind(): for every parametric built-in gate, a custom gate, controlled/dagger wrapped gates, "
        "MultiPhaseOperation/ResetOperation and circuits (explicit and inferred width), with parameter expressions of depth <= 2 over three "
        "symbols and ten map shapes (empty, partial, total, superfluous, numeric, symbol-valued, expression-valued, two-step), z3 decides for all "
        "values that bind-then-evaluate equals evaluate-then-substitute (gate matrices and circuit unitaries) and that bound parameters are the "
        "substituted expressions; free_symbols lists/order, width preservation and the power/exp refusal are compared concretely on the same runs. "
        "The library always receives its own copy of the map, which must come back with the same key objects in the same order; ONE map object bound to "
        "several circuits in turn must bind each like a pristine copy (parameters compared by z3); complex bound values under dagger/controlled wrappers "
        "are ground numeric comparisons (the front end treats symbols as real).",
        "Trusted: sympy subs as the oracle of substitution (simultaneous), translator (Fourier cross-check + replay), z3. Maps do not chain "
        "(no value mentions a key): for chained maps sympy's sequential subs makes 'substituting afterwards' ambiguous, outside the claim.",
        "symbolic execution of bind/free_symbols on sympy symbols + z3 QF_NRA identity in the substituted symbols",
        "DESIGN.md §1 E1, §2 C06",
    )
    claim(
        "C08", "model_checking",
        "Symbolic model checking of Circuit.inverse / controlled / layer builders / add_ancilla_register on circuits of <= 3 operations "
        "(n <= 3) over parametric, self-adjoint, wrapped and custom gates: z3 decides for all parameter values that the inverse is the "
        "conjugate transpose, circuit+inverse is the identity (unitary gates), double inverse keeps the action, controlled(k) is "
        "|0><0|xI + |1><1|xU with shifted indices for every control position, a layer is the tensor product with row i on qubit i, and "
        "ancillas act as U x I; structural clauses (one gate per distinct qubit, rows used once, inputs untouched) are compared concretely. "
        "Every built-in gate of the library's table (read at run time) additionally appears bare as a one-operation circuit under controlled(k) for k below and above it and under inverse(). "
        "Every symbolic inverse/controlled instance has a numeric twin (parameters bound to numbers - zero, over-turn, look-alike ints - BEFORE the construction is asked for; ground).",
        "Trusted: sympy, translator (Fourier cross-check + replay), z3. Power/exp-wrapped gates are ground instances. Parameter rows are "
        "Python lists of symbols. Known finding F2-inverse (fractional power of a self-adjoint-flagged gate).",
        "symbolic execution of circuit constructions on sympy symbols + z3 QF_NRA identity checking against algebraic oracles",
        "DESIGN.md §1 E1, §2 C08",
    )
    claim(
        "C18", "model_checking",
        "Symbolic model checking of decompose_orquestra_circuit with the bundled U3 rule: plain U3(theta,phi,lambda) on every qubit of n<=3, "
        "with one control on every ordered pair and two controls on 3 qubits, and mixed circuits under six rule lists; equality up to one "
        "global phase is expressed without quantifier alternation as the vanishing of all 2x2 minors of (vec U_dec, vec U_orig) against "
        "non-zero pivots and decided by z3 for all angles; kept operations/order, register width, empty rule list and rule chaining are concrete "
        "comparisons; numeric U3 parameters at special angles (value-specific branches) are partly ground instances. Because known finding F9 makes "
        "every generic controlled-U3 instance fail on the pinned tree, the family U3(theta,phi,-phi) / U3(theta,0,0) under 1-2 controls - exact on the pinned "
        "tree - is checked symbolically and at numeric angles outside [0, 2 pi), so that a further defect in that code is not masked.",
        "Trusted: sympy, translator (Fourier cross-check + replay), z3; obligations on which z3 and cvc5 give up are decided by the exact Fourier "
        "certificate and counted apart. Known finding F9 (controlled-U3 relative phase).",
        "symbolic execution of the decomposition on sympy symbols + z3 QF_NRA on rank-one (proportionality) minors",
        "DESIGN.md §1 E1, §2 C18",
    )
    claim(
        "C16", "model_checking",
        "Symbolic model checking of the evolution builders with a symbolic time t: for all 63 Pauli strings on <= 3 qubits and dyadic "
        "coefficients the term circuit's matrix is compared with cos(tc)I - i sin(tc)P; for Hamiltonians of <= 3 terms and 1..3 steps the "
        "circuit is compared with the ordered product of per-term evolutions for time/steps; for derivatives the factor-weighted sum of "
        "conj(U_k[i,a])U_k[j,b] is compared with d/dt(conj(U[i,a])U[j,b]) for every index quadruple (all observables and states at once). "
        "Each entry identity is decided for every real t by z3 over the circle (cvc5 / exact Fourier certificate when z3 gives up, counted apart). "
        "Terms reaching qubit indices >= 8 (thorough: up to 33) are decided for all t on the circuit re-indexed (order-preserving) onto the qubits it touches. "
        "Every term / sum / derivative instance has a numeric-time twin (float, int, zero, negative times; analytic product-rule oracle for the derivative; ground).",
        "Trusted: sympy (incl. differentiation of the evolution matrix), translator (Fourier cross-check + replay), z3. H and RX(pi/2) constants "
        "are doubles (tolerance 1e-9); dyadic coefficients; the imaginary-part guard and constant-term clauses are ground instances.",
        "symbolic execution of evolution.py with a symbolic time + z3 QF_NRA over the circle; Fourier-form differentiation for the derivative clause",
        "DESIGN.md §1 E1, §2 C16",
    )
    claim(
        "C05", "model_checking",
        "Every instance circuit (each built-in gate, custom gates with symbolic matrices incl. under wrappers, wrapper nestings to depth 2-3, "
        "parameters of eleven expression shapes over sixteen families of symbol names incl. indexed names, indexed names of which one is a suffix / prefix / "
        "digit-prefix of another, names living in sympy's namespace and number-like names, all three names of a family in one gate, power exponents 0, 1, -2, "
        "numbers, empty circuits, idle qubits, circuit sets, two circuits sharing a custom gate name) is pushed through dict, real JSON text, "
        "StringIO and a real file; structure (width, wrapper chain, control counts, exponents, qubits, parameters, free symbols, custom "
        "definitions, ==) is compared concretely and 'same matrix for every assignment of its symbols' is the identity U_orig(theta)=U_deser(theta) "
        "decided by z3 for all symbol values.",
        "Trusted: sympy, translator (Fourier cross-check + replay), z3. Number literals go through str(float)/sympify concretely: exactness of "
        "Python numbers is a ground comparison. Known finding F5 (x together with x[0] in one gate).",
        "concrete round trip through real JSON + z3 QF_NRA identity of the original and deserialised circuit matrices over all symbol values",
        "DESIGN.md §1 E1, §2 C05",
    )
    claim(
        "C03", "model_checking",
        "Symbolic path exploration of the real Pauli arithmetic: terms and sums carrying z3-symbolic real and imaginary coefficient parts go "
        "through + - * / ** simplify ==; every tolerance branch (isclose/allclose) forks the explorer with feasibility decided by z3; on each "
        "path the result's coefficient map is compared string by string with the verifier's own Pauli algebra (derived from the 2x2 matrices), "
        "which by linear independence of Pauli strings is the denoted-matrix comparison. Term x term is exhaustive over all ordered pairs of "
        "strings on <= 2 (quick) / 3 (thorough) qubits; sums <= 3 terms incl. duplicates, zero coefficients, the empty sum, constants; scalars on either side.",
        "Exact-real model of floats (rounding of complex multiplication outside); |coefficient parts| <= 4; scalars concrete; symbolic == decided outside "
        "the fuzzy band with a constant-hash placeholder, real hashing exercised by ground == instances; z3 unknown -> inconclusive, reported.",
        "shadow symbolic values through the real code + DFS path explorer with z3 feasibility + per-path z3 obligations (QF_NRA)",
        "DESIGN.md §1 E2, §2 C03",
    )
    claim(
        "C10", "model_checking",
        "Symbolic execution of the measurement statistics: get_expectation_value_from_frequencies with EVERY count a symbolic integer (all 2^w keys, "
        "w<=3, every marked subset) is proved equal to the signed count average; Measurements.get_expectation_values over all multisets of <=3 shots "
        "(width 2; sampled width 3) and operators of <=3 Ising terms (overlapping, repeated, constant, constant last) with every coefficient a symbolic "
        "real is proved to give coefficient x sample mean, sample means of products, and (corr - mean*mean)/N or /(N-1); counts/from_counts/"
        "get_distribution are explored by exhaustive case split of symbolic counts 0..3. Large histograms (257 and 4097 distinct outcomes of 9- and "
        "13-qubit registers, every count symbolic; thorough: 4096 / 8191) are one linear query each after the shared denominator is cleared; registers of "
        "9-17 qubits with operators on qubit subsets beyond index 8; parity tallies of get_parities_from_measurements with a SYMBOLIC multiplicity of "
        "every outcome (w<=3 all outcomes, a 10-qubit subset): [even, odd] per term and [equal, unequal] per pair are the exact sums of multiplicities. "
        "The marked qubits arrive as every kind of Iterable[int] (list, tuple, frozenset, dict keys, range, and one-shot iterator / generator / map / reversed), counts still symbolic. "
        "Histories: query, change the shot list without growing it (entry overwritten, same-length replacement, shortening, caller-side edit), query again. "
        "Ground: parity tallies on shots whose bits are bool / np.bool_ / np.int8 / np.uint8 / np.int64 (found and fixed F18: unsigned bits wrapped).",
        "Exact-real model of floats with 1e-9 tolerance where the library divides concrete counts in floats; numpy proxied to object arrays inside "
        "measurements.py / parities.py (listed in evidence); shot lists are concrete (len() needs an int) except in the parity instances, where "
        "collections.Counter(measurements) is replaced by its contract on an opaque symbolic multiset (any other use of the list makes the instance inconclusive); "
        "elementwise isclose on symbolic arrays decides every entry (forked) and yields a real boolean mask.",
        "shadow symbolic counts/coefficients through the real numpy code + z3 obligations per path",
        "DESIGN.md §1 E2, §2 C10",
    )
    claim(
        "C17", "model_checking",
        "Symbolic path exploration of the distribution code with every weight a z3 real: constructor (accept => non-negative, normalised, "
        "proportional to the input; reject => a negative weight or vanishing norm; input dict untouched), subdistribution on registers of 1..4 "
        "qubits for every ordered list of distinct qubits (marginal values in listed order, source intact, same result twice), squared MMD with a "
        "symbolic kernel rate q=e^{-1/(2 sigma)} in (0,1) (symmetric, zero on equal arguments, non-negative, equal to d^T K(q) d), clipped NLL with "
        "symbolic epsilon (>= entropy - (sum of clipped - 1), ln uninterpreted + instantiated axioms) and JSD symmetry; z3 decides every obligation per path.",
        "Exact-real floats; math.log abstracted to an uninterpreted function with the two axioms listed in evidence (models under that abstraction that do "
        "not reproduce are reported inconclusive); bad-input rejection and save/load (incl. explicit zero-probability outcomes, tiny weights, multi-digit keys) are ground instances.",
        "shadow symbolic weights through the real code + DFS path explorer (z3 feasibility) + per-path z3 obligations; UF abstraction of ln",
        "DESIGN.md §1 E2, §2 C17",
    )
    claim(
        "C12", "model_checking",
        "Symbolic path exploration of Wavefunction in numeric mode: every amplitude part and every assigned value part is a z3 real; the constructor, "
        "histories of <= 3 element assignments and get_probabilities run through the real code (numpy proxied to object arrays); z3 proves on every "
        "path that acceptance coincides with the normalisation band, that a rejected assignment leaves the object exactly as it was, that accepted "
        "assignments store the value, and that probabilities are |a|^2 and sum to 1. The Dicke bit trick is the real function executed on a 20-bit "
        "z3 bit-vector (same weight, larger, nothing skipped, for every value below 2^14). flip_amplitudes is run on symbolic amplitudes (bit reversal, involutive). "
        "In the library's symbolic mode get_probabilities() of six wavefunctions with free symbols and non-real entries (imaginary numbers, complex "
        "combinations, phase factors, after a binding / an assignment) is proved equal to |amplitude|^2 for all real symbol values (E1, z3 over circle points).",
        "Exact-real floats with a 1e-6 relative margin around the band edge; the library's symbolic (sympy) mode cannot hold symbolic numeric entries: "
        "a ground table of 32 constructor/assignment/binding patterns incl. histories where a new symbol enters by assignment and is bound later; Dicke enumeration, save/load and length validation are ground instances.",
        "shadow symbolic amplitudes through the real code + DFS path explorer (z3) + per-path obligations; duck-typed bit-vector execution of the bit trick",
        "DESIGN.md §1 E2/E4, §2 C12",
    )
    claim(
        "C13", "model_checking",
        "CrossHair (symbolic execution with z3) confirms over all paths, for unbounded symbolic ints within small list bounds, the conservation "
        "laws of _expand_sample_size / expand_sample_sizes (copies between 1 and the maximum summing exactly to the request, per circuit, in order), "
        "expand -> stub run -> combine_measurement_counts (per-circuit totals), combine_* structure incl. one shared list object per group and "
        "untouched inputs, and split_into_batches (cover, order, size, enough samples, rejections); each harness has a reachability twin. "
        "scale_and_discretize and get_measurements_representing_distribution run on z3-symbolic weights/probabilities with every rounding, "
        "comparison and random choice forked: exactly N shots on the support, integers summing to the total within one of the share.",
        "CrossHair verdicts other than 'Confirmed over all paths' are inconclusive; CUT-FMT on raise f-strings; exact-real floats; numpy's random "
        "choice replaced by a forked nondeterministic stub, argsort ties resolved in one stable order; ground instances: huge operands (beyond 2^53) "
        "and seeded numpy runs of the representing-distribution builder.",
        "CrossHair/z3 over the real list-and-integer logic + SymTrace path exploration with z3 for the real-valued parts",
        "DESIGN.md §1 E2/E3, §2 C13",
    )
    claim(
        "C14", "model_checking",
        "CrossHair (z3) confirms over all paths one inductive step per entry point from an ARBITRARY counter pre-state (symbolic non-negative "
        "counters, symbolic n_samples, per-circuit lists <= 3 vs batches <= 3): BaseCircuitRunner.run_and_measure / run_batch_and_measure (int and "
        "list forms) / get_measurement_outcome_distribution, BaseWavefunctionSimulator.get_wavefunction over circuits of <= 4 mock operations with "
        "symbolic native flags (jobs += maximal runs, circuits += native runs, every operation handled once in order at full width), the "
        "simulator's rejections, and the tracking wrapper (returns the wrapped result - also when the wrapped runner pads its shots -, counters after the wrapped runner accepted): invalid => "
        "ValueError with counters unchanged and nothing executed; valid => one result per circuit in order and exact counter growth.",
        "The inductive step covers histories of any length for the counter clauses. _run_and_measure, operations, the native hook and the tracker's "
        "record/save are counting stubs; CUT-FMT. Shots >= requested, bitstring length = width and the tracker's JSON record are ground instances on the real simulator.",
        "CrossHair/z3 symbolic execution of the real runner base classes from symbolic pre-states (inductive step) with counting stubs",
        "DESIGN.md §1 E3, §2 C14",
    )
    claim(
        "C15", "model_checking",
        "CrossHair (z3) confirms over all paths, for every kind vector of <= 3 tasks over five task kinds and of exactly 4 tasks over three kinds "
        "(measurable, constant operator, zero-shot with an identity part, ...), that estimate_expectation_values_by_averaging returns exactly one "
        "result per task at the task's position (tagging stubs make the pairing observable), a constant operator yields exactly its constant, a "
        "non-constant zero-shot task yields zero, and the runner is called once with exactly the measurable tasks in order; that "
        "split_estimation_tasks_to_measure partitions the indices in order; and that evaluate_estimation_circuits binds task i with map i and "
        "changes nothing else. Basis-state exactness is proved by z3 for a symbolic shot count n >= 1 (all shots on one outcome, width <= 3). "
        "E2: task lists of <= 4 (thorough 5) tasks over five kinds go through the real averaging estimator with every CONSTANT a symbolic real in [-8, 8] "
        "(real- and complex-typed): on every path a constant task yields exactly its constant and a zero-shot task zero. E1: calculate_exact_expectation_values "
        "on task lists whose circuits have symbolic angles (shot numbers None/0/1/4/100, constant operators in between): z3 decides value_i = <psi_i|O_i|psi_i> for all angles.",
        "Runner/measurement objects are tagging stubs in the CrossHair harnesses; CUT-FMT; CrossHair verdicts other than 'Confirmed over all paths' "
        "are inconclusive. In the symbolic exact-value instances the scipy matrix is the one the real get_sparse_operator returns and only its mat-vec is the "
        "dense product (stub shared with C04). The stub-free pipeline on the real simulator is a ground instance.",
        "CrossHair/z3 symbolic execution over symbolic task-kind vectors + SymTrace for the symbolic shot count",
        "DESIGN.md §1 E2/E3, §2 C15",
    )
    claim(
        "C09", "model_checking",
        "Symbolic path exploration (z3) of hermitian_conjugated, is_hermitian and reverse_qubit_order on nine operators (gapped strings, constants, "
        "duplicates, terms of different widths, the empty sum) whose coefficients are symbolic complex values: the conjugate denotes the adjoint, "
        "is_hermitian returns True only for (near-)real coefficient maps and False only when some coefficient has an imaginary part, reversing once "
        "re-indexes q -> n-1-q for n in {default, width, width+1, width+2} and twice is the identity, too few qubits are rejected, arguments untouched. "
        "get_pauliop_from_matrix runs on generic matrices whose every entry is a pair of real unknowns (2x2, 4x4; complex, Hermitian-tied, real; 8x8 real "
        "in the thorough tier) up to its final hand-over, and z3 decides sum_i coeff_i * P(label_i) = M entry by entry for all entries. "
        "expectation() (row and column vectors) and get_expectation_value (both reverse flags, through the real Wavefunction constructor under the "
        "path condition norm = 1) run on states whose amplitudes are all symbolic; z3 decides value = <psi|M|psi> with M the verifier's tensor-product "
        "matrix (bit-reversed for reverse_operator=True); expectation() on a sparse DENSITY matrix is decided for every matrix rho (rho = sum_ij r_ij E_ij over real scipy unit "
        "matrices, an instance of scipy.sparse.spmatrix; value = tr(rho M), linear in the r_ij). get_sparse_operator itself runs on the nine operator shapes with ALL coefficients symbolic and "
        "paddings n in {default, w, w+1, w+2}: a matrix depending on a symbolic coefficient is carried as coefficient x REAL scipy matrix, so that kron, "
        "identity, nonzero, COO assembly and format conversions are executed by the real scipy; z3 decides matrix = sum coeff * tensor product entry by entry "
        "on every path (a coefficient that is exactly zero is a forked path). The text hand-over in get_pauliop_from_coeffs_and_labels is NOT decided by the "
        "solver: ground instances against the dense tensor-product oracle.",
        "Stubs: in the symbolic-state instances the scipy matrix is the one the real get_sparse_operator returns for the concrete operator and only its "
        "mat-vec is the dense product; in the expansion instances the last call (coefficients formatted into text) is intercepted. Ground numeric "
        "comparisons (all Pauli strings on <= 3 qubits x paddings, 2x2..8x8 matrices, random states, coefficient/label vectors) are counted apart.",
        "SymTrace path exploration with z3 (coefficients, matrix entries and amplitudes symbolic; scipy.sparse structure executed by the real scipy under symbolic scalars); ground numeric oracle for the text clause",
        "DESIGN.md §1 E2, §2 C09",
    )
    claim(
        "C04", "model_checking",
        "Symbolic model checking of the chain of views of one simulated state. With every gate angle symbolic (asymmetric RY layer on each "
        "qubit, CNOT/SWAP/RX/RZ entanglers, circuits ending in overlapping permutation gates, three-qubit gates on scattered out-of-order qubits of a "
        "4-qubit register, n <= 3 (+ one 4-qubit circuit) quick / 4 thorough) the REAL SymbolicSimulator.get_wavefunction, "
        "get_measurement_outcome_distribution(circuit, None), get_exact_expectation_values (every Z-type operator on every qubit subset, X/Y "
        "and mixed strings, a sum with a constant) and run_and_measure in BOTH sampling branches are executed, and z3 decides for all angles: "
        "amplitudes = ordered product of bit-level embeddings (qubit 0 most significant); distribution[key] = |amplitude|^2 of the basis state "
        "with those bits; exact expectation = <psi|P|psi> with operator qubit q = circuit qubit q; exact Z-expectation = eigenvalue average "
        "under the exact distribution (two real views, no oracle); each returned sample tuple was drawn with the probability of the basis state "
        "carrying those bits and has the register's length. sample_from_wavefunction and "
        "create_bitstring_distribution_from_probability_distribution are also explored on fully generic symbolic amplitudes / probability vectors; "
        "expectation from frequencies with every count symbolic, single-shot estimates with symbolic coefficients and estimates on 9-17-qubit registers "
        "with operators on qubit subsets beyond index 8 close the chain.",
        "Stubs (listed in evidence): scipy.sparse mat-vec inside expectation() replaced by the dense product of the matrix the REAL "
        "get_sparse_operator returned; numpy Generator.choice replaced by a recording stub (numpy's contract: draws only where p > 0), so "
        "'non-zero probability' follows from the proved alignment; float()/is_normalized stubs for the symbolic distribution; a Circuit "
        "subclass bypasses the unbound-symbol guard of sampling. Count strings and the stub-free pipeline on all basis states / seeded angles are ground instances.",
        "symbolic execution of the real simulator/sampling/expectation code on sympy angles and shadow amplitudes + z3 QF_NRA identities against a bit-level oracle",
        "DESIGN.md §1 E1/E2, §2 C04",
    )
    claim(
        "C19", "model_checking",
        "For every expression of an enumerated grammar (atoms x, y, integers, rationals, a float, I; unary -, cos, sin, exp, tan, sqrt, reciprocal; "
        "binary + - * / in both operand orders; powers with twelve exponents; depth 1-2 fully, depth 3 from a seeded subset, 36 hand-picked "
        "rewritten shapes) the REAL expression_from_sympy and translate_expression(SYMPY_DIALECT) are executed and z3 decides, for ALL real "
        "symbol values in the stated box, that the round trip differs from the original by at most 1e-6 (also for 17 symbols whose NAMES contain commas, "
        "blanks, colons, brackets or ranges, in twelve shapes each): arithmetic, integer powers, division and "
        "real square roots (branch for negative radicands included) are interpreted, the transcendental heads are uninterpreted functions. "
        "Unsupported constructs must be refused (ground). Natural keys: the real natural_key / natural_key_revlex run on names "
        "<prefix><digits><suffix> whose digit group has SYMBOLIC digits (every pair of group lengths up to 10, thorough 18): z3 decides for all "
        "digit values that key order equals numeric order; multi-group names and revlex mixing are enumerated (ground).",
        "On the unchanged tree most obligations are discharged by z3's simplifier because the round trip is term-identical after translation; "
        "each batch carries a vacuity twin (operands of a sub/div/pow swapped in the neutral tree) that must be found different. Models are "
        "replayed numerically (at the model point and its sign variants); a model that does not reproduce makes the instance inconclusive. "
        "natural keys: re.split(r'(\\d+)', name) is stubbed for names of the shape prefix+digits+suffix and the module's int() is shadowed; a key "
        "function that does not reach the stub (precompiled pattern, other string methods) makes those instances inconclusive, never a verdict.",
        "real round trip per expression + z3 (QF_UFNRA: interpreted arithmetic and real roots, uninterpreted transcendental heads) over all symbol values",
        "DESIGN.md §1 E1, §2 C19",
    )
    claim(
        "C11", "model_checking",
        "NARROW solver claim: the dictionary-level round trip convert_dict_to_op(convert_op_to_dict(op)) is explored symbolically for terms and "
        "sums of <= 3 terms over seven Pauli strings (constant, gaps, multi-digit qubit indices, duplicate strings) with EVERY coefficient part a z3 "
        "real: real-typed coefficients, complex-typed ones (a complex subclass with symbolic parts, so the real isinstance branch is taken) and the "
        "falsy-imaginary branch are all forked; per path z3 proves the dictionary carries the term's own strings/qubits/parts, the argument is "
        "untouched, the result denotes the same matrix within (terms per string) x 1e-8 and, where nothing was merged or dropped, every part is "
        "preserved exactly. All other clauses (print -> parse over a grid of 39 coefficient shapes x 7 strings and seeded sums; real JSON text; "
        "save/load of operators and operator lists via path and open file; measurements, expectation values with None/0/1/several real or complex "
        "frames, parities, value estimates, lists, layers, connectivity, ordering, measurement-count estimates) are executed concretely as GROUND "
        "instances: they are reported and replayed like any violation but are not solver coverage.",
        "Text, JSON, file and array-dtype code paths need concrete machine values (repr/strtod, rapidjson/json, numpy dtype dispatch): not reachable "
        "symbolically here, stated in DESIGN.md. Exact-real floats in the symbolic part. Two genuine defects found by the ground battery were repaired "
        "(F16 load_nmeas_estimate KeyError, F17 empty frame lists loaded as None).",
        "SymTrace path exploration with z3 for the dictionary round trip; ground (concrete) execution for text/JSON/file/artefact round trips",
        "DESIGN.md §1 E2, §2 C11",
    )
    claim(
        "C20", "model_checking",
        "One generic harness over ~95 scenarios covering the listed value-returning operations (operator + - * / ** == simplify, conjugation, qubit "
        "reversal, to-dict and string views on three receiver and two argument shapes; measurement get_counts / get_distribution / "
        "get_expectation_values with both denominators / from_counts / expectation from frequencies; the distribution constructor on unnormalised "
        "input with tuple and string keys, subdistribution, MMD / clipped NLL / JSD and evaluate_distribution_distance; wavefunction probability views "
        "over the whole acceptance band of the norm; eighteen circuit / gate operations incl. apply(state), bind(map) with symbol-keyed, name-keyed and "
        "superfluous-symbol maps, serialisation and the simulator): "
        "every argument and the receiver are built with SYMBOLIC leaves (coefficients, counts, weights, amplitudes as z3 terms; circuits on sympy "
        "symbols), deep snapshots are taken before the call, after it and after a second call on the same shared objects, and on EVERY feasible path of "
        "the real code (SymTrace explorer, z3 feasibility) the snapshots must be equal - structure concretely, symbolic leaves by z3 under the path "
        "condition - and the two results must be equal. A value-dependent mutation (an in-place rescale that happens only off the exact norm) is found on "
        "the path where it happens.",
        "numpy in-place arithmetic with symbolic scalars is modelled by the elements' Python operators writing into the same array (vf/symtrace "
        "__array_ufunc__). Lazily filled caches are not observable state. Raising first calls are not examined. Operations whose arguments cannot be "
        "symbolic here (parities on integer arrays, real sampling, file saves, scipy expectation, the averaging estimator) run as ground instances.",
        "SymTrace path exploration with z3 + deep structural snapshots around each call (symbolic leaves compared by z3 per path)",
        "DESIGN.md §1 E1/E2, §2 C20",
    )
