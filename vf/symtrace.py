"""E2 - SymTrace: shadow symbolic scalars pushed through the REAL numeric code, with a DFS
path explorer that decides branch feasibility by z3.

SV  - real/int symbolic scalar, a `float` subclass whose C-level value is NaN (so that a silent
      concretisation poisons the result instead of producing a plausible number);
CV  - complex symbolic scalar, a `complex` subclass (C-level value nan+nanj);
SB  - symbolic bool; bool(SB) asks the current Explorer.
Floats are modelled as exact reals (stated gap); integers as z3 Ints.
"""
from fractions import Fraction
import math
import time

import z3

NAN = float("nan")
_EX = None  # current explorer


class Inconclusive(BaseException):
    """not an Exception: library code that says `except Exception` (e.g. "is this a number?" probes) must not swallow it"""


class PathAbort(BaseException):
    """Raised to abandon a path (infeasible)."""


def bounded_check(solver, timeout_ms):
    """solver.check() with a hard wall-clock bound: z3's own `timeout` parameter is not honoured by every tactic
    solver, so a watchdog thread interrupts the context (z3 releases the GIL during check) and the answer is `unknown`."""
    import threading

    timer = threading.Timer(timeout_ms / 1000.0 * 1.5 + 3.0, solver.ctx.interrupt)
    timer.daemon = True
    timer.start()
    try:
        return solver.check()
    except z3.Z3Exception:
        return z3.unknown
    finally:
        timer.cancel()


def zr(x):
    """Python number -> z3 Real/Int value; z3 expr unchanged."""
    if isinstance(x, (SV,)):
        return x.z
    if isinstance(x, bool):
        return z3.IntVal(int(x))
    if isinstance(x, int):
        return z3.IntVal(x)
    if isinstance(x, Fraction):
        return z3.RealVal(str(x))
    if isinstance(x, float):
        if x != x or x in (float("inf"), float("-inf")):
            raise Inconclusive(f"non-finite float {x} met a symbolic value")
        return z3.RealVal(str(Fraction(x)))
    if z3.is_expr(x):
        return x
    try:
        import numpy as np

        if isinstance(x, np.integer):
            return z3.IntVal(int(x))
        if isinstance(x, np.floating):
            return z3.RealVal(str(Fraction(float(x))))
    except ImportError:
        pass
    raise TypeError(f"cannot lift {type(x).__name__} to z3")


def is_sym(x):
    return isinstance(x, (SV, CV, SB))


def _num(x):
    return isinstance(x, (int, float, Fraction)) and not isinstance(x, (SV,))


class SB:
    __slots__ = ("z",)

    def __init__(self, z):
        self.z = z

    def __bool__(self):
        if _EX is None:
            raise Inconclusive("symbolic bool outside an explorer")
        return _EX.decide(self.z)

    def __and__(self, o):
        return SB(z3.And(self.z, o.z if isinstance(o, SB) else bool(o)))

    __rand__ = __and__

    def __or__(self, o):
        return SB(z3.Or(self.z, o.z if isinstance(o, SB) else bool(o)))

    __ror__ = __or__

    def __invert__(self):
        return SB(z3.Not(self.z))

    def __eq__(self, o):
        if isinstance(o, SB):
            return SB(self.z == o.z)
        if isinstance(o, bool):
            return SB(self.z if o else z3.Not(self.z))
        return NotImplemented

    def __ne__(self, o):
        r = self.__eq__(o)
        return r if r is NotImplemented else SB(z3.Not(r.z))

    __hash__ = object.__hash__

    def all(self):
        return self

    def any(self):
        return self

    def item(self):
        return self

    def __repr__(self):
        return "<SB>"


def _cmp(a, b, op):
    za, zb = zr(a), zr(b)
    return SB(op(za, zb))


def _sym_array_ufunc(self, ufunc, method, *inputs, out=None, **kwargs):
    """numpy's protocol for arithmetic between arrays and symbolic scalars: the ufunc is applied elementwise
    with the Python-level operators of the elements (what numpy itself does for object arrays), INCLUDING the
    in-place forms (`arr /= s` writes into arr, as it does for real numbers)."""
    import operator

    import numpy as np

    if method != "__call__" or kwargs.get("where", True) is not True:
        raise Inconclusive(f"numpy {ufunc.__name__}.{method} on symbolic values")
    table = {
        np.add: operator.add, np.subtract: operator.sub, np.multiply: operator.mul, np.true_divide: operator.truediv,
        np.floor_divide: operator.floordiv, np.remainder: operator.mod, np.power: operator.pow, np.negative: operator.neg,
        np.positive: operator.pos, np.absolute: abs, np.square: lambda x: x * x,
        np.conjugate: lambda x: x.conjugate() if hasattr(x, "conjugate") else x,
        np.sqrt: lambda x: x.sqrt() if is_sym(x) else math.sqrt(x),
        np.equal: operator.eq, np.not_equal: operator.ne, np.less: operator.lt, np.less_equal: operator.le,
        np.greater: operator.gt, np.greater_equal: operator.ge,
    }
    f = table.get(ufunc)
    if f is None:
        raise Inconclusive(f"numpy ufunc {ufunc.__name__} on symbolic values")

    def as_obj(x):
        if isinstance(x, np.ndarray):
            return x
        a = np.empty((), dtype=object)
        a[()] = x
        return a

    arrs = [as_obj(i) for i in inputs]
    shape = np.broadcast(*arrs).shape
    res = np.empty(shape, dtype=object)
    views = [np.broadcast_to(a, shape) for a in arrs]
    for idx in np.ndindex(shape):
        vals = [v[idx] for v in views]
        vals = [x.item() if isinstance(x, np.generic) else x for x in vals]
        res[idx] = f(*vals)
    if out is not None:
        target = out[0]
        if target.dtype != object:
            raise Inconclusive("in-place numpy operation would store a symbolic value in a numeric array")
        target[...] = res
        return target
    return res if shape != () else res[()]


class SV(float):
    """Symbolic real (or int when is_int) scalar."""

    def __new__(cls, z, is_int=False, lo=None, hi=None):
        o = float.__new__(cls, NAN)
        o.z = z
        o.is_int = is_int or (z3.is_expr(z) and z.sort() == z3.IntSort())
        o.lo, o.hi = lo, hi
        o.sq = None
        return o

    __array_ufunc__ = _sym_array_ufunc  # numpy must not coerce this float subclass: elementwise Python operators

    def __copy__(self):
        return self  # immutable

    def __deepcopy__(self, memo):
        return self

    def __reduce_ex__(self, protocol):
        raise Inconclusive("pickling a symbolic value")

    # -- arithmetic --
    def _bin(self, o, f, rev=False):
        if _is_ndarray(o):
            return _map_array(o, lambda e: self._bin(e, f, rev))
        if isinstance(o, (CV, complex)) and not isinstance(o, SV):
            c = CV(self, 0)
            return f(o, c) if rev else f(c, o)
        try:
            zo = zr(o)
        except TypeError:
            return NotImplemented
        a, b = (zo, self.z) if rev else (self.z, zo)
        return SV(f(a, b))

    def __add__(self, o):
        return self._bin(o, lambda a, b: a + b)

    def __radd__(self, o):
        return self._bin(o, lambda a, b: a + b, True)

    def __sub__(self, o):
        return self._bin(o, lambda a, b: a - b)

    def __rsub__(self, o):
        return self._bin(o, lambda a, b: a - b, True)

    def __mul__(self, o):
        return self._bin(o, lambda a, b: a * b)

    def __rmul__(self, o):
        return self._bin(o, lambda a, b: a * b, True)

    def __truediv__(self, o):
        return self._bin(o, _zdiv)

    def __rtruediv__(self, o):
        return self._bin(o, _zdiv, True)

    def __floordiv__(self, o):
        return self._bin(o, lambda a, b: _floor(_zdiv(a, b)))

    def __mod__(self, o):
        # Python float/int modulo with positive modulus: a - b*floor(a/b)
        return self._bin(o, lambda a, b: a - b * _to_real(_floor(_zdiv(a, b))) if not (_is_int(a) and _is_int(b)) else a % b)

    def __rmod__(self, o):
        return self._bin(o, lambda a, b: a - b * _to_real(_floor(_zdiv(a, b))) if not (_is_int(a) and _is_int(b)) else a % b, True)

    def __neg__(self):
        return SV(-self.z)

    def __pos__(self):
        return self

    def __abs__(self):
        return SV(z3.If(self.z >= 0, self.z, -self.z))

    def __pow__(self, k):
        if k == 2 and getattr(self, "sq", None) is not None:
            return SV(self.sq)
        if isinstance(k, (int,)) and not isinstance(k, SV) and k >= 0:
            r = z3.RealVal(1) if not self.is_int else z3.IntVal(1)
            for _ in range(k):
                r = r * self.z
            return SV(r)
        if isinstance(k, float) and not isinstance(k, SV) and k == int(k) and k >= 0:
            return self ** int(k)
        if k == 0.5:
            return self.sqrt()
        raise Inconclusive(f"symbolic power with exponent {k!r}")

    def __rpow__(self, b):
        raise Inconclusive("symbolic exponent")

    # -- comparisons --
    def __lt__(self, o):
        return _cmp(self, o, lambda a, b: a < b)

    def __le__(self, o):
        return _cmp(self, o, lambda a, b: a <= b)

    def __gt__(self, o):
        return _cmp(self, o, lambda a, b: a > b)

    def __ge__(self, o):
        return _cmp(self, o, lambda a, b: a >= b)

    def __eq__(self, o):
        if isinstance(o, (CV, complex)) and not isinstance(o, SV):
            return CV(self, 0) == o
        try:
            return _cmp(self, o, lambda a, b: a == b)
        except TypeError:
            return False

    def __ne__(self, o):
        r = self.__eq__(o)
        return ~r if isinstance(r, SB) else (not r)

    def __hash__(self):
        return 7

    def __bool__(self):
        return bool(self != 0)

    # -- conversions --
    def __float__(self):
        raise Inconclusive("float() of a symbolic value (C-level concretisation)")

    def __complex__(self):
        raise Inconclusive("complex() of a symbolic value (C-level concretisation)")

    def __int__(self):
        return self._split("int")

    __index__ = __int__
    __trunc__ = __int__

    def __round__(self, n=None):
        if n is not None:
            raise Inconclusive("round(x, n) of a symbolic value")
        return SymRound(self)

    def __floor__(self):
        return self._split("floor")

    def __ceil__(self):
        return self._split("ceil")

    def _split(self, mode):
        """Exhaustive case split of an integer-valued function of self over its feasible range."""
        if _EX is None:
            raise Inconclusive("case split outside explorer")
        lo, hi = _EX.int_range(self, mode)
        x = self.z
        # the split is exhaustive only if the value cannot leave [lo-1, hi+1] on this path
        if _EX.feasible(z3.Or(x < lo - 1, x > hi + 1)):
            raise Inconclusive(f"{mode}() of a symbolic value whose range is not bounded by [{lo},{hi}]")
        for v in range(lo, hi + 1):
            if self.is_int:
                cond = x == v
            elif mode == "floor":
                cond = z3.And(x >= v, x < v + 1)
            elif mode == "ceil":
                cond = z3.And(x > v - 1, x <= v)
            elif mode == "int":
                cond = z3.If(x >= 0, z3.And(x >= v, x < v + 1), z3.And(x > v - 1, x <= v)) if v != 0 else z3.And(x > -1, x < 1)
            else:  # round half to even
                half = z3.RealVal("1/2")
                cond = z3.Or(z3.And(x > v - half, x < v + half), z3.And(x == v - half, v % 2 == 0), z3.And(x == v + half, v % 2 == 0))
            if _EX.decide(cond):
                return v
        raise PathAbort()

    # -- numpy element hooks & misc --
    def conjugate(self):
        return self

    @property
    def real(self):
        return self

    @property
    def imag(self):
        return 0.0

    def item(self):
        return self

    def sqrt(self):
        return SV(_EX.aux_sqrt(self.z))

    def floor(self):
        return SV(_to_real(_floor(self.z)))

    def exp(self):
        raise Inconclusive("exp of symbolic value")

    def __format__(self, spec):
        return "<sym>"

    def __repr__(self):
        return "<SV>"

    __str__ = __repr__


class SymRound:
    """round(x) of a symbolic x, kept lazy: hashes to a constant (so hash-keyed containers fall
    through to the real __eq__ of their elements), compares symbolically, and becomes a concrete
    int by exhaustive case split only when int()/index/arithmetic needs it."""

    def __init__(self, sv):
        self.sv = sv

    def __hash__(self):
        return 13

    def __eq__(self, o):
        if isinstance(o, SymRound):
            raise Inconclusive("comparison of two lazily rounded symbolic values")
        if isinstance(o, int) and not isinstance(o, bool):
            # round-half-even(x) == k as a predicate on x (no case split needed)
            x, half = zr_real(self.sv), z3.RealVal("1/2")
            return SB(z3.Or(z3.And(x > o - half, x < o + half), z3.And(x == o - half, o % 2 == 0), z3.And(x == o + half, o % 2 == 0)))
        return int(self) == o

    def __ne__(self, o):
        r = self.__eq__(o)
        return ~r if isinstance(r, SB) else (not r)

    def __int__(self):
        return self.sv._split("round")

    __index__ = __int__

    def _arith(name):
        def f(self, o):
            return getattr(int(self), name)(o)

        return f

    __add__ = _arith("__add__")
    __radd__ = _arith("__radd__")
    __sub__ = _arith("__sub__")
    __rsub__ = _arith("__rsub__")
    __mul__ = _arith("__mul__")
    __rmul__ = _arith("__rmul__")
    __lt__ = _arith("__lt__")
    __le__ = _arith("__le__")
    __gt__ = _arith("__gt__")
    __ge__ = _arith("__ge__")


def _is_int(a):
    return z3.is_expr(a) and a.sort() == z3.IntSort()


def _is_ndarray(o):
    return type(o).__module__ == "numpy" and type(o).__name__ == "ndarray"


def _map_array(arr, f):
    import numpy as np

    out = np.empty(arr.shape, dtype=object)
    for idx in np.ndindex(arr.shape):
        e = arr[idx]
        out[idx] = f(e.item() if isinstance(e, np.generic) else e)
    return out


def _to_real(a):
    return z3.ToReal(a) if _is_int(a) else a


def _zdiv(a, b):
    return _to_real(a) / _to_real(b)


def _floor(a):
    return z3.ToInt(a) if not _is_int(a) else a


class CV(complex):
    """Symbolic complex scalar: re, im are SV or plain numbers."""

    def __new__(cls, re, im=0):
        o = complex.__new__(cls, NAN, NAN)
        o.re = re if isinstance(re, SV) else (re.real if isinstance(re, complex) else re)
        o.im = im
        return o

    @property
    def real(self):
        return self.re

    @property
    def imag(self):
        return self.im

    __array_ufunc__ = _sym_array_ufunc

    def __copy__(self):
        return self

    def __deepcopy__(self, memo):
        return self

    @staticmethod
    def lift(o):
        if isinstance(o, CV):
            return o
        if isinstance(o, SV):
            return CV(o, 0)
        if isinstance(o, complex):
            return CV(o.real, o.imag)
        if isinstance(o, (int, float, Fraction)):
            return CV(o, 0)
        try:
            import numpy as np

            if isinstance(o, np.generic):
                c = complex(o)
                return CV(c.real, c.imag)
        except ImportError:
            pass
        return None

    def __add__(self, o):
        if _is_ndarray(o):
            return _map_array(o, lambda e: self + e)
        o = CV.lift(o)
        if o is None:
            return NotImplemented
        return CV(_a(self.re, o.re), _a(self.im, o.im))

    __radd__ = __add__

    def __sub__(self, o):
        if _is_ndarray(o):
            return _map_array(o, lambda e: self - e)
        o = CV.lift(o)
        if o is None:
            return NotImplemented
        return CV(_s(self.re, o.re), _s(self.im, o.im))

    def __rsub__(self, o):
        if _is_ndarray(o):
            return _map_array(o, lambda e: e - self)
        o = CV.lift(o)
        if o is None:
            return NotImplemented
        return o - self

    def __mul__(self, o):
        if _is_ndarray(o):
            return _map_array(o, lambda e: self * e)
        o = CV.lift(o)
        if o is None:
            return NotImplemented
        return CV(_s(_m(self.re, o.re), _m(self.im, o.im)), _a(_m(self.re, o.im), _m(self.im, o.re)))

    __rmul__ = __mul__

    def __truediv__(self, o):
        if _is_ndarray(o):
            return _map_array(o, lambda e: self / e)
        o = CV.lift(o)
        if o is None:
            return NotImplemented
        den = _a(_m(o.re, o.re), _m(o.im, o.im))
        num = self * o.conjugate()
        return CV(_d(num.re, den), _d(num.im, den))

    def __rtruediv__(self, o):
        if _is_ndarray(o):
            return _map_array(o, lambda e: e / self)
        o = CV.lift(o)
        if o is None:
            return NotImplemented
        return o / self

    def __neg__(self):
        return CV(_s(0, self.re), _s(0, self.im))

    def __pos__(self):
        return self

    def __pow__(self, k):
        if isinstance(k, int) and k >= 0:
            r = CV(1, 0)
            for _ in range(k):
                r = r * self
            return r
        raise Inconclusive("symbolic complex power")

    def conjugate(self):
        return CV(self.re, _s(0, self.im))

    def __abs__(self):
        sq = zr_real(_a(_m(self.re, self.re), _m(self.im, self.im)))
        if _num(self.im) and self.im == 0:
            r = abs(SV(zr_real(self.re)))
        else:
            r = SV(_EX.aux_sqrt(sq))
        r.sq = sq  # exact square, used by abs(x)**2
        return r

    def abs2(self):
        return _a(_m(self.re, self.re), _m(self.im, self.im))

    def __eq__(self, o):
        o = CV.lift(o)
        if o is None:
            return False
        return SB(z3.And(zr_real(self.re) == zr_real(o.re), zr_real(self.im) == zr_real(o.im)))

    def __ne__(self, o):
        r = self.__eq__(o)
        return ~r if isinstance(r, SB) else True

    def __hash__(self):
        return 11

    def __bool__(self):
        return bool(self != 0)

    def __complex__(self):
        raise Inconclusive("complex() of a symbolic value")

    def __float__(self):
        raise Inconclusive("float() of a symbolic complex")

    def item(self):
        return self

    def __format__(self, spec):
        return "<symc>"

    def __repr__(self):
        return "<CV>"

    __str__ = __repr__


def zr_real(x):
    z = zr(x)
    return _to_real(z)


def _a(x, y):
    if _num(x) and _num(y):
        return x + y
    return SV(zr_real(x) + zr_real(y)) if not (_num(y) and y == 0) else x if isinstance(x, SV) else SV(zr_real(x))


def _s(x, y):
    if _num(x) and _num(y):
        return x - y
    return SV(zr_real(x) - zr_real(y))


def _m(x, y):
    if _num(x) and _num(y):
        return x * y
    if _num(x) and x == 0 or _num(y) and y == 0:
        return 0
    return SV(zr_real(x) * zr_real(y))


def _d(x, y):
    if _num(x) and _num(y):
        return x / y
    return SV(zr_real(x) / zr_real(y))


# ---------------------------------------------------------------------------


class Explorer:
    """DFS over branch decisions; each path re-executes the harness function."""

    def __init__(self, base=(), timeout_ms=5000, max_paths=4000, int_bounds=(-64, 64), logic=None):
        self.logic = logic
        self.base = base if not isinstance(base, (list, tuple)) or type(base) not in (list, tuple) else list(base)
        self.timeout_ms = timeout_ms
        self.max_paths = max_paths
        self.int_bounds = int_bounds
        self.queries = 0
        self.solver_s = 0.0
        self.naux = 0
        self.aux = []

    # -- solver plumbing --
    def _mk(self, logic):
        if logic == "smt":
            return z3.Tactic("smt").solver()  # CDCL(T) core with incremental linearisation of monomials
        return z3.SolverFor(logic) if logic else z3.Solver()

    def _check(self, extra):
        logics = ["smt", "QF_NRA"] if self.logic == "auto" else [self.logic]
        r, s = "unknown", None
        for lg in logics:
            s = self._mk(lg)
            s.set("timeout", self.timeout_ms if len(logics) == 1 else max(1000, self.timeout_ms // 2))
            s.add(*self.base)
            s.add(*self.aux)
            s.add(*self.pc)
            s.add(*extra)
            t = time.time()
            r = str(bounded_check(s, self.timeout_ms))
            self.solver_s += time.time() - t
            self.queries += 1
            if r != "unknown":
                break
        return r, s

    def feasible(self, z):
        r, _ = self._check([z])
        if r == "unknown":
            raise Inconclusive("z3 unknown on a branch feasibility query")
        return r == "sat"

    def decide(self, z):
        if isinstance(z, bool):
            return z
        z = z3.simplify(z)
        if z3.is_true(z):
            return True
        if z3.is_false(z):
            return False
        i = len(self.trace)
        if i < len(self.prefix):
            v = self.prefix[i]
        else:
            fT = self.feasible(z)
            fF = self.feasible(z3.Not(z))
            if fT and fF:
                self.stack.append(list(self.trace) + [False])
                v = True
            elif fT:
                v = True
            elif fF:
                v = False
            else:
                raise PathAbort()
        self.trace.append(v)
        self.pc.append(z if v else z3.Not(z))
        return v

    def aux_sqrt(self, zsq):
        """fresh m >= 0 with m*m == zsq (zsq assumed >= 0 on the path)."""
        self.naux += 1
        m = z3.Real(f"aux_sqrt_{self.naux}")
        self.pc.append(z3.And(m >= 0, m * m == zsq))
        return m

    def assume(self, z):
        self.pc.append(z)

    def int_range(self, sv, mode):
        lo = sv.lo if sv.lo is not None else self.int_bounds[0]
        hi = sv.hi if sv.hi is not None else self.int_bounds[1]
        return lo, hi

    # -- proving at the end of a path --
    def prove(self, claim, weak=None):
        """PC => claim ?  returns ('holds'|'violated'|'unknown', model).
        `weak`: a weaker claim (claim => weak), e.g. "the difference is below 1e-3" next to "the difference is zero". It is asked
        for first, so that when the claim fails grossly somewhere the model shown is a gross failure (which a concrete replay
        reproduces with a wide margin) rather than one sitting on a tolerance edge; the verdict is still that of `claim`."""
        if isinstance(claim, SB):
            claim = claim.z
        if isinstance(claim, bool):
            return ("holds" if claim else "violated"), None
        if weak is not None:
            r, s = self._check([z3.Not(weak.z if isinstance(weak, SB) else weak)])
            if r == "sat":
                return "violated", s.model()
        r, s = self._check([z3.Not(claim)])
        if r == "unsat":
            return "holds", None
        if r == "sat":
            return "violated", s.model()
        return "unknown", None

    def run(self, fn):
        """fn() is executed once per feasible path; yields (pc, outcome) where outcome is
        ('ok', value) or ('exc', exception)."""
        global _EX
        self.stack = [[]]
        out = []
        npaths = 0
        while self.stack:
            if npaths >= self.max_paths:
                raise Inconclusive(f"more than {self.max_paths} paths")
            self.prefix = self.stack.pop()
            self.trace, self.pc = [], []
            prev, _EX = _EX, self
            try:
                try:
                    res = ("ok", fn(self))
                except PathAbort:
                    continue
                except Inconclusive:
                    raise
                except Exception as e:  # the library's own exceptions are outcomes
                    from .core import exception_origin

                    if exception_origin(e) == "shadow":
                        raise Inconclusive(f"the library asked a shadow value for something it does not model ({type(e).__name__}: {str(e)[:120]})")
                    if exception_origin(e) == "harness" and not isinstance(e, (AssertionError,)) and type(e).__name__ in ("RecursionError", "ArgumentError", "Z3Exception", "NameError", "AttributeError", "KeyError", "IndexError", "TypeError"):
                        # raised by the harness's own code (innermost frame under /verif, no library frame): not an outcome of
                        # the code under test
                        raise
                    try:
                        r, sv = self._check([])
                        mdl = sv.model() if r == "sat" else None
                    except Exception:
                        mdl = None
                    res = ("exc", e, mdl)
            finally:
                _EX = prev
            npaths += 1
            out.append(res)
        self.npaths = npaths
        return out


def model_value(model, z):
    v = model.eval(z, model_completion=True)
    if z3.is_int_value(v):
        return v.as_long()
    if z3.is_rational_value(v):
        f = v.as_fraction()
        return float(f)
    if z3.is_algebraic_value(v):
        return float(v.approx(20).as_fraction())
    return float("nan")


# ---------------------------------------------------------------------------
# environment proxies


class NpProxy:
    """Stands in for `numpy` inside a target module: delegates to the real numpy unless an
    argument is symbolic, in which case the exact mathematical meaning is used."""

    def __init__(self, np):
        object.__setattr__(self, "_np", np)
        object.__setattr__(self, "used", set())

    def __getattr__(self, name):
        attr = getattr(self._np, name)
        if callable(attr) and not isinstance(attr, type) and not name.startswith("_"):
            return _GenericNp(self, name, attr)
        return attr

    @staticmethod
    def _anysym(x):
        np = __import__("numpy")
        if is_sym(x):
            return True
        if isinstance(x, np.ndarray):
            return x.dtype == object and any(is_sym(e) for e in x.flat)
        if isinstance(x, (list, tuple)):
            return any(NpProxy._anysym(e) for e in x)
        if isinstance(x, (dict,)):
            return False
        try:
            if hasattr(x, "__iter__") and not isinstance(x, (str, bytes)):
                return False
        except Exception:
            pass
        return False

    def _obj(self, x):
        np = self._np
        if isinstance(x, np.ndarray):
            return x.astype(object) if x.dtype != object else x
        if isinstance(x, (list, tuple)):
            a = np.empty(len(x), dtype=object)
            for i, e in enumerate(x):
                a[i] = self._obj(e) if isinstance(e, (list, tuple)) else e
            if len(x) and isinstance(x[0], (list, tuple)):
                return np.array([list(self._obj(e)) for e in x], dtype=object)
            return a
        return x

    def asarray(self, x, dtype=None, **kw):
        if self._anysym(x):
            self.used.add("asarray")
            return self._obj(x)
        return self._np.asarray(x, dtype=dtype, **kw)

    def array(self, x, dtype=None, **kw):
        if self._anysym(x):
            self.used.add("array")
            return self._obj(x).copy() if hasattr(self._obj(x), "copy") else self._obj(x)
        return self._np.array(x, dtype=dtype, **kw)

    def fromiter(self, it, dtype=None, **kw):
        xs = list(it)
        if self._anysym(xs):
            self.used.add("fromiter")
            return self._obj(xs)
        return self._np.fromiter(xs, dtype=dtype, **kw)

    def abs(self, x):
        if self._anysym(x):
            self.used.add("abs")
            if is_sym(x):
                return abs(x)
            return self._map(x, abs)
        return self._np.abs(x)

    absolute = abs

    def _map(self, x, f):
        np = self._np
        a = self._obj(x)
        out = np.empty(a.shape, dtype=object)
        for idx in np.ndindex(a.shape):
            out[idx] = f(a[idx])
        return out

    def sum(self, x, *a, **kw):
        if self._anysym(x):
            self.used.add("sum")
            if is_sym(x):
                return x  # numpy.sum of a scalar is the scalar
            tot = 0
            for e in self._obj(x).flat:
                tot = tot + e
            return tot
        return self._np.sum(x, *a, **kw)

    def sqrt(self, x):
        if self._anysym(x):
            self.used.add("sqrt")
            return x.sqrt() if is_sym(x) else self._map(x, lambda e: e.sqrt() if is_sym(e) else math.sqrt(e))
        return self._np.sqrt(x)

    def floor(self, x):
        if self._anysym(x):
            self.used.add("floor")
            return x.floor() if is_sym(x) else self._map(x, lambda e: e.floor() if is_sym(e) else math.floor(e))
        return self._np.floor(x)

    def real(self, x):
        if self._anysym(x):
            return x.real if is_sym(x) else self._map(x, lambda e: e.real)
        return self._np.real(x)

    def isclose(self, a, b, rtol=1e-05, atol=1e-08, **kw):
        if self._anysym(a) or self._anysym(b):
            self.used.add("isclose")
            np = self._np
            if isinstance(a, (np.ndarray, list, tuple)) or isinstance(b, (np.ndarray, list, tuple)):
                # elementwise: every entry's predicate is decided here (forked where both outcomes are feasible), so that the
                # result is a real boolean array and can be used as a mask
                A, B = self._obj(a) if not is_sym(a) else a, self._obj(b) if not is_sym(b) else b
                A = A if isinstance(A, np.ndarray) else np.array(A, dtype=object)
                B = B if isinstance(B, np.ndarray) else np.array(B, dtype=object)
                shape = np.broadcast(A, B).shape
                out = np.zeros(shape, dtype=bool)
                for idx, x, y in zip(np.ndindex(shape), np.broadcast_to(A, shape).flat, np.broadcast_to(B, shape).flat):
                    if is_sym(x) or is_sym(y):
                        out[idx] = bool(isclose_sym(x, y, rtol, atol))
                    else:
                        out[idx] = bool(np.isclose(complex(x) if isinstance(x, complex) else x, complex(y) if isinstance(y, complex) else y, rtol=rtol, atol=atol))
                return out
            return isclose_sym(a, b, rtol, atol)
        return self._np.isclose(a, b, rtol=rtol, atol=atol, **kw)

    def allclose(self, a, b, rtol=1e-05, atol=1e-08, **kw):
        if self._anysym(a) or self._anysym(b):
            self.used.add("allclose")
            np = self._np
            if is_sym(a) or is_sym(b) or not (hasattr(a, "__len__") or hasattr(b, "__len__")):
                return bool(isclose_sym(a, b, rtol, atol))
            A, B = self._obj(a), self._obj(b)
            for x, y in zip(np.broadcast_to(A, np.broadcast(A, B).shape).flat, np.broadcast_to(B, np.broadcast(A, B).shape).flat):
                if not bool(isclose_sym(x, y, rtol, atol)):
                    return False
            return True
        return self._np.allclose(a, b, rtol=rtol, atol=atol, **kw)

    def argsort(self, x, *a, **kw):
        if self._anysym(x):
            self.used.add("argsort")
            xs = list(self._obj(x))
            idx = list(range(len(xs)))
            # stable insertion sort with forked comparisons
            for i in range(1, len(idx)):
                j = i
                while j > 0 and bool(xs[idx[j - 1]] > xs[idx[j]]):
                    idx[j - 1], idx[j] = idx[j], idx[j - 1]
                    j -= 1
            return self._np.array(idx)
        return self._np.argsort(x, *a, **kw)

    def zeros(self, shape, dtype=None, **kw):
        return self._np.zeros(shape, dtype=dtype, **kw)

    @property
    def linalg(self):
        return _LinalgProxy(self)


class _GenericNp:
    """A numpy function the proxy has no exact model for. Concrete arguments: the real function, untouched. A symbolic argument:
    the REAL numpy function on object arrays (symbolic scalars boxed as 0-d object arrays, dtype requests widened to object).
    numpy's object loops call the elements' own Python operators and methods (`* + abs conjugate sqrt exp`), so structural and
    elementwise functions (broadcast_to, shape, reshape, concatenate, where, multiply, square, dot, vdot, ...) keep their
    meaning without a model of ours. A function numpy cannot run on objects, or a result that lost its symbols (NaN leak),
    is Inconclusive - never a verdict."""

    def __init__(self, px, name, fn):
        self._px, self._name, self._fn = px, name, fn

    def __getattr__(self, a):
        return getattr(self._fn, a)

    def __repr__(self):
        return f"<proxied numpy.{self._name}>"

    def __call__(self, *a, **kw):
        px = self._px
        if not any(NpProxy._anysym(v) for v in list(a) + list(kw.values())):
            return self._fn(*a, **kw)
        np = px._np
        px.used.add("generic:" + self._name)

        def box(v):
            if isinstance(v, SB):
                raise Inconclusive(f"numpy.{self._name} applied to a symbolic bool")
            if is_sym(v):
                arr = np.empty((), dtype=object)
                arr[()] = v
                return arr
            if isinstance(v, (list, tuple)) and NpProxy._anysym(v):
                return px._obj(v)
            return v

        a2 = [box(v) for v in a]
        kw2 = {k: box(v) for k, v in kw.items()}
        if kw2.get("dtype") is not None and kw2["dtype"] is not object:
            kw2["dtype"] = object
        try:
            r = self._fn(*a2, **kw2)
        except Exception as e:
            raise Inconclusive(f"numpy.{self._name} is not executable on symbolic values ({type(e).__name__}: {str(e)[:80]})")
        return self._unbox(r)

    def _unbox(self, r):
        np = self._px._np
        if isinstance(r, tuple):
            return tuple(self._unbox(x) for x in r)
        if isinstance(r, np.ndarray):
            if r.dtype == object:
                return r.item() if r.ndim == 0 else r
            if r.dtype.kind in "fc" and r.size and bool(np.isnan(r).any()):
                raise Inconclusive(f"numpy.{self._name} concretised a symbolic value")
            return r
        if isinstance(r, (float, complex, np.floating, np.complexfloating)) and not is_sym(r) and r != r:
            raise Inconclusive(f"numpy.{self._name} concretised a symbolic value")
        return r


class _LinalgProxy:
    def __init__(self, npx):
        self._npx = npx

    def __getattr__(self, name):
        return getattr(self._npx._np.linalg, name)

    def norm(self, x, *a, **kw):
        if NpProxy._anysym(x) and not a and not kw:
            self._npx.used.add("linalg.norm")
            tot = 0
            for e in self._npx._obj(x).flat:
                c = CV.lift(e)
                tot = _a(tot, c.abs2())
            return SV(_EX.aux_sqrt(zr_real(tot)))
        return self._npx._np.linalg.norm(x, *a, **kw)


def isclose_sym(a, b, rtol, atol):
    """|a-b| <= atol + rtol*|b| (numpy's formula), exact reals; complex via squares."""
    ca, cb = CV.lift(a), CV.lift(b)
    if ca is None or cb is None:
        raise Inconclusive("isclose on non-scalar symbolic values")
    d = ca - cb
    d2 = zr_real(d.abs2())
    b_is_real_num = _num(cb.re) and _num(cb.im)
    if b_is_real_num:
        rhs = Fraction(atol) + Fraction(rtol) * Fraction(math.hypot(float(cb.re), float(cb.im)))
        if _num(d.im) and d.im == 0:
            dre = zr_real(d.re)  # real difference: keep the predicate linear in it
            return SB(z3.And(dre <= zr_real(rhs), -dre <= zr_real(rhs)))
        return SB(d2 <= zr_real(rhs * rhs))
    if _num(d.im) and d.im == 0 and _num(cb.im) and cb.im == 0:
        # both real: |a-b| <= atol + rtol*|b| is piecewise linear
        dre, bre = zr_real(d.re), zr_real(cb.re)
        return SB(z3.If(dre >= 0, dre, -dre) <= zr_real(Fraction(atol)) + zr_real(Fraction(rtol)) * z3.If(bre >= 0, bre, -bre))
    # sqrt-free exact form of  sqrt(d2) <= atol + rtol*sqrt(b2):
    #   L := d2 - atol^2 - rtol^2*b2 ;  holds  iff  L <= 0  or  L^2 <= 4*atol^2*rtol^2*b2
    b2 = zr_real(cb.abs2())
    A_, R_ = zr_real(Fraction(atol)), zr_real(Fraction(rtol))
    L = d2 - A_ * A_ - R_ * R_ * b2
    return SB(z3.Or(L <= 0, L * L <= 4 * A_ * A_ * R_ * R_ * b2))


class MathProxy:
    def __init__(self, m):
        self._m = m

    def __getattr__(self, name):
        attr = getattr(self._m, name)
        if not callable(attr):
            return attr

        def call(*a, **kw):
            flat = [x for arg in a for x in (arg if isinstance(arg, (list, tuple)) else [arg])]
            if not any(is_sym(x) for x in flat):
                return attr(*a, **kw)
            # a math function without an exact model here: the few with an obvious exact meaning are mapped onto the
            # symbolic value's own operators, anything else is inconclusive (a C function would silently read NaN)
            if name == "fabs" and len(a) == 1:
                return abs(a[0])
            if name == "fsum" and len(a) == 1:
                tot = 0
                for x in a[0]:
                    tot = tot + x
                return tot
            if name == "prod" and len(a) == 1:
                tot = kw.get("start", 1)
                for x in a[0]:
                    tot = tot * x
                return tot
            if name == "pow" and len(a) == 2 and isinstance(a[1], int) and not is_sym(a[1]):
                return a[0] ** a[1]
            if name == "exp" and len(a) == 1 and hasattr(a[0], "exp"):
                return a[0].exp()
            if name in ("isnan", "isinf") and len(a) == 1:
                return False  # symbolic values range over the reals
            if name == "isfinite" and len(a) == 1:
                return True
            raise Inconclusive(f"math.{name} applied to a symbolic value is not modelled")

        return call

    def isclose(self, a, b, rel_tol=1e-09, abs_tol=0.0):
        if is_sym(a) or is_sym(b):
            za, zb = zr_real(a), zr_real(b)
            absd = z3.If(za - zb >= 0, za - zb, zb - za)
            aa = z3.If(za >= 0, za, -za)
            ab = z3.If(zb >= 0, zb, -zb)
            mx = z3.If(aa >= ab, aa, ab)
            return SB(z3.Or(absd <= zr_real(Fraction(rel_tol)) * mx, absd <= zr_real(Fraction(abs_tol))))
        return self._m.isclose(a, b, rel_tol=rel_tol, abs_tol=abs_tol)

    def floor(self, x):
        if is_sym(x):
            return x.__floor__()
        return self._m.floor(x)

    def ceil(self, x):
        if is_sym(x):
            return x.__ceil__()
        return self._m.ceil(x)

    def sqrt(self, x):
        if is_sym(x):
            return x.sqrt()
        return self._m.sqrt(x)


class patched:
    """Context manager: set attributes on module objects and restore them."""

    def __init__(self, *triples):
        self.triples = triples
        self.saved = []

    def __enter__(self):
        for mod, name, val in self.triples:
            self.saved.append((mod, name, getattr(mod, name, _MISSING)))
            setattr(mod, name, val)
        return self

    def __exit__(self, *a):
        for mod, name, old in reversed(self.saved):
            if old is _MISSING:
                delattr(mod, name)
            else:
                setattr(mod, name, old)


_MISSING = object()


class _FloatShadowMeta(type):
    def __instancecheck__(cls, obj):
        return isinstance(obj, float)

    def __subclasscheck__(cls, sub):
        return issubclass(sub, float)


class float_shadow(float, metaclass=_FloatShadowMeta):
    """module-global shadow of the builtin float: identity on symbolic values (exact-real model), the real
    float otherwise; still usable as a type in isinstance(). Injected into target modules so that
    `float(value)` on a symbolic value stays symbolic."""

    def __new__(cls, x=0.0):
        if is_sym(x):
            return x.re if isinstance(x, CV) and _num(x.im) and x.im == 0 else x
        return float(x)


class _ComplexShadowMeta(type):
    def __instancecheck__(cls, obj):
        return isinstance(obj, complex)

    def __subclasscheck__(cls, sub):
        return issubclass(sub, complex)


class complex_shadow(complex, metaclass=_ComplexShadowMeta):
    """module-global shadow of the builtin complex (see float_shadow)"""

    def __new__(cls, *a):
        if len(a) == 1 and is_sym(a[0]):
            return CV.lift(a[0])
        if len(a) == 2 and (is_sym(a[0]) or is_sym(a[1])):
            return CV(a[0], a[1])
        return complex(*a)


def clear_common_den(e):
    """e is a z3 real term built from + - * and divisions. If every division in e has the SAME denominator D and e is a sum
    of terms each carrying at most one such division, return (c, D) with c == e * D as a division-free term (so that a claim
    e == w/D can be decided as the polynomial identity c == w; z3's nonlinear solver does not clear hundreds of shared
    denominators by itself). Returns None when e does not have that shape - callers then fall back to the plain claim."""
    import sys

    if sys.getrecursionlimit() < 50000:
        sys.setrecursionlimit(50000)
    # sums built by Python's sum() are left-nested (depth = number of terms); z3's simplifier flattens them to n-ary sums and
    # keeps the divisions, so the traversals below stay shallow
    e = z3.simplify(e, som=False)
    dens = []
    stack = [e]
    while stack:
        t = stack.pop()
        if z3.is_app_of(t, z3.Z3_OP_DIV):
            dens.append(t.arg(1))
            stack.append(t.arg(0))
        else:
            stack.extend(t.children())
    if not dens:
        return None
    D = dens[0]
    if any(not d.eq(D) for d in dens[1:]):
        return None

    memo = {}

    def has_div(t):
        k = t.get_id()
        if k not in memo:
            memo[k] = True if z3.is_app_of(t, z3.Z3_OP_DIV) else any(has_div(c) for c in t.children())
        return memo[k]

    def times_d(t):
        """t * D, division-free; None if t is not of the accepted shape"""
        if not has_div(t):
            return t * D
        if z3.is_app_of(t, z3.Z3_OP_DIV):
            return None if has_div(t.arg(0)) else t.arg(0)
        if z3.is_add(t):
            parts = [times_d(c) for c in t.children()]
            return None if any(p is None for p in parts) else z3.Sum(parts)
        if z3.is_app_of(t, z3.Z3_OP_SUB):
            parts = [times_d(c) for c in t.children()]
            if any(p is None for p in parts):
                return None
            out = parts[0]
            for q in parts[1:]:
                out = out - q
            return out
        if z3.is_app_of(t, z3.Z3_OP_UMINUS):
            q = times_d(t.arg(0))
            return None if q is None else -q
        if z3.is_mul(t):
            ch = t.children()
            withdiv = [c for c in ch if has_div(c)]
            if len(withdiv) != 1:
                return None
            q = times_d(withdiv[0])
            if q is None:
                return None
            for c in ch:
                if c is not withdiv[0]:
                    q = q * c
            return q
        if z3.is_app_of(t, z3.Z3_OP_TO_REAL):
            return None
        return None

    c = times_d(e)
    return None if c is None else (c, D)


def real_var(name):
    return SV(z3.Real(name))


def int_var(name, lo=None, hi=None):
    return SV(z3.Int(name), True, lo, hi)


def complex_var(name):
    return CV(SV(z3.Real(name + "_re")), SV(z3.Real(name + "_im")))


def poisoned(x):
    """True if x (nested) contains a NaN that is not a symbolic value: a silent concretisation."""
    import numpy as np

    if is_sym(x):
        return False
    if isinstance(x, float):
        return x != x
    if isinstance(x, complex):
        return x != x
    if isinstance(x, np.ndarray):
        if x.dtype == object:
            return any(poisoned(e) for e in x.flat)
        return bool(np.isnan(x).any()) if x.dtype.kind in "fc" else False
    if isinstance(x, dict):
        return any(poisoned(k) or poisoned(v) for k, v in x.items())
    if isinstance(x, (list, tuple, set, frozenset)):
        return any(poisoned(e) for e in x)
    return False
