"""Front end: sympy expressions / Python numbers produced by the REAL library code
-> two algebras over the same environment of unknowns:

* ZAlg  - pairs (re, im) of z3 real terms; angle atom a_k is the circle point
          (c_k, s_k), c_k^2 + s_k^2 = 1, standing for (cos, sin)(unit * a_k)
* LAlg  - exact Laurent polynomials (vf.laurent.L) in z_k = e^{i unit a_k}

Symbols are REAL unknowns (the properties quantify over real parameters), so
conjugate(sym) == sym.
"""
from fractions import Fraction
import math

import sympy
import z3

from .laurent import L, ONE, ZERO


class Refuse(Exception):
    """Translation refusal: the instance is inconclusive, never a pass."""


def install_numpy_sympy_shim():
    """A-ENV-1: the numpy-scalar converters sympy >= 1.13 ships; sympy 1.9 + numpy 2 lack them."""
    import numpy as np
    from sympy.core.sympify import converter

    def _f(x):
        return sympy.Float(float(x))

    def _c(x):
        x = complex(x)
        if x.imag == 0:
            return sympy.Float(x.real)
        return sympy.Float(x.real) + sympy.I * sympy.Float(x.imag)

    def _i(x):
        return sympy.Integer(int(x))

    for t in (np.float64, np.float32, np.float16):
        converter[t] = _f
    for t in (np.complex128, np.complex64):
        converter[t] = _c
    for t in (np.int64, np.int32, np.int16, np.int8, np.uint8, np.uint16, np.uint32, np.uint64):
        converter[t] = _i
    converter[np.bool_] = lambda x: sympy.Integer(int(bool(x)))


def frac(x):
    if isinstance(x, Fraction):
        return x
    if isinstance(x, bool):
        return Fraction(int(x))
    if isinstance(x, int):
        return Fraction(x)
    if isinstance(x, float):
        if not math.isfinite(x):
            raise Refuse(f"non-finite number {x!r}")
        return Fraction(x)
    if isinstance(x, sympy.Integer):
        return Fraction(int(x))
    if isinstance(x, sympy.Rational):
        return Fraction(int(x.p), int(x.q))
    if isinstance(x, sympy.Float):
        return Fraction(float(x))
    try:
        import numpy as np

        if isinstance(x, (np.floating, np.integer)):
            return Fraction(float(x))
    except Exception:
        pass
    raise Refuse(f"not a real number: {x!r} ({type(x).__name__})")


EXACT_DEN_LIMIT = 1 << 30


class Env:
    """Unknowns of one structural instance."""

    def __init__(self, unit=Fraction(1, 2)):
        self.unit = Fraction(unit)
        self.atoms = {}  # sympy atom (symbol or monomial) -> index
        self.vars = {}  # sympy symbol -> index
        self.inexact = False  # saw a constant that is not a small dyadic/rational
        self.consts_from_transcendental = 0

    def atom(self, a):
        return self.atoms.setdefault(a, len(self.atoms))

    def var(self, s):
        return self.vars.setdefault(s, len(self.vars))

    def note_const(self, q):
        if q.denominator > EXACT_DEN_LIMIT:
            self.inexact = True


# ---------------------------------------------------------------------------
# z3 algebra


def _isnum(x):
    return isinstance(x, (Fraction, int))


def _zadd(a, b):
    if _isnum(a) and _isnum(b):
        return Fraction(a) + Fraction(b)
    if _isnum(a):
        if a == 0:
            return b
        return z3.RealVal(str(Fraction(a))) + b
    if _isnum(b):
        if b == 0:
            return a
        return a + z3.RealVal(str(Fraction(b)))
    return a + b


def _zmul(a, b):
    if _isnum(a) and _isnum(b):
        return Fraction(a) * Fraction(b)
    if _isnum(a):
        if a == 0:
            return Fraction(0)
        if a == 1:
            return b
        if a == -1:
            return -b
        return z3.RealVal(str(Fraction(a))) * b
    if _isnum(b):
        return _zmul(b, a)
    return a * b


def _zneg(a):
    return -a if not _isnum(a) else -Fraction(a)


def zterm(x):
    return z3.RealVal(str(Fraction(x))) if _isnum(x) else x


class ZAlg:
    name = "z3"

    def __init__(self, env, prefix="u"):
        self.env = env
        self.prefix = prefix
        self._cs = {}
        self._pow = {}
        self._vars = {}

    def cs(self, k):
        if k not in self._cs:
            self._cs[k] = (z3.Real(f"{self.prefix}_c{k}"), z3.Real(f"{self.prefix}_s{k}"))
        return self._cs[k]

    def var(self, k):
        if k not in self._vars:
            self._vars[k] = z3.Real(f"{self.prefix}_v{k}")
        return (self._vars[k], Fraction(0))

    def const(self, re, im=0):
        return (Fraction(re), Fraction(im))

    zero = property(lambda s: (Fraction(0), Fraction(0)))
    one = property(lambda s: (Fraction(1), Fraction(0)))

    def add(self, a, b):
        return (_zadd(a[0], b[0]), _zadd(a[1], b[1]))

    def neg(self, a):
        return (_zneg(a[0]), _zneg(a[1]))

    def sub(self, a, b):
        return self.add(a, self.neg(b))

    def mul(self, a, b):
        return (
            _zadd(_zmul(a[0], b[0]), _zneg(_zmul(a[1], b[1]))),
            _zadd(_zmul(a[0], b[1]), _zmul(a[1], b[0])),
        )

    def conj(self, a):
        return (a[0], _zneg(a[1]))

    def circ(self, k, e):
        if e == 0:
            return self.one
        if e < 0:
            return self.conj(self.circ(k, -e))
        key = (k, e)
        if key not in self._pow:
            c, s = self.cs(k)
            if e == 1:
                self._pow[key] = (c, s)
            else:
                h = self.circ(k, e // 2)
                r = self.mul(h, h)
                if e % 2:
                    r = self.mul(r, (c, s))
                self._pow[key] = r
        return self._pow[key]

    def constraints(self):
        out = []
        for k, (c, s) in sorted(self._cs.items()):
            out.append(c * c + s * s == 1)
        return out

    def is_zero(self, a):
        return _isnum(a[0]) and _isnum(a[1]) and a[0] == 0 and a[1] == 0


class LAlg:
    name = "laurent"

    def __init__(self, env):
        self.env = env

    def var(self, k):
        return L.v(k)

    def const(self, re, im=0):
        return L.const(re, im)

    zero = property(lambda s: ZERO)
    one = property(lambda s: ONE)

    def add(self, a, b):
        return a + b

    def neg(self, a):
        return -a

    def sub(self, a, b):
        return a - b

    def mul(self, a, b):
        return a * b

    def conj(self, a):
        return a.conj()

    def circ(self, k, e):
        return L.z(k, e)

    def is_zero(self, a):
        return a.is_zero()


# ---------------------------------------------------------------------------
# sympy -> algebra


class Front:
    def __init__(self, env, alg):
        self.env, self.alg = env, alg
        self.cache = {}

    # numbers
    def num(self, x):
        q = frac(x)
        self.env.note_const(q)
        return self.alg.const(q)

    def cnum(self, x):
        x = complex(x)
        re, im = frac(x.real), frac(x.imag)
        self.env.note_const(re)
        self.env.note_const(im)
        return self.alg.const(re, im)

    def linear(self, e):
        """e = sum_j q_j * atom_j + k  -> ({atom: Fraction}, k Fraction)."""
        e = sympy.expand(e)
        co, k = {}, Fraction(0)
        for term in sympy.Add.make_args(e):
            c, rest = term.as_coeff_Mul()
            if not c.is_real:
                raise Refuse(f"non-real angle coefficient in {e}")
            if rest == 1:
                k += frac(c)
            else:
                if not all(s.is_Symbol for s in rest.free_symbols) or rest.has(sympy.I):
                    raise Refuse(f"angle atom {rest}")
                if not rest.is_polynomial(*rest.free_symbols):
                    raise Refuse(f"non-polynomial angle atom {rest}")
                co[rest] = co.get(rest, Fraction(0)) + frac(c)
        return co, k

    def expi(self, e):
        """e^{i e} for a real linear angle expression e."""
        A = self.alg
        co, k = self.linear(e)
        if k:
            kf = float(k)
            self.env.inexact = True
            self.env.consts_from_transcendental += 1
            r = A.const(Fraction(math.cos(kf)), Fraction(math.sin(kf)))
        else:
            r = A.one
        for a, q in co.items():
            n = q / self.env.unit
            if n.denominator != 1:
                raise Refuse(f"angle coefficient {q} of {a} is not a multiple of unit {self.env.unit}")
            if n != 0:
                r = A.mul(r, A.circ(self.env.atom(a), int(n)))
        return r

    def t(self, e):
        if isinstance(e, (int, float)) and not isinstance(e, bool):
            return self.num(e)
        if isinstance(e, complex):
            return self.cnum(e)
        try:
            import numpy as np

            if isinstance(e, np.generic):
                return self.cnum(complex(e))
        except ImportError:
            pass
        e = sympy.sympify(e)
        if e.has(sympy.conjugate):
            # symbols are real unknowns: conjugate(sym) == sym
            e = e.xreplace({sympy.conjugate(x): x for x in e.free_symbols})
        if e.has(sympy.im) or e.has(sympy.re):
            # ... hence im(sym) == 0 and re(sym) == sym (sympy produces them when it rewrites Abs(exp(I*sym)))
            rep = {sympy.im(x): sympy.Integer(0) for x in e.free_symbols}
            rep.update({sympy.re(x): x for x in e.free_symbols})
            e = e.xreplace(rep)
        key = e
        if key in self.cache:
            return self.cache[key]
        r = self._t(e)
        self.cache[key] = r
        return r

    def _t(self, e):
        A = self.alg
        if e.is_Number:
            if e.is_real:
                return self.num(e)
            raise Refuse(f"number {e}")
        if e is sympy.I:
            return A.const(0, 1)
        if e.is_NumberSymbol:  # pi, E
            self.env.inexact = True
            self.env.consts_from_transcendental += 1
            return A.const(Fraction(float(e)))
        if e.is_Symbol:
            return A.var(self.env.var(e))
        if e.is_Add:
            r = A.zero
            for a in e.args:
                r = A.add(r, self.t(a))
            return r
        if e.is_Mul:
            r = A.one
            for a in e.args:
                r = A.mul(r, self.t(a))
            return r
        if e.is_Pow:
            b, ex = e.args
            if isinstance(b, sympy.Abs) and ex.is_Integer and int(ex) > 0 and int(ex) % 2 == 0:
                x = self.t(b.args[0])
                sq = A.mul(x, A.conj(x))  # |x|^2, exact
                r = A.one
                for _ in range(int(ex) // 2):
                    r = A.mul(r, sq)
                return r
            if ex.is_Integer and int(ex) >= 0:
                bb = self.t(b)
                r = A.one
                for _ in range(int(ex)):
                    r = A.mul(r, bb)
                return r
            if isinstance(b, sympy.exp) and ex.is_Integer:
                return self.t(sympy.exp(b.args[0] * ex))
            if b is sympy.E:
                return self.t(sympy.exp(ex))
            if not e.free_symbols:
                v = complex(e.evalf(30))
                self.env.inexact = True
                self.env.consts_from_transcendental += 1
                return A.const(Fraction(v.real), Fraction(v.imag))
            raise Refuse(f"power {e}")
        if isinstance(e, sympy.cos):
            x = self.expi(e.args[0])
            return A.mul(A.add(x, A.conj(x)), A.const(Fraction(1, 2)))
        if isinstance(e, sympy.sin):
            x = self.expi(e.args[0])
            return A.mul(A.sub(x, A.conj(x)), A.const(0, Fraction(-1, 2)))
        if isinstance(e, sympy.exp):
            a = sympy.expand(e.args[0])
            y = sympy.expand(a.coeff(sympy.I))
            x = sympy.expand(a - sympy.I * y)
            if x.free_symbols or y.has(sympy.I) or x.has(sympy.I):
                raise Refuse(f"exp argument {e.args[0]}")
            r = self.expi(y)
            if x != 0:
                self.env.inexact = True
                self.env.consts_from_transcendental += 1
                r = A.mul(r, A.const(Fraction(math.exp(float(x)))))
            return r
        if isinstance(e, sympy.conjugate):
            return A.conj(self.t(e.args[0]))
        if isinstance(e, sympy.re):
            x = self.t(e.args[0])
            return A.mul(A.add(x, A.conj(x)), A.const(Fraction(1, 2)))
        if isinstance(e, sympy.im):
            x = self.t(e.args[0])
            return A.mul(A.sub(x, A.conj(x)), A.const(0, Fraction(-1, 2)))
        if not e.free_symbols:
            try:
                v = complex(e.evalf(30))
            except Exception as ex:
                raise Refuse(f"constant {e}: {ex}")
            self.env.inexact = True
            self.env.consts_from_transcendental += 1
            return A.const(Fraction(v.real), Fraction(v.imag))
        raise Refuse(f"unsupported {type(e).__name__}: {str(e)[:80]}")

    def mat(self, M):
        """Matrix/vector (sympy Matrix, numpy array, nested lists) -> list of rows."""
        import numpy as np

        if isinstance(M, sympy.MatrixBase):
            rows, cols = M.shape
            return [[self.t(M[i, j]) for j in range(cols)] for i in range(rows)]
        Arr = np.array(M, dtype=object)
        if Arr.ndim == 1:
            return [[self.t(x)] for x in Arr]
        return [[self.t(Arr[i, j]) for j in range(Arr.shape[1])] for i in range(Arr.shape[0])]


# ---------------------------------------------------------------------------
# matrix helpers generic over an algebra


def mmul(A, X, Y):
    out = []
    for i in range(len(X)):
        row = []
        for j in range(len(Y[0])):
            acc = A.zero
            for l in range(len(Y)):
                if A.is_zero(X[i][l]) or A.is_zero(Y[l][j]):
                    continue
                acc = A.add(acc, A.mul(X[i][l], Y[l][j]))
            row.append(acc)
        out.append(row)
    return out


def mdag(A, X):
    return [[A.conj(X[j][i]) for j in range(len(X))] for i in range(len(X[0]))]


def meye(A, n):
    return [[A.one if i == j else A.zero for j in range(n)] for i in range(n)]


def mkron(A, X, Y):
    rx, cx, ry, cy = len(X), len(X[0]), len(Y), len(Y[0])
    return [
        [A.mul(X[i // ry][j // cy], Y[i % ry][j % cy]) for j in range(cx * cy)]
        for i in range(rx * ry)
    ]


def mscale(A, X, s):
    return [[A.mul(x, s) for x in row] for row in X]


def madd(A, X, Y):
    return [[A.add(a, b) for a, b in zip(ra, rb)] for ra, rb in zip(X, Y)]


def embed(A, M, idx, n):
    """Oracle-side embedding of a k-qubit matrix on qubit tuple idx of an n-qubit register
    (qubit 0 = most significant bit): E[r,c] = M[r|idx, c|idx] if r,c agree off idx else 0."""
    k = len(idx)
    N = 1 << n
    others = [q for q in range(n) if q not in idx]

    def sub(r):
        v = 0
        for q in idx:
            v = (v << 1) | ((r >> (n - 1 - q)) & 1)
        return v

    def rest(r):
        return tuple((r >> (n - 1 - q)) & 1 for q in others)

    out = [[A.zero] * N for _ in range(N)]
    for r in range(N):
        for c in range(N):
            if rest(r) == rest(c):
                out[r][c] = M[sub(r)][sub(c)]
    return out


def mdiag_blocks(A, blocks):
    n = sum(len(b) for b in blocks)
    out = [[A.zero] * n for _ in range(n)]
    o = 0
    for b in blocks:
        for i in range(len(b)):
            for j in range(len(b)):
                out[o + i][o + j] = b[i][j]
        o += len(b)
    return out
