"""CLI: python -m vf.run <Cxx> [--tier quick|thorough] [--replay FILE]"""
import argparse
import importlib
import json
import os
import sys
import time
import warnings


def main():
    ap = argparse.ArgumentParser()
    ap.add_argument("pid")
    ap.add_argument("--tier", default=os.environ.get("VERIF_TIER", "quick"), choices=["quick", "thorough"])
    ap.add_argument("--replay")
    ap.add_argument("--only", help="substring filter on instance keys (debugging)")
    args = ap.parse_args()
    warnings.simplefilter("ignore")
    from . import core

    core.use_repo()
    pid = args.pid.upper()
    mod = importlib.import_module(f"vf.props.{pid.lower()}")
    if args.replay:
        data = json.load(open(args.replay))
        ok, detail = mod.replay(data)
        print(("REPRODUCED " if ok else "NOT-REPRODUCED ") + str(detail)[:1500])
        sys.exit(core.REPRODUCED if ok else core.NOT_REPRODUCED)
    os.environ.setdefault("VERIF_Z3_TIMEOUT_MS", "3000" if args.tier == "quick" else "30000")
    seed = int(os.environ.get("VERIF_SEED", "0"))
    ctx = core.Ctx(pid, args.tier, seed, level=getattr(mod, "LEVEL", "model_checking"))
    ctx.only = args.only
    try:
        mod.run(ctx)
    except Exception:
        import traceback

        ctx.harness_errors.append("run() raised: " + traceback.format_exc()[-1500:])
    sys.exit(core.finish(ctx))


if __name__ == "__main__":
    main()
