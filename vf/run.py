"""CLI: python -m vf.run <Cxx> [--tier quick|thorough] [--replay FILE]"""
import argparse
import importlib
import json
import os
import sys
import time
import warnings


def replay_history(mod, data, detail0):
    """Re-execute, in THIS one process, the instances the original worker had executed before the failing one, then
    the failing instance itself; reproduced iff the same discrepancy (key + clause) shows up again."""
    inp = data["inputs"]
    work = getattr(mod, "work", None)
    if work is None or "_item" not in inp:
        return False, str(detail0) + " | no history replay available"
    os.environ["VERIF_PROCS"] = "1"
    for it in inp["_history"]:
        try:
            work(it)
        except Exception:
            pass
    out = work(inp["_item"])
    for c in (out or {}).get("candidates", []):
        if c["key"] == data["key"] and c["clause"] == data["clause"]:
            return True, f"after {len(inp['_history'])} preceding operations in the same process: {c['what']}"
    return False, str(detail0) + f" | not reproduced after replaying {len(inp['_history'])} preceding operations either"


def replay_raised(mod, data, with_history=False):
    """the library raised on a ground instance: re-execute the instance (after the worker's history if asked) and see
    whether the library raises the same exception again"""
    from . import core

    inp = data["inputs"]
    os.environ["VERIF_PROCS"] = "1"
    if with_history:
        for it in inp.get("_history", []):
            try:
                mod.work(it)
            except Exception:
                pass
    try:
        mod.work(inp["_item"])
    except Exception as e:
        if type(e).__name__ == inp["_raised"] and core.exception_origin(e) == "library":
            return True, f"the library raised {type(e).__name__}: {str(e)[:200]}"
        return False, f"raised {type(e).__name__} instead"
    return False, "no exception on re-execution"


def main():
    ap = argparse.ArgumentParser()
    ap.add_argument("pid")
    ap.add_argument("--tier", default=os.environ.get("VERIF_TIER", "quick"), choices=["quick", "thorough"])
    ap.add_argument("--replay")
    ap.add_argument("--history", action="store_true", help="replay the worker's history before the failing instance")
    ap.add_argument("--only", help="substring filter on instance keys (debugging)")
    args = ap.parse_args()
    warnings.simplefilter("ignore")
    from . import core

    core.use_repo()
    pid = args.pid.upper()
    mod = importlib.import_module(f"vf.props.{pid.lower()}")
    if args.replay:
        data = json.load(open(args.replay))
        if (data.get("inputs") or {}).get("_raised"):
            ok, detail = replay_raised(mod, data, with_history=args.history)
            print(("REPRODUCED " if ok else "NOT-REPRODUCED ") + str(detail)[:1500])
            sys.exit(core.REPRODUCED if ok else core.NOT_REPRODUCED)
        ok, detail = (False, "history mode") if args.history else mod.replay(data)
        hist = (data.get("inputs") or {}).get("_history")
        if not ok and hist is not None and (args.history or hist):
            ok, detail = replay_history(mod, data, detail)
        print(("REPRODUCED " if ok else "NOT-REPRODUCED ") + str(detail)[:1500])
        sys.exit(core.REPRODUCED if ok else core.NOT_REPRODUCED)
    os.environ.setdefault("VERIF_Z3_TIMEOUT_MS", "3000" if args.tier == "quick" else "30000")
    seed = int(os.environ.get("VERIF_SEED", "0"))
    ctx = core.Ctx(pid, args.tier, seed, level=getattr(mod, "LEVEL", "model_checking"))
    ctx.only = args.only
    try:
        mod.run(ctx)
    except Exception:
        import traceback

        ctx.harness_errors.append("run() raised: " + traceback.format_exc()[-1500:])
    except BaseException as e:
        if type(e).__name__ not in ("Inconclusive", "PathAbort"):
            raise
        ctx.inconc("run", f"{type(e).__name__}: {e}")
    sys.exit(core.finish(ctx))


if __name__ == "__main__":
    main()
