"""Back end: discharge "delta == 0 for all values of the unknowns" obligations.

Stage A z3 (QF_NRA), Stage B cvc5 on the same SMT-LIB2 text, Stage C exact Fourier
certificate; the Fourier verdict is also computed for every obligation decided in A/B
and must agree (translator validation).
"""
from fractions import Fraction
import math
import random
import time

import z3

from .front import Env, Front, ZAlg, LAlg, Refuse, zterm, _isnum

TAU = Fraction(1, 10**9)
FREE_BOUND = 4  # |v| <= FREE_BOUND for free reals in tolerance mode (stated bound)


def _num_to_float(v):
    if z3.is_rational_value(v):
        return float(v.as_fraction())
    if z3.is_algebraic_value(v):
        return float(v.approx(20).as_fraction())
    try:
        return float(v.as_decimal(20).rstrip("?"))
    except Exception:
        return float("nan")


def z3_query(constraints, goal, timeout_ms):
    s = z3.SolverFor("QF_NRA")
    s.set("timeout", int(timeout_ms))
    for c in constraints:
        s.add(c)
    s.add(goal)
    t = time.time()
    from .symtrace import bounded_check

    r = str(bounded_check(s, int(timeout_ms)))
    dt = time.time() - t
    model = s.model() if r == "sat" else None
    return r, model, dt, s


def cvc5_query(smt2_text, timeout_ms):
    """Stage B: same SMT-LIB2 text through cvc5's parser. Returns 'sat'/'unsat'/'unknown'."""
    try:
        import cvc5

        slv = cvc5.Solver()
        slv.setOption("tlimit-per", str(int(timeout_ms)))
        slv.setLogic("QF_NRA")
        parser = cvc5.InputParser(slv)
        parser.setStringInput(cvc5.InputLanguage.SMT_LIB_2_6, "(set-logic QF_NRA)\n" + smt2_text, "vf")
        sm = parser.getSymbolManager()
        result = "unknown"
        while True:
            cmd = parser.nextCommand()
            if cmd.isNull():
                break
            out = cmd.invoke(slv, sm)
            o = str(out).strip()
            if o in ("sat", "unsat", "unknown"):
                result = o
        return result
    except Exception as e:  # parser/solver trouble is inconclusive, never a verdict
        return "unknown:" + repr(e)[:80]


class Prover:
    """One per structural instance. `build(F)` callbacks receive a Front and return a list of
    (label, delta) in F.alg; they are called once per algebra and must be deterministic."""

    def __init__(self, res, unit=Fraction(1, 2), tau=TAU, timeout_ms=None, use_cvc5=True):
        self.res = res
        self.env = Env(unit)
        self.zalg = ZAlg(self.env)
        self.lalg = LAlg(self.env)
        self.ZF = Front(self.env, self.zalg)
        self.LF = Front(self.env, self.lalg)
        self.tau = Fraction(tau)
        import os

        self.timeout_ms = timeout_ms or int(os.environ.get('VERIF_Z3_TIMEOUT_MS', '10000'))
        self.use_cvc5 = use_cvc5
        self.extra_constraints = []
        self.force_tolerance = False

    # -- helpers ------------------------------------------------------------
    def constraints(self, exact):
        cs = list(self.zalg.constraints()) + list(self.extra_constraints)
        if not exact:
            for k, v in self.zalg._vars.items():
                cs.append(v <= FREE_BOUND)
                cs.append(v >= -FREE_BOUND)
        return cs

    def goal(self, dz, exact):
        re, im = dz
        ds = []
        if exact:
            if not _isnum(re):
                ds.append(re != 0)
            elif re != 0:
                return True
            if not _isnum(im):
                ds.append(im != 0)
            elif im != 0:
                return True
        else:
            tau = z3.RealVal(str(self.tau))
            for part in (re, im):
                if _isnum(part):
                    if abs(part) > self.tau:
                        return True
                else:
                    ds.append(part > tau)
                    ds.append(part < -tau)
        if not ds:
            return False
        return z3.Or(ds)

    def witness_from_model(self, model):
        """z3 model -> {symbol name: float} (angles from circle points)."""
        w = {}
        inv_atoms = {k: a for a, k in self.env.atoms.items()}
        for k, (c, s) in self.zalg._cs.items():
            cv = _num_to_float(model.eval(c, model_completion=True))
            sv = _num_to_float(model.eval(s, model_completion=True))
            ang = math.atan2(sv, cv) / float(self.env.unit)
            self._assign_atom(w, inv_atoms[k], ang)
        inv_vars = {k: a for a, k in self.env.vars.items()}
        for k, v in self.zalg._vars.items():
            w[str(inv_vars[k])] = _num_to_float(model.eval(v, model_completion=True))
        for a, k in self.env.atoms.items():
            if k not in self.zalg._cs:
                self._assign_atom(w, a, 0.3)
        for sname, k in self.env.vars.items():
            w.setdefault(str(sname), 0.0)
        return w

    def _assign_atom(self, w, atom, value):
        syms = sorted(atom.free_symbols, key=str)
        if len(syms) == 1 and atom == syms[0]:
            w[str(syms[0])] = value
            return
        # monomial atom: put the value on the first unassigned symbol, 1.0 on the rest
        free = [s for s in syms if str(s) not in w]
        if not free:
            w["__unrealisable__"] = 1.0
            return
        for s in free[1:]:
            w[str(s)] = 1.0
        partial = atom.subs({s: w[str(s)] for s in syms if str(s) in w})
        import sympy

        sol = sympy.solve(partial - value, free[0])
        if sol:
            w[str(free[0])] = float(sol[0])
        else:
            w["__unrealisable__"] = 1.0

    def witness_from_laurent(self, d):
        """Point (angles / free values) where |d| is large; None if none found above tau."""
        atoms = d.atoms()
        zk = [n[1] for n in atoms if n[0] == "z"]
        vk = [n[1] for n in atoms if n[0] == "v"]
        rng = random.Random(1234)
        best, bestv = None, 0.0
        pts = []
        degs = {k: d.degree(k) for k in zk}
        grid = 1
        for k in zk:
            grid *= 2 * degs[k] + 1
        if grid * max(1, 3 ** len(vk)) <= 4000:
            import itertools

            axes = [[2 * math.pi * j / (2 * degs[k] + 1) + 0.1234 for j in range(2 * degs[k] + 1)] for k in zk]
            vaxes = [[-1.7, 0.6, 2.3] for _ in vk]
            for p in itertools.product(*axes, *vaxes):
                pts.append(p)
        for _ in range(1500):
            pts.append(tuple(rng.uniform(-math.pi, math.pi) for _ in zk) + tuple(rng.uniform(-3, 3) for _ in vk))
        for p in pts:
            zv = {k: p[i] for i, k in enumerate(zk)}
            vv = {k: p[len(zk) + i] for i, k in enumerate(vk)}
            val = abs(d.evalf(zv, vv))
            if val > bestv:
                best, bestv = (zv, vv), val
        if best is None or bestv <= float(self.tau) * 2:
            return None, bestv
        zv, vv = best
        w = {}
        inv_atoms = {k: a for a, k in self.env.atoms.items()}
        for k, ang in zv.items():
            self._assign_atom(w, inv_atoms[k], ang / float(self.env.unit))
        inv_vars = {k: a for a, k in self.env.vars.items()}
        for k, v in vv.items():
            w[str(inv_vars[k])] = v
        for a, k in self.env.atoms.items():
            if k not in zv:
                self._assign_atom(w, a, 0.3)
        for s, k in self.env.vars.items():
            w.setdefault(str(s), 0.0)
        return w, bestv

    def laurent_verdict(self, d, exact):
        if d.is_zero():
            return "holds"
        if exact:
            return "violated"
        if d.has_free():
            # upper bound with |v| <= FREE_BOUND
            ub = 0.0
            for m, (r, i) in d.d.items():
                deg = sum(e for n, e in m if n[0] == "v")
                ub += math.hypot(float(r), float(i)) * (FREE_BOUND**deg)
            return "holds" if ub <= float(self.tau) else "band"
        if d.l1() <= float(self.tau):
            return "holds"
        if d.linf() > 2.9 * float(self.tau):
            return "violated"
        return "band"

    # -- main entry ---------------------------------------------------------
    def prove_zero(self, name, build, clause, expect_violation=False, sub=""):
        """Decide every (label, delta) produced by build. Returns list of
        (label, verdict, witness) with verdict in holds/violated/inconclusive.
        With expect_violation (vacuity twin) nothing is recorded as obligation."""
        res = self.res
        try:
            zs = build(self.ZF)
            ls = build(self.LF)
        except Refuse as e:
            if not expect_violation:
                res.ob(1)
                res.inconc(f"translation refused: {e}", sub or name)
            return [(name, "inconclusive", None)]
        assert len(zs) == len(ls), "build must be deterministic"
        exact = (not self.env.inexact) and not self.force_tolerance
        cons = None
        out = []
        streak = 0  # consecutive obligations on which both solvers gave up
        for (label, dz), (_, dl) in zip(zs, ls):
            lv = self.laurent_verdict(dl, exact)
            g = self.goal(dz, exact)
            verdict, stage, witness = None, None, None
            if g is False:
                verdict, stage = "holds", "constant-folded"
            elif g is True:
                verdict, stage = "violated", "constant-folded"
                witness = self.witness_from_laurent(dl)[0] or self._default_witness()
            elif streak >= 3 and lv in ("holds", "violated"):
                # the solvers gave up on three obligations of this family in a row: decide the rest
                # by the exact Fourier certificate directly (counted apart)
                verdict, stage = lv, "C:fourier-certificate"
                if lv == "violated":
                    witness = self.witness_from_laurent(dl)[0]
            else:
                if cons is None:
                    cons = self.constraints(exact)
                r, model, dt, s = z3_query(cons, g, self.timeout_ms)
                res.d["solver_s"] += dt
                res.d["solver_queries"] += 1
                if r in ("sat", "unsat"):
                    streak = 0
                if r == "unsat":
                    verdict, stage = "holds", "A:z3"
                elif r == "sat":
                    verdict, stage = "violated", "A:z3"
                    witness = self.witness_from_model(model)
                else:
                    r2 = "unknown"
                    if self.use_cvc5:
                        t = time.time()
                        r2 = cvc5_query(s.to_smt2(), self.timeout_ms)
                        res.d["solver_s"] += time.time() - t
                        res.d["solver_queries"] += 1
                    if r2 == "unsat":
                        verdict, stage = "holds", "B:cvc5"
                    elif r2 == "sat":
                        verdict, stage = "violated", "B:cvc5"
                        witness = self.witness_from_laurent(dl)[0]
                    else:
                        # Stage C
                        streak += 1
                        if lv == "holds":
                            verdict, stage = "holds", "C:fourier-certificate"
                        elif lv == "violated":
                            verdict, stage = "violated", "C:fourier-certificate"
                            witness = self.witness_from_laurent(dl)[0]
                        else:
                            verdict, stage = "inconclusive", "none"
            # cross-check with the Fourier verdict (translator validation)
            if stage in ("A:z3", "B:cvc5") and lv in ("holds", "violated") and lv != verdict:
                # z3 'violated' inside the band (tau < |d| < 2.9 tau) is not a disagreement
                res.herr(
                    f"{name}/{label}: solver says {verdict} but Fourier form says {lv} "
                    f"(l1={dl.l1():.3g}, linf={dl.linf():.3g}, exact={exact})"
                )
                verdict = "inconclusive"
            if expect_violation:
                out.append((label, verdict, witness))
                continue
            res.ob(1)
            if verdict == "holds":
                res.ob(0, 1, stage)
            elif verdict == "violated":
                if witness is None or "__unrealisable__" in witness:
                    res.inconc("violated per solver but no realisable witness", f"{sub or name}/{label}")
                    verdict = "inconclusive"
            else:
                res.inconc(f"unknown from z3, cvc5 and Fourier band (l1={dl.l1():.3g})", f"{sub or name}/{label}")
            out.append((label, verdict, witness))
        return out

    def _default_witness(self):
        w = {}
        for a in self.env.atoms:
            for s in a.free_symbols:
                w[str(s)] = 0.3
        for s in self.env.vars:
            w[str(s)] = 0.7
        return w


def first_violation(results):
    for label, verdict, witness in results:
        if verdict == "violated":
            return label, witness
    return None
